"""Generic decision procedure shared by every property check (DESIGN §1 D, §10).

A property plug-in (props/<id>.py) provides a dict CFG; `run_check` does:
  1. regenerate source-extracted tables (optional) ;
  2. re-check the proof obligations (lake build of the theorem module and of the
     model driver, `#print axioms` audit of every property theorem, source grep audit);
  3. rebuild the Rust harness against /repo's working tree (hooks on);
  4. corpus + generated cases -> implementation output and model output -> diff,
     implementation-side oracle verdicts vs model verdicts / known-finding classes;
  5. decide, write evidence/<id>.json, print VIOLATION / KNOWN-FINDING lines.
"""
import hashlib, json, os, re, subprocess, sys, time

VERIF = os.path.dirname(os.path.dirname(os.path.abspath(__file__)))
LEAN = os.path.join(VERIF, "lean")
HARNESS = os.path.join(VERIF, "harness")
WORK = os.path.join(VERIF, "work")
ALLOWED_AXIOMS = {"propext", "Classical.choice", "Quot.sound"}
BASE_TRUSTED = [
    "Lean 4.33.0 kernel (+ leanchecker re-check in the thorough tier)",
    "axioms allowed: propext, Classical.choice, Quot.sound (audited by #print axioms on every run); no native_decide/bv_decide/sorry",
    "hand-written Lean model: faithfulness is checked by the correspondence run, not proved",
    "Rust harness, its generator, canonicaliser and implementation-side oracle; vlib/core.py",
    "Lean compiler/runtime executing the model driver (same definitions the theorems are about)",
]


def env_offline(hooks=False):
    """hooks=True: build /repo with `--cfg leptos_verif` (separate target dir so the two
    configurations do not evict each other's artefacts)"""
    e = dict(os.environ)
    e.update(CARGO_NET_OFFLINE="true", GOPROXY="off", PIP_NO_INDEX="1")
    e.pop("CARGO_TARGET_DIR", None)
    if hooks:
        e["RUSTFLAGS"] = "--cfg leptos_verif"
        e["CARGO_TARGET_DIR"] = os.path.join(HARNESS, "target-verif")
    else:
        e.pop("RUSTFLAGS", None)
        e["CARGO_TARGET_DIR"] = os.path.join(HARNESS, "target")
    return e


def sh(cmd, cwd=None, timeout=None, env=None, stdin=None, stdout=None):
    """run, return (rc, combined output)"""
    try:
        p = subprocess.run(cmd, cwd=cwd, env=env or env_offline(), timeout=timeout,
                           stdin=stdin, stdout=stdout or subprocess.PIPE,
                           stderr=subprocess.STDOUT if stdout is None else subprocess.PIPE, text=True)
        return p.returncode, (p.stdout if stdout is None else p.stderr) or ""
    except subprocess.TimeoutExpired as ex:
        return 124, "timeout: %s" % ex


# ----------------------------------------------------------------- proofs

def grep_audit(files):
    """forbidden constructs outside comments in the given Lean files"""
    bad = []
    pat = re.compile(r"\bsorry\b|\badmit\b|^\s*axiom\s|native_decide|bv_decide|implemented_by|\bunsafe\s|maxHeartbeats\s+0|@\[extern")
    for f in files:
        try:
            src = open(f, encoding="utf-8").read()
        except OSError:
            continue
        # strip block comments (incl. doc comments) and line comments
        src = re.sub(r"/-.*?-/", lambda m: "\n" * m.group(0).count("\n"), src, flags=re.S)
        for i, line in enumerate(src.split("\n"), 1):
            line = line.split("--", 1)[0]
            if pat.search(line):
                bad.append("%s:%d: %s" % (os.path.relpath(f, VERIF), i, line.strip()))
    return bad


def lean_sources_of(module):
    """transitive closure of `import LeptosModel.*` starting from a module"""
    seen, todo = [], [module]
    while todo:
        m = todo.pop()
        if m in seen:
            continue
        path = os.path.join(LEAN, *m.split(".")) + ".lean"
        if not os.path.exists(path):
            continue
        seen.append(m)
        for line in open(path, encoding="utf-8"):
            mm = re.match(r"\s*import\s+((?:LeptosModel|Driver)\.[\w.]+)", line)
            if mm:
                todo.append(mm.group(1))
    return [os.path.join(LEAN, *m.split(".")) + ".lean" for m in seen]


def check_proofs(cfg, tier, log):
    """returns (obligations, discharged, failures[list of str])"""
    thm_mod = cfg["lean_theorems"]
    theorems = cfg["theorems"]
    failures = []
    targets = [thm_mod, cfg["lean_exe"]]
    rc, out = sh(["lake", "build"] + targets, cwd=LEAN, timeout=3000)
    log.append("$ lake build %s -> rc=%d\n%s" % (" ".join(targets), rc, out[-4000:]))
    if rc != 0:
        failures.append("theorem:%s (lake build failed)" % thm_mod)
        # try the driver alone so that the correspondence can still run
        rc2, out2 = sh(["lake", "build", cfg["lean_exe"]], cwd=LEAN, timeout=3000)
        if rc2 != 0:
            failures.append("model-driver:%s (lake build failed)" % cfg["lean_exe"])
        return len(theorems), 0, failures
    # axiom audit
    audit = os.path.join(WORK, cfg["id"], "Audit.lean")
    os.makedirs(os.path.dirname(audit), exist_ok=True)
    with open(audit, "w") as f:
        f.write("import %s\n" % thm_mod)
        for t in theorems:
            f.write("#print axioms %s\n" % t)
    rc, out = sh(["lake", "env", "lean", audit], cwd=LEAN, timeout=1200)
    log.append("$ lake env lean Audit.lean -> rc=%d\n%s" % (rc, out[-4000:]))
    discharged = 0
    flat = " ".join(out.split())
    for t in theorems:
        short = t
        m = re.search(r"'%s' depends on axioms: \[([^\]]*)\]" % re.escape(short), flat)
        if m:
            axs = {a.strip() for a in m.group(1).split(",") if a.strip()}
            if axs <= ALLOWED_AXIOMS:
                discharged += 1
            else:
                failures.append("theorem:%s uses axioms %s" % (t, sorted(axs - ALLOWED_AXIOMS)))
        elif re.search(r"'%s' does not depend on any axioms" % re.escape(short), flat):
            discharged += 1
        else:
            failures.append("theorem:%s not found by #print axioms" % t)
    bad = grep_audit(lean_sources_of(thm_mod))
    for b in bad:
        failures.append("grep-audit:" + b)
    if tier == "thorough" and not failures:
        rc, out = sh(["lake", "env", "leanchecker", thm_mod], cwd=LEAN, timeout=3000)
        log.append("$ leanchecker %s -> rc=%d\n%s" % (thm_mod, rc, out[-2000:]))
        if rc != 0:
            failures.append("leanchecker:%s rc=%d" % (thm_mod, rc))
    return len(theorems), discharged, failures


# ----------------------------------------------------------------- harness

def build_harness(cfg, log):
    """each harness crate is standalone (own `[workspace]` table and Cargo.lock copied from
    /repo/Cargo.lock) so that one crate can never break another's build"""
    crate = os.path.join(HARNESS, cfg["harness_pkg"])
    lock_dst = os.path.join(crate, "Cargo.lock")
    if not os.path.exists(lock_dst):
        import shutil
        shutil.copy("/repo/Cargo.lock", lock_dst)
    cmd = ["cargo", "build", "--release", "--offline", "--bin", cfg["harness_bin"]]
    rc, out = sh(cmd, cwd=crate, timeout=3000, env=env_offline(cfg.get("hooks", False)))
    log.append("$ (cd %s) %s -> rc=%d\n%s" % (crate, " ".join(cmd), rc, out[-3000:]))
    return rc == 0, out


def harness_bin(cfg):
    return os.path.join(env_offline(cfg.get("hooks", False))["CARGO_TARGET_DIR"], "release", cfg["harness_bin"])


def model_bin(cfg):
    return os.path.join(LEAN, ".lake", "build", "bin", cfg["lean_exe"])


def run_impl(cfg, ops, out, timeout=None):
    timeout = timeout or cfg.get("run_timeout_s", 900)
    rc, o = sh([harness_bin(cfg), "run", ops, out], timeout=timeout)
    return rc, o


def run_model(cfg, ops, out, timeout=3000):
    with open(ops) as fi, open(out, "w") as fo:
        rc, o = sh([model_bin(cfg)], stdin=fi, stdout=fo, timeout=timeout)
    return rc, o


# ----------------------------------------------------------------- compare

def split_verdict(line):
    if " ## " in line:
        obs, v = line.split(" ## ", 1)
        return obs.strip(), v.strip()
    return line.strip(), None


def strip_tags(line):
    m = re.match(r"(case \S+)(?:\s+tags=(\S*))?\s*$", line)
    if m:
        return m.group(1), (m.group(2).split(",") if m.group(2) else [])
    return line, None


def load_known(pid):
    known, fixed = {}, []
    path = os.path.join(VERIF, "known_findings.txt")
    if os.path.exists(path):
        for line in open(path):
            line = line.strip()
            m = re.match(r"known:\s+property=(\S+)\s+class=(\S+)\s+(.*)", line)
            if m and m.group(1) == pid:
                known[m.group(2)] = m.group(3)
            m = re.match(r"fixed:\s+property=(\S+)\s+(.*)", line)
            if m and m.group(1) == pid:
                fixed.append(m.group(2))
    return known, fixed


class Case:
    __slots__ = ("name", "ops", "impl", "model", "tags")

    def __init__(self, name):
        self.name, self.ops, self.impl, self.model, self.tags = name, [], [], [], []


def group_cases(ops_lines, impl_lines, model_lines):
    cases, cur = [], None
    for i, op in enumerate(ops_lines):
        il = impl_lines[i] if i < len(impl_lines) else "<missing>"
        ml = model_lines[i] if i < len(model_lines) else "<missing>"
        if op.startswith("case ") or cur is None:
            cur = Case(op.split()[1] if op.startswith("case ") and len(op.split()) > 1 else "?")
            cases.append(cur)
            il2, tags = strip_tags(il)
            if tags is not None:
                il = il2
                cur.tags = tags
            ml, _ = strip_tags(ml)
        cur.ops.append(op)
        cur.impl.append(il)
        cur.model.append(ml)
    return cases


def judge_case(c, known):
    """returns list of (kind, detail): kind in known|oracle|disagree"""
    res = []
    for op, il, ml in zip(c.ops, c.impl, c.model):
        io, iv = split_verdict(il)
        mo, mv = split_verdict(ml)
        ifail = iv is not None and iv.startswith("fail")
        mfail = mv is not None and mv.startswith("fail")
        if ifail:
            cls = mv.split()[1] if (mfail and len(mv.split()) > 1) else None
            if io == mo and mfail and cls in known:
                res.append(("known", cls))
            else:
                res.append(("oracle", "op `%s`: impl `%s` model `%s`" % (op, il, ml)))
        elif io != mo:
            res.append(("disagree", "op `%s`: impl `%s` model `%s`" % (op, il, ml)))
        elif mfail and not ifail:
            res.append(("disagree", "verdict: op `%s`: impl `%s` model `%s`" % (op, il, ml)))
    return res


def read_lines(p):
    with open(p, encoding="utf-8", errors="replace") as f:
        return [l.rstrip("\n") for l in f]


def run_and_judge(cfg, ops_path, workdir, known, tag="main"):
    impl_out = os.path.join(workdir, tag + ".impl.out")
    model_out = os.path.join(workdir, tag + ".model.out")
    rc_i, o_i = run_impl(cfg, ops_path, impl_out)
    rc_m, o_m = run_model(cfg, ops_path, model_out)
    ops = read_lines(ops_path)
    impl = read_lines(impl_out) if os.path.exists(impl_out) else []
    model = read_lines(model_out) if os.path.exists(model_out) else []
    cases = group_cases(ops, impl, model)
    notes = []
    if rc_i != 0:
        notes.append("harness run rc=%d: %s" % (rc_i, o_i[-500:]))
    if rc_m != 0:
        notes.append("model driver rc=%d: %s" % (rc_m, o_m[-500:]))
    return cases, notes


def shrink_case(cfg, case, kind, workdir, known, budget_s=60):
    """greedy line removal while the same kind of failure persists"""
    t0 = time.time()
    ops = list(case.ops)
    changed = True
    rounds = 0
    while changed and time.time() - t0 < budget_s and len(ops) > 2:
        changed = False
        i = len(ops) - 1
        while i >= 1 and time.time() - t0 < budget_s:
            cand = ops[:i] + ops[i + 1:]
            p = os.path.join(workdir, "shrink.ops")
            with open(p, "w") as f:
                f.write("\n".join(cand) + "\n")
            cs, notes = run_and_judge(cfg, p, workdir, known, tag="shrink")
            rounds += 1
            still = (not notes) and len(cs) == 1 and any(k == kind for k, _ in judge_case(cs[0], known)) \
                and not any("bad-op" in l for l in cs[0].impl + cs[0].model)
            if still:
                ops = cand
                changed = True
            i -= 1
    return ops


def write_replay(cfg, tier, seed, name, body):
    d = os.path.join(VERIF, "replays")
    os.makedirs(d, exist_ok=True)
    path = os.path.join(d, "%s-%s-%s-%s.txt" % (cfg["id"], tier, seed, name))
    with open(path, "w") as f:
        f.write(body)
    return path


# ----------------------------------------------------------------- main

def run_check(cfg, tier, seed):
    t0 = time.time()
    pid = cfg["id"]
    workdir = os.path.join(WORK, pid)
    os.makedirs(workdir, exist_ok=True)
    log = []
    known, fixed = load_known(pid)
    unshown = []  # proof / correspondence artefacts that no longer check

    # 1. extractors
    for ex in cfg.get("extract", []):
        rc, out = sh([sys.executable, os.path.join(VERIF, "extract.py"), ex], cwd=VERIF, timeout=600)
        log.append("$ extract %s -> rc=%d\n%s" % (ex, rc, out[-2000:]))
        if rc != 0:
            unshown.append("extract:%s" % ex)

    # 2. proofs
    obligations, discharged, pf = check_proofs(cfg, tier, log)
    unshown += pf

    # 3. harness
    ok, out = build_harness(cfg, log)
    cases, run_notes = [], []
    n = cfg["n"][tier]
    gen_stats = {}
    if not ok:
        unshown.append("harness-build:%s/%s (does not compile against the current /repo tree)" % (cfg["harness_pkg"], cfg["harness_bin"]))
    elif not os.path.exists(model_bin(cfg)):
        unshown.append("model-driver:%s missing" % cfg["lean_exe"])
    else:
        # 4. ops = corpus + generated
        ops_path = os.path.join(workdir, "ops.txt")
        gen_path = os.path.join(workdir, "gen.ops")
        rc, out = sh([harness_bin(cfg), "gen", str(seed), str(n), gen_path, tier], timeout=cfg.get("gen_timeout_s", 900))
        if rc != 0:
            # rc 124 = the generator itself (which may execute the real code to label cases) did not return
            unshown.append("generator rc=%d %s" % (rc, out[-300:]))
            if os.path.exists(gen_path):
                os.remove(gen_path)
        with open(ops_path, "w") as f:
            cdir = os.path.join(VERIF, "corpus", pid)
            k = 0
            if os.path.isdir(cdir):
                for fn in sorted(os.listdir(cdir)):
                    if not fn.endswith(".ops"):
                        continue
                    for line in open(os.path.join(cdir, fn)):
                        line = line.rstrip("\n")
                        if not line.strip() or line.startswith("#"):
                            continue
                        if line.startswith("case "):
                            line = "case corpus-%s-%d" % (fn[:-4], k)
                            k += 1
                        f.write(line + "\n")
            if os.path.exists(gen_path):
                for line in open(gen_path):
                    f.write(line)
        cases, run_notes = run_and_judge(cfg, ops_path, workdir, known)
        for nnote in run_notes:
            unshown.append("run:" + nnote)

    # 5. judge
    known_hits, oracle_fail, disagree = {}, [], []
    tags_hist, seen_hashes, nontrivial = {}, set(), 0
    trivial_tags = set(cfg.get("trivial_tags", ["plain"]))
    for c in cases:
        for kind, detail in judge_case(c, known):
            if kind == "known":
                known_hits[detail] = known_hits.get(detail, 0) + 1
            elif kind == "oracle":
                oracle_fail.append((c, detail))
            else:
                disagree.append((c, detail))
        h = hashlib.sha1("\n".join(c.ops[1:]).encode()).hexdigest()
        for t in c.tags:
            tags_hist[t] = tags_hist.get(t, 0) + 1
        is_nt = (len(c.ops) > 1) and (not c.tags or any(t not in trivial_tags for t in c.tags))
        if h not in seen_hashes:
            seen_hashes.add(h)
            if is_nt:
                nontrivial += 1
    bad_ops = sum(1 for c in cases for l in c.model if l.startswith("bad-op"))
    if bad_ops:
        unshown.append("model-driver: %d op lines rejected as bad-op" % bad_ops)

    violations = 0
    lines = []
    for cls, cnt in sorted(known_hits.items()):
        lines.append("KNOWN-FINDING: property=%s class=%s %s (%d generated inputs fell in this class; model reproduces each)" % (pid, cls, known[cls], cnt))
    if oracle_fail:
        c, detail = oracle_fail[0]
        ops_min = shrink_case(cfg, c, "oracle", workdir, known) if len(c.ops) > 2 else c.ops
        body = "# property %s fails on the implementation (oracle evaluated on the real code's output)\n# %s\n# %d failing cases in this run; first one (shrunk) below; replay: ./check %s --replay <this file>\n%s\n" % (
            pid, detail, len(oracle_fail), pid, "\n".join(ops_min))
        path = write_replay(cfg, tier, seed, "oracle-" + str(c.name), body)
        lines.append("VIOLATION property=%s replay=%s" % (pid, path))
        violations = len(oracle_fail)
    elif disagree or unshown:
        what = []
        if disagree:
            c, detail = disagree[0]
            ops_min = shrink_case(cfg, c, "disagree", workdir, known) if len(c.ops) > 2 else c.ops
            what.append("correspondence:%s:case-%s  %s" % (pid, c.name, detail))
            extra = "\n".join(ops_min)
        else:
            extra = ""
        what += unshown
        body = "# property %s is no longer shown to hold; no input was found on which the implementation violates it\n# artefacts that no longer check:\n%s\n%s\n" % (
            pid, "\n".join("#   " + w for w in what), extra)
        path = write_replay(cfg, tier, seed, "unshown", body)
        lines.append("VIOLATION property=%s replay=%s no-failing-input-found" % (pid, path))
        violations = max(1, len(disagree))

    wall = time.time() - t0
    samples = []
    for c in cases[:: max(1, len(cases) // 4)][:4]:
        samples.append({"ops": c.ops[:12], "impl": c.impl[:12]})
    ev = {
        "property_id": pid,
        "tier": tier,
        "seed": seed,
        # a run that discharged no proof obligation cannot claim the proof level
        "level": (cfg.get("level", "proof") if (obligations > 0 or cfg.get("level", "proof") != "proof") else "translation_validation"),
        "coverage": {
            "obligations": obligations,
            "discharged": discharged,
            "checker_cmd": "cd lean && lake build %s && lake env lean <#print axioms of each theorem>%s" % (
                cfg["lean_theorems"], " && lake env leanchecker " + cfg["lean_theorems"] if tier == "thorough" else ""),
            "trusted_base": BASE_TRUSTED + cfg.get("trusted", []),
            "theorems": cfg["theorems"],
            "programs": max(1, len(cases)),
            "disagreements_checked": len(cases),
            "disagreements_found": len(disagree),
            "oracle_failures_outside_known_classes": len(oracle_fail),
            "known_finding_hits": known_hits,
            "evaluations": max(1, sum(max(0, len(c.ops) - 1) for c in cases)),
            "distinct_nontrivial": nontrivial,
            "rule": cfg.get("rule", ""),
            "case_tag_histogram": tags_hist,
            "samples": samples or [{"note": "no case ran"}],
            "unshown_artefacts": unshown,
            "exhaustive": bool(cfg.get("exhaustive", {}).get(tier, False)),
            "modelled_not_verified": cfg.get("modelled", []),
        },
        "assumptions": cfg.get("assumptions", []),
        "wall_s": round(wall, 2),
        "violations": violations,
    }
    os.makedirs(os.path.join(VERIF, "evidence"), exist_ok=True)
    tmp = os.path.join(VERIF, "evidence", pid + ".json.tmp")
    with open(tmp, "w") as f:
        json.dump(ev, f, indent=1)
    os.replace(tmp, os.path.join(VERIF, "evidence", pid + ".json"))
    with open(os.path.join(workdir, "last.log"), "w") as f:
        f.write("\n\n".join(log))
    for l in lines:
        print(l)
    print("%s tier=%s seed=%s: theorems %d/%d, cases %d (distinct non-trivial %d), disagreements %d, oracle failures outside known classes %d, known-class hits %s, %.1fs" % (
        pid, tier, seed, discharged, obligations, len(cases), nontrivial, len(disagree), len(oracle_fail), dict(known_hits), wall))
    return 1 if violations else 0


def replay(cfg, path):
    """re-run one replay/corpus file on implementation and model, print both"""
    workdir = os.path.join(WORK, cfg["id"])
    os.makedirs(workdir, exist_ok=True)
    log = []
    ok, out = build_harness(cfg, log)
    if not ok:
        print(out[-2000:])
        return 2
    sh(["lake", "build", cfg["lean_exe"]], cwd=LEAN, timeout=3000)
    ops_path = os.path.join(workdir, "replay.ops")
    with open(ops_path, "w") as f:
        for line in open(path):
            if line.strip() and not line.startswith("#"):
                f.write(line)
    known, _ = load_known(cfg["id"])
    cases, notes = run_and_judge(cfg, ops_path, workdir, known, tag="replay")
    rc = 0
    for c in cases:
        for op, il, ml in zip(c.ops, c.impl, c.model):
            print("%-40s | impl: %s | model: %s" % (op, il, ml))
        for kind, detail in judge_case(c, known):
            print("  ->", kind, detail)
            if kind != "known":
                rc = 1
    for nn in notes:
        print(nn)
    return rc
