#!/usr/bin/env python3
"""usage: tools/syncknown.py <ID>... — make known_findings.txt carry exactly the known:/fixed: lines of props/<ID>.known
for each given property (same position as before), so reworded lines do not leave stale duplicates behind."""
import sys,re,os
kf='known_findings.txt'
lines=open(kf).read().split('\n')
for ID in sys.argv[1:]:
    src=[l.rstrip('\n') for l in open(f'props/{ID}.known') if re.match(r'^(known|fixed):',l)]
    have=[i for i,l in enumerate(lines) if re.match(rf'^(known|fixed): property={ID} ',l)]
    if len(src)<len(have):
        print(f'{ID}: props/{ID}.known has fewer lines ({len(src)}) than known_findings.txt ({len(have)}); not synced'); continue
    pos=have[0] if have else len(lines)
    lines=[l for i,l in enumerate(lines) if i not in set(have)]
    lines[pos:pos]=src
    print(f'{ID}: {len(have)} -> {len(src)} lines')
open(kf,'w').write('\n'.join(lines))
