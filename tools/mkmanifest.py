#!/usr/bin/env python3
"""Regenerates MANIFEST.json from props/*.py (one plug-in per claimed property) + tools/not_applicable.json."""
import importlib.util, json, os, sys
HERE = os.path.dirname(os.path.dirname(os.path.abspath(__file__)))
sys.path.insert(0, HERE)
checks = []
# only properties the lead has accepted (check exits 0 on the unchanged tree) are claimed
CLAIMED = set(open(os.path.join(HERE, "tools", "claimed.txt")).read().split())
for fn in sorted(os.listdir(os.path.join(HERE, "props"))):
    if not fn.endswith(".py"):
        continue
    pid = fn[:-3]
    if pid not in CLAIMED:
        continue
    spec = importlib.util.spec_from_file_location("p_" + pid, os.path.join(HERE, "props", fn))
    mod = importlib.util.module_from_spec(spec)
    spec.loader.exec_module(mod)
    m = dict(mod.CFG["manifest"])
    if m["category"] == "proof" and not mod.CFG.get("theorems"):
        # no theorem registered yet: what the check delivers today is translation validation
        m["category"] = "translation_validation"
        m["text"] = "(theorems for this property are still being proved; today's claim is translation validation only) " + m["text"]
    checks.append({
        "property_id": pid,
        "quick_cmd": "./check %s --tier quick" % pid,
        "thorough_cmd": "./check %s --tier thorough" % pid,
        "evidence_file": "/verif/evidence/%s.json" % pid,
        "replay_cmd_template": "./check %s --replay {path}" % pid,
        "engine": "lean4-proof+correspondence",
        "level_claimed": {"category": m["category"], "text": m["text"], "design_ref": m["design_ref"]},
        "level_note": m["note"],
        "technique": m["technique"],
    })
claimed = {c["property_id"] for c in checks}
na_path = os.path.join(HERE, "tools", "not_applicable.json")
na_all = json.load(open(na_path)) if os.path.exists(na_path) else {}
allp = [json.loads(l)["id"] for l in open(os.path.join(HERE, "properties.jsonl"))]
na = []
for p in allp:
    if p not in claimed:
        na.append({"property_id": p, "reason": na_all.get(p, "not yet claimed: model/theorems/correspondence for this property are still being built (DESIGN.md §13 build order); nothing is asserted about it")})
hooks = json.load(open(os.path.join(HERE, "tools", "hooks.json")))
man = {
    "version": 1,
    "setup_cmd": "./setup.sh",
    "hooks": hooks,
    "engines": [{
        "name": "lean4-proof+correspondence",
        "path": "/verif/check",
        "serves_properties": sorted(claimed),
        "kind_free_text": "Lean 4 theorems about hand-written executable models (lean/LeptosModel), tied to /repo by differential correspondence harnesses (harness/) driven through a line protocol; decision logic in vlib/core.py",
    }],
    "checks": checks,
    "not_applicable": na,
    "notes": "All checks: ./check <ID> --tier quick|thorough. Known findings in known_findings.txt. See DESIGN.md.",
}
json.dump(man, open(os.path.join(HERE, "MANIFEST.json"), "w"), indent=1)
print("MANIFEST.json: %d checks, %d not claimed" % (len(checks), len(na)))
