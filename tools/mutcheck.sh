#!/bin/sh
# usage: tools/mutcheck.sh <patch.diff> <ID> [<ID>...]
# Applies a patch to a scratch worktree of /repo (NOT to /repo), points a scratch copy of /verif at it, runs the checks.
# Everything lives under /tmp/mut-$$ and is removed afterwards.
set -e
PATCH=$(readlink -f "$1"); shift
D=/tmp/mut-$$
git -C /repo worktree add -q --detach $D/wt HEAD
( cd $D/wt && ( git apply "$PATCH" 2>/dev/null || git apply --3way "$PATCH" ) )
mkdir -p $D/verif
# another job may be rebuilding lean/.lake while we copy: repeat until one pass sees no vanished file (rsync code 24)
for try in 1 2 3 4 5 6; do
  rsync -a --delete --exclude harness/target --exclude harness/target-verif --exclude work --exclude replays --exclude .git /verif/ $D/verif/ && break
  [ $? -eq 24 ] || exit 2
  sleep 20
done
grep -rl '/repo/' $D/verif/harness/*/Cargo.toml $D/verif/vlib/core.py $D/verif/extract.py 2>/dev/null | xargs sed -i "s#/repo/#$D/wt/#g; s#\"/repo\"#\"$D/wt\"#g"
sed -i "s#/verif/harness/target#$D/target#" $D/verif/harness/.cargo/config.toml
rc=0
for id in "$@"; do
  ( cd $D/verif && ./check $id --tier quick ) || rc=1
done
git -C /repo worktree remove --force $D/wt
rm -rf $D
exit $rc
