#!/bin/sh
# usage: tools/accept.sh <ID>  — merge props/<ID>.known into known_findings.txt, run the check, and if it exits 0
# with schema-valid evidence add the property to tools/claimed.txt and regenerate MANIFEST.json
set -e
cd "$(dirname "$0")/.."
ID=$1
if [ -f props/$ID.known ]; then
  grep -E '^(known|fixed):' props/$ID.known | while IFS= read -r line; do
    grep -qxF "$line" known_findings.txt || echo "$line" >> known_findings.txt
  done
fi
./check $ID --tier quick > work/accept-$ID.log 2>&1 && rc=0 || rc=$?
tail -3 work/accept-$ID.log
[ $rc -eq 0 ] || { echo "NOT ACCEPTED: check exit $rc"; exit 1; }
python3-vt -c "
import json,jsonschema,sys
jsonschema.validate(json.load(open('evidence/$ID.json')), json.load(open('/root/.vp/EVIDENCE.schema.json')))
print('evidence valid')"
grep -qx "$ID" tools/claimed.txt || echo "$ID" >> tools/claimed.txt
sort -o tools/claimed.txt tools/claimed.txt
python3 tools/mkmanifest.py
