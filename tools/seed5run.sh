#!/bin/sh
# usage: tools/seed2run.sh <cNN> [extra IDs to run too]
# Runs tools/mutcheck.sh on every round-3 seed of one property (/tmp/seed5-out/cNN/N/patch.diff),
# writes the log to /tmp/seed5-res/cNN-N.log and one summary line per seed to /tmp/seed5-res/summary.txt.
p=$1; shift
ID=$(echo $p | tr c C)
mkdir -p /tmp/seed5-res
for n in 1 2 3; do
  pd=/tmp/seed5-out/$p/$n/patch.diff
  [ -f $pd ] || continue
  /verif/tools/mutcheck.sh $pd $ID "$@" > /tmp/seed5-res/$p-$n.log 2>&1
  rc=$?
  v=$(grep -c '^VIOLATION' /tmp/seed5-res/$p-$n.log)
  echo "$p-$n rc=$rc violations=$v $(grep '^VIOLATION' /tmp/seed5-res/$p-$n.log | head -2 | tr '\n' ' ')" >> /tmp/seed5-res/summary.txt
done
