#!/bin/sh
# usage: tools/regress_seeds.sh <out.txt> <seed-dir>...   — re-run stored seeds against the CURRENT tree via tools/mutcheck.sh
# (uses patch-rebased.diff / patch-adapted*.diff when present); one line per seed: <seed> rc=<rc> <summary>
out=$1; shift
for d in "$@"; do
  s=$(basename $d); ID=$(echo $s | cut -d- -f1)
  p=$d/patch.diff
  for alt in $d/patch-rebased.diff $d/patch-adapted-to-textarea-repair.diff; do [ -f $alt ] && p=$alt; done
  log=/tmp/regress-$s.log
  /verif/tools/mutcheck.sh $p $ID > $log 2>&1; rc=$?
  sum=$(grep -h "tier=quick" $log | sed 's/.*theorems/theorems/; s/, known-class.*//' | head -1)
  ap=""; grep -q "with conflicts\|patch failed\|does not apply" $log && ap="PATCH-DID-NOT-APPLY"
  echo "$s rc=$rc $ap $sum" >> $out
  rm -f $log
done
