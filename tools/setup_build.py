#!/usr/bin/env python3
"""Builds, for every claimed property, the theorem module + model driver and the harness binary."""
import importlib.util, os, subprocess, sys
HERE = os.path.dirname(os.path.dirname(os.path.abspath(__file__)))
sys.path.insert(0, HERE)
from vlib import core
lean_targets, crates = [], []
CLAIMED = set(open(os.path.join(HERE, "tools", "claimed.txt")).read().split())
for fn in sorted(os.listdir(os.path.join(HERE, "props"))):
    if not fn.endswith(".py") or fn[:-3] not in CLAIMED:
        continue
    spec = importlib.util.spec_from_file_location("p_" + fn[:-3], os.path.join(HERE, "props", fn))
    mod = importlib.util.module_from_spec(spec)
    spec.loader.exec_module(mod)
    cfg = mod.CFG
    for ex in cfg.get("extract", []):
        subprocess.run([sys.executable, os.path.join(HERE, "extract.py"), ex], cwd=HERE)
    lean_targets += [cfg["lean_theorems"], cfg["lean_exe"]]
    crates.append(cfg)
r = subprocess.run(["lake", "build"] + sorted(set(lean_targets)), cwd=core.LEAN, stdout=subprocess.PIPE, stderr=subprocess.STDOUT, text=True)
print("lake build:", "ok" if r.returncode == 0 else "FAILED\n" + r.stdout[-3000:])
if r.returncode != 0:
    # build what can be built, one target at a time
    for t in sorted(set(lean_targets)):
        subprocess.run(["lake", "build", t], cwd=core.LEAN, stdout=subprocess.DEVNULL, stderr=subprocess.DEVNULL)
for cfg in crates:
    ok, out = core.build_harness(cfg, [])
    print("cargo build %s/%s:" % (cfg["harness_pkg"], cfg["harness_bin"]), "ok" if ok else "FAILED\n" + out[-2000:])
