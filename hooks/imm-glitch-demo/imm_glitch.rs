//! An `ImmediateEffect` runs INSIDE the notification that reaches it (`mark_dirty` / `mark_check` call
//! `update_if_necessary`).  A signal notifies its subscribers one after the other, so while the effect runs the
//! subscribers that come later in the signal's list have not been marked yet:
//!  * effect reads `s` and `m = f(s)` (or two memos over `s`): it runs once with (new s, OLD m) and once more afterwards;
//!  * effect reads `m2 = g(m1)`, `m1 = f(s)`: the effect's `mark_check` re-enters the pull of the chain, `m2`'s body
//!    runs twice for one change;
//!  * effect reads `j = m1 + m2`, both over `s`: `j` is recomputed while `m2` is still unmarked and the effect sees a
//!    value of `j` that corresponds to no state of `s`.
//! With one level (signals, or memos over signals, at most one of them affected by a write) none of this happens.
use reactive_graph::{computed::Memo, effect::ImmediateEffect, owner::Owner, prelude::*, signal::RwSignal};
use std::sync::{Arc, Mutex};

fn log<T>() -> Arc<Mutex<Vec<T>>> {
    Arc::new(Mutex::new(vec![]))
}

#[test]
fn control_signal_only_and_single_memo() {
    let owner = Owner::new();
    owner.set();
    let s = RwSignal::new(1);
    let m = Memo::new(move |_| s.get() * 10);
    let seen = log();
    let _e = ImmediateEffect::new({
        let seen = seen.clone();
        move || seen.lock().unwrap().push(m.get())
    });
    s.set(2);
    s.set(3);
    assert_eq!(*seen.lock().unwrap(), vec![10, 20, 30]);
}

#[test]
fn signal_and_memo_over_it_is_seen_consistently_and_once() {
    let owner = Owner::new();
    owner.set();
    let s = RwSignal::new(1);
    let m = Memo::new(move |_| s.get() * 10);
    let seen = log();
    let _e = ImmediateEffect::new({
        let seen = seen.clone();
        move || seen.lock().unwrap().push((s.get(), m.get()))
    });
    s.set(2);
    s.set(3);
    // property: every run sees m == 10 * s, one run per change
    assert_eq!(*seen.lock().unwrap(), vec![(1, 10), (2, 20), (3, 30)]);
}

#[test]
fn two_memos_over_one_signal_are_seen_consistently() {
    let owner = Owner::new();
    owner.set();
    let s = RwSignal::new(1);
    let a = Memo::new(move |_| s.get() + 100);
    let b = Memo::new(move |_| s.get() + 200);
    let seen = log();
    let _e = ImmediateEffect::new({
        let seen = seen.clone();
        move || seen.lock().unwrap().push((a.get(), b.get()))
    });
    s.set(2);
    assert_eq!(*seen.lock().unwrap(), vec![(101, 201), (102, 202)]);
}

#[test]
fn chain_of_two_memos_runs_each_body_once_per_change() {
    let owner = Owner::new();
    owner.set();
    let s = RwSignal::new(1);
    let runs = log();
    let m1 = Memo::new(move |_| s.get() + 1);
    let m2 = Memo::new({
        let runs = runs.clone();
        move |_| {
            let v = m1.get() + 1;
            runs.lock().unwrap().push(v);
            v
        }
    });
    let _e = ImmediateEffect::new(move || {
        m2.get();
    });
    s.set(5);
    // property: m2's body runs once at creation and once for the change
    assert_eq!(*runs.lock().unwrap(), vec![3, 7]);
}

#[test]
fn join_memo_never_shows_a_value_it_does_not_have_from_scratch() {
    let owner = Owner::new();
    owner.set();
    let s = RwSignal::new(1);
    let a = Memo::new(move |_| s.get() * 10);
    let b = Memo::new(move |_| s.get() * 100);
    let j = Memo::new(move |_| a.get() + b.get());
    let seen = log();
    let _e = ImmediateEffect::new({
        let seen = seen.clone();
        move || seen.lock().unwrap().push(j.get())
    });
    s.set(2);
    // property: j is 110 (s = 1) or 220 (s = 2), never 120
    assert_eq!(*seen.lock().unwrap(), vec![110, 220]);
}
