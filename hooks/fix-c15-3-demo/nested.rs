use futures::StreamExt;
use leptos::prelude::*;
use leptos_router::{
    components::{FlatRoutes, ParentRoute, Route, Router, Routes, Outlet},
    hooks::use_params_map,
    location::RequestUrl,
    path,
};

fn render(req: &str, nested: bool) -> String {
    let _ = any_spawner::Executor::init_futures_executor();
    let owner = Owner::new();
    let req = req.to_string();
    owner.with(|| {
        provide_context(RequestUrl::new(&req));
        let show = || {
            let map = use_params_map();
            move || format!("id:{:?}|org:{:?}", map.get().get("id"), map.get().get("org"))
        };
        let html = if nested {
            let app = view! {
                <Router>
                    <Routes fallback=|| "NOTFOUND">
                        <ParentRoute path=path!("/org/:org") view=|| view!{ <Outlet/> }>
                            <Route path=path!("user/:id") view=show/>
                        </ParentRoute>
                    </Routes>
                </Router>
            };
            futures::executor::block_on(app.to_html_stream_in_order().collect::<String>())
        } else {
            let app = view! {
                <Router>
                    <FlatRoutes fallback=|| "NOTFOUND">
                        <Route path=path!("/org/:org/user/:id") view=show/>
                    </FlatRoutes>
                </Router>
            };
            futures::executor::block_on(app.to_html_stream_in_order().collect::<String>())
        };
        html
    })
}

#[test]
fn flat_once() {
    let html = render("/org/a%2541/user/100%2525", false);
    assert!(html.contains(r#"id:Some("100%25")|org:Some("a%41")"#), "{html}");
}

#[test]
fn nested_once() {
    let html = render("/org/a%2541/user/100%2525", true);
    assert!(html.contains(r#"id:Some("100%25")|org:Some("a%41")"#), "{html}");
}

#[test]
fn nested_plain() {
    let html = render("/org/acme/user/caf%C3%A9", true);
    assert!(html.contains(r#"id:Some("café")|org:Some("acme")"#), "{html}");
}
