use reactive_graph::{computed::Memo, effect::ImmediateEffect, owner::Owner, prelude::*, signal::RwSignal};
use std::sync::{Arc, Mutex, mpsc};

#[test]
fn immediate_effect_reading_memo_does_not_hang() {
    let (tx, rx) = mpsc::channel();
    std::thread::spawn(move || {
        let owner = Owner::new();
        owner.set();
        let s = RwSignal::new(1);
        let m = Memo::new(move |_| s.get() * 2);
        let log = Arc::new(Mutex::new(vec![]));
        let _e = ImmediateEffect::new({
            let log = log.clone();
            move || log.lock().unwrap().push(m.get())
        });
        s.set(2);
        tx.send(log.lock().unwrap().clone()).unwrap();
    });
    let got = rx.recv_timeout(std::time::Duration::from_secs(10)).expect("hung");
    assert_eq!(got, vec![2, 4]);
}
