#!/bin/sh
# usage: hooks/fix-c10-3.check.sh [tier]      (tier: quick | thorough; default quick)
# Checks the PROPOSED repair hooks/fix-c10-3.patch (F-C10-3 = F-C04-5, not applied to /repo) against the model of the
# repaired code: like tools/mutcheck.sh it applies the patch to a scratch worktree of /repo (NOT to /repo) and points a
# scratch copy of /verif at it; in that copy the C10 model driver is told to use the repaired chain (`stepF true`:
# lean/Driver/C10.lean `def repaired3 : Bool := false` -> `true`), then `./check C10` runs there: the generated cases and
# the corpus (incl. corpus/C10/readers.ops) must agree with 0 oracle failures and NO hit in the known class suspense-stale.
# The registered check (./check C10 in /verif) never uses the repaired chain.  Everything lives under /tmp/fix-c10-3-$$.
set -e
TIER=${1:-quick}
HERE=$(dirname "$(readlink -f "$0")")
VERIF=$(dirname "$HERE")
D=/tmp/fix-c10-3-$$
git -C /repo worktree add -q --detach $D/wt HEAD
( cd $D/wt && git apply "$HERE/fix-c10-3.patch" )
mkdir -p $D/verif
for try in 1 2 3 4 5 6; do
  rsync -a --delete --exclude harness/target --exclude harness/target-verif --exclude work --exclude replays --exclude .git "$VERIF"/ $D/verif/ && break
  [ $? -eq 24 ] || exit 2
  sleep 20
done
grep -rl '/repo/' $D/verif/harness/*/Cargo.toml $D/verif/vlib/core.py $D/verif/extract.py 2>/dev/null | xargs sed -i "s#/repo/#$D/wt/#g; s#\"/repo\"#\"$D/wt\"#g"
sed -i "s#/verif/harness/target#$D/target#" $D/verif/harness/.cargo/config.toml
grep -q '^def repaired3 : Bool := false$' $D/verif/lean/Driver/C10.lean
sed -i 's/^def repaired3 : Bool := false$/def repaired3 : Bool := true/' $D/verif/lean/Driver/C10.lean
rc=0
( cd $D/verif && ./check C10 --tier $TIER ) > $D/out.txt 2>&1 || rc=1
cat $D/out.txt
if grep -q "suspense-stale" $D/out.txt; then echo "fix-c10-3: the known class suspense-stale was hit although the repair is applied"; rc=1; fi
git -C /repo worktree remove --force $D/wt
rm -rf $D
exit $rc
