// demo for hooks/fix-c06-5.patch: `cargo test -p tachys --features ssr --test fix_c06_5_demo`
use tachys::html::element::{p, script, ElementChild};
use tachys::view::RenderHtml;

#[test]
fn char_child_is_escaped_like_text() {
    assert_eq!(p().child('<').to_html(), "<p>&lt;</p>");
    assert_eq!(p().child('&').child("amp;").to_html(), "<p>&amp;<!>amp;</p>");
    assert_eq!(p().child('>').child('"').to_html(), "<p>&gt;<!>\"</p>");
}

#[test]
fn controls_numbers_and_raw_text_unchanged() {
    assert_eq!(p().child(42u8).child(-7i64).child(1.5f64).child(true).child('x').to_html(), "<p>42<!>-7<!>1.5<!>true<!>x</p>");
    // inside <script> nothing is escaped, as for strings
    assert_eq!(script().child('<').to_html(), "<script><</script>");
}
