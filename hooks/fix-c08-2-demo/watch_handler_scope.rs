//! F-C08-2: `Effect::watch` / `Effect::watch_sync` call the handler after, and outside,
//! `owner.with_cleanup(..)`: only the dependency function runs under the effect's owner.  Whatever the
//! handler allocates or registers is therefore not part of the effect's scope: it lands on whatever
//! owner happens to be current where the executor polls the task (usually a long-lived root that was
//! `Owner::set()`, or none at all) — `on_cleanup` callbacks do not run when the effect re-runs or is
//! disposed, signals / stored values created by the handler are never disposed by the effect, and
//! `use_context` in the handler does not see contexts provided in the effect's scope.
//!
//! Each test runs on a current-thread tokio `LocalSet`; `tick()` lets spawned effects run.
use reactive_graph::{
    effect::Effect,
    owner::{on_cleanup, provide_context, use_context, Owner, StoredValue},
    signal::RwSignal,
    traits::{Dispose, Get, GetUntracked, IsDisposed, Set},
};
use std::sync::{Arc, Mutex};

async fn tick() {
    for _ in 0..4 {
        tokio::task::yield_now().await;
    }
}

fn run_local(fut: impl std::future::Future<Output = ()>) {
    let rt = tokio::runtime::Builder::new_current_thread().build().unwrap();
    let local = tokio::task::LocalSet::new();
    local.block_on(&rt, async move {
        let _ = any_spawner::Executor::init_tokio();
        fut.await
    });
}

#[derive(Clone, PartialEq, Debug)]
struct Theme(&'static str);

/// CONTROL (passes before and after): what the *dependency function* allocates is released by the
/// next run and when the effect is disposed.
#[test]
fn control_dependency_fn_allocations_are_scoped() {
    run_local(async {
        let root = Owner::new();
        let made: Arc<Mutex<Vec<StoredValue<i32>>>> = Default::default();
        let source = RwSignal::new(0);
        let effect = root.with({
            let made = Arc::clone(&made);
            move || {
                Effect::watch(
                    move || {
                        let n = source.get();
                        made.lock().unwrap().push(StoredValue::new(n));
                        n
                    },
                    |_, _, _: Option<()>| {},
                    true,
                )
            }
        });
        tick().await;
        source.set(1);
        tick().await;
        let made = made.lock().unwrap().clone();
        assert_eq!(made.len(), 2);
        assert!(made[0].is_disposed(), "the first run's value is released by the second run");
        assert!(!made[1].is_disposed());
        effect.dispose();
        drop(root);
        tick().await;
        assert!(made[1].is_disposed());
    });
}

/// The handler's allocations and `on_cleanup` registrations belong to the effect: the next run
/// releases them, and disposing the scope releases the last generation.
#[test]
fn watch_handler_allocations_are_released_with_the_effect() {
    run_local(async {
        let root = Owner::new();
        let made: Arc<Mutex<Vec<(StoredValue<i32>, RwSignal<i32>)>>> = Default::default();
        let cleaned: Arc<Mutex<Vec<i32>>> = Default::default();
        let source = RwSignal::new(0);
        root.with({
            let made = Arc::clone(&made);
            let cleaned = Arc::clone(&cleaned);
            move || {
                Effect::watch(
                    move || source.get(),
                    move |n: &i32, _, _: Option<()>| {
                        let n = *n;
                        made.lock().unwrap().push((StoredValue::new(n), RwSignal::new(n)));
                        let cleaned = Arc::clone(&cleaned);
                        on_cleanup(move || cleaned.lock().unwrap().push(n));
                    },
                    true,
                )
            }
        });
        tick().await; // handler run #0 (immediate)
        source.set(1);
        tick().await; // handler run #1
        {
            let made = made.lock().unwrap().clone();
            assert_eq!(made.len(), 2);
            assert_eq!(*cleaned.lock().unwrap(), vec![0], "the cleanup registered by run #0 runs when the effect re-runs");
            assert!(made[0].0.is_disposed() && made[0].1.is_disposed(), "run #0's values are released by the re-run");
            assert!(!made[1].0.is_disposed() && made[1].1.try_get_untracked() == Some(1));
        }
        drop(root); // the whole scope goes away
        tick().await;
        let made = made.lock().unwrap().clone();
        assert_eq!(*cleaned.lock().unwrap(), vec![0, 1]);
        assert!(made[1].0.is_disposed() && made[1].1.is_disposed(), "nothing the handler made outlives the scope");
    });
}

/// The same for `watch_sync`.
#[test]
fn watch_sync_handler_allocations_are_released_with_the_effect() {
    run_local(async {
        let root = Owner::new();
        let made: Arc<Mutex<Vec<StoredValue<i32>>>> = Default::default();
        let cleaned: Arc<Mutex<Vec<i32>>> = Default::default();
        let source = RwSignal::new(0);
        root.with({
            let made = Arc::clone(&made);
            let cleaned = Arc::clone(&cleaned);
            move || {
                Effect::watch_sync(
                    move || source.get(),
                    move |n: &i32, _, _: Option<()>| {
                        let n = *n;
                        made.lock().unwrap().push(StoredValue::new(n));
                        let cleaned = Arc::clone(&cleaned);
                        on_cleanup(move || cleaned.lock().unwrap().push(n));
                    },
                    true,
                )
            }
        });
        tick().await;
        source.set(1);
        tick().await;
        {
            let made = made.lock().unwrap().clone();
            assert_eq!(made.len(), 2);
            assert_eq!(*cleaned.lock().unwrap(), vec![0]);
            assert!(made[0].is_disposed());
            assert!(!made[1].is_disposed());
        }
        drop(root);
        tick().await;
        assert_eq!(*cleaned.lock().unwrap(), vec![0, 1]);
        assert!(made.lock().unwrap()[1].is_disposed());
    });
}

/// The handler sees the contexts of the scope the effect was created in.
#[test]
fn watch_handler_sees_the_scopes_context() {
    run_local(async {
        let root = Owner::new();
        let seen: Arc<Mutex<Vec<Option<Theme>>>> = Default::default();
        let source = RwSignal::new(0);
        root.with({
            let seen = Arc::clone(&seen);
            move || {
                provide_context(Theme("dark"));
                Effect::watch(
                    move || source.get(),
                    move |_, _, _: Option<()>| seen.lock().unwrap().push(use_context::<Theme>()),
                    true,
                )
            }
        });
        tick().await;
        assert_eq!(*seen.lock().unwrap(), vec![Some(Theme("dark"))]);
        drop(root);
    });
}
