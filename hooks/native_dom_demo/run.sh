#!/bin/sh
# Builds and runs every demo against /repo (patch applied). Exit code != 0 if a demo fails.
# Usage: ./run.sh [target-dir]   (default /tmp/native_dom_demo-target)
set -e
cd "$(dirname "$0")"
export CARGO_TARGET_DIR="${1:-/tmp/native_dom_demo-target}"
export RUSTFLAGS="--cfg leptos_verif"
export RUST_BACKTRACE=0
for b in static_views keyed_list reactive hydration misc meta; do
    echo "### $b"
    cargo run --offline -q --bin "$b"
done
echo "### hydrate (leptos feature = hydrate)"
(cd hydrate && cargo run --offline -q 2>/dev/null)
echo "ALL DEMOS OK"
