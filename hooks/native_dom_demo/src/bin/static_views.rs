//! Demo (a): static views built, mounted between two existing siblings, rebuilt, unmounted.
use tachys::{
    html::element::{div, li, p, span},
    prelude::*,
    renderer::native_dom as nd,
    either::Either,
    view::keyed::keyed,
};

fn view(n: i32, flag: bool, items: Vec<u32>) -> impl Render {
    (
        "a",
        div().child((
            "x",
            span()
                .id("s")
                .class(if flag { "on big" } else { "off" })
                .class(("extra", flag))
                .style(("color", if flag { "red" } else { "blue" }))
                .child(n.to_string()),
        )),
        flag.then(|| p().child("opt")),
        if flag {
            Either::Left(span().child("L"))
        } else {
            Either::Right("R")
        },
        items
            .iter()
            .map(|i| li().child(i.to_string()))
            .collect::<Vec<_>>(),
        keyed(
            items,
            |i| *i,
            |_, i| (|_| (), li().child(format!("k{i}"))),
        ),
    )
}

fn main() {
    nd::reset();
    let root = nd::create_root("main");
    let before = nd::create_text_node("before");
    let marker = nd::create_comment("marker");
    nd::append_child(&root, &before);
    nd::append_child(&root, &marker);
    assert_eq!(nd::serialize(&root), "<main>before<!--marker--></main>");

    // build: nothing is attached yet
    let mut state = view(1, true, vec![1, 2]).build();
    assert_eq!(nd::children(&root).len(), 2);
    state.mount(&root, Some(&marker));
    let html1 = nd::serialize(&root);
    println!("mounted : {html1}");
    println!("with ids: {}", nd::serialize_with_ids(&root));
    assert_eq!(
        html1,
        "<main>beforea<div>x<span id=\"s\" class=\"on big extra\" \
         style=\"color: red;\">1</span></div><p>opt</p><span>L</span>\
         <li>1</li><li>2</li><!----><li>k1</li><li>k2</li><!---->\
         <!--marker--></main>"
    );
    let kids1 = nd::children(&root);
    let (text_a, div_el) = (kids1[1].clone(), kids1[2].clone());
    let span_el = nd::children(&div_el)[1].clone();
    let span_text = nd::children(&span_el)[0].clone();
    let div_mutations = nd::mutation_count(&div_el);
    let a_mutations = nd::mutation_count(&text_a);
    let created1 = nd::nodes_created();

    // rebuild with another value of the same type
    view(2, false, vec![2, 3]).rebuild(&mut state);
    let html2 = nd::serialize(&root);
    println!("rebuilt : {html2}");
    println!("with ids: {}", nd::serialize_with_ids(&root));
    assert_eq!(
        html2,
        "<main>beforea<div>x<span id=\"s\" class=\"off\" \
         style=\"color: blue;\">2</span></div><!---->R\
         <li>2</li><li>3</li><!----><li>k2</li><li>k3</li><!---->\
         <!--marker--></main>"
    );
    // retained nodes keep their identity, and the untouched ones got no mutation
    let kids2 = nd::children(&root);
    assert_eq!(nd::node_id(&kids2[1]), nd::node_id(&text_a));
    assert_eq!(nd::node_id(&kids2[2]), nd::node_id(&div_el));
    assert_eq!(nd::children(&div_el)[1], span_el);
    assert_eq!(nd::children(&span_el)[0], span_text);
    assert_eq!(nd::mutation_count(&div_el), div_mutations);
    assert_eq!(nd::mutation_count(&text_a), a_mutations);
    assert_eq!(span_text.text_content().unwrap(), "2");
    println!(
        "nodes created: {created1} after build, {} after rebuild",
        nd::nodes_created()
    );

    state.unmount();
    assert_eq!(nd::serialize(&root), "<main>before<!--marker--></main>");
    assert!(nd::take_errors().is_empty());
    println!("static_views OK");
}
