//! Demo (d): hydrating a hand-built DOM that corresponds to `view.to_html()`.
use tachys::{
    html::element::{div, p, span},
    hydration::Cursor,
    prelude::*,
    renderer::native_dom as nd,
    view::PositionState,
};

fn view(name: &str, n: i32) -> impl RenderHtml {
    div().class("greeting").child((
        p().child(("Hello, ", name.to_string(), "!")),
        span().id("n").child(n.to_string()),
    ))
}

/// The DOM a browser builds for the SSR output, made by hand.
fn hand_built() -> nd::Element {
    let root = nd::create_root("main");
    let div = nd::create_element("div");
    div.set_attribute("class", "greeting").unwrap();
    let p = nd::create_element("p");
    nd::append_child(&p, &nd::create_text_node("Hello, "));
    nd::append_child(&p, &nd::create_comment(""));
    nd::append_child(&p, &nd::create_text_node("World"));
    nd::append_child(&p, &nd::create_comment(""));
    nd::append_child(&p, &nd::create_text_node("!"));
    let span = nd::create_element("span");
    span.set_attribute("id", "n").unwrap();
    nd::append_child(&span, &nd::create_text_node("1"));
    nd::append_child(&div, &p);
    nd::append_child(&div, &span);
    nd::append_child(&root, &div);
    root
}

fn main() {
    let html = view("World", 1).to_html();
    println!("to_html : {html}");
    assert_eq!(
        html,
        "<div class=\"greeting\"><p>Hello, <!>World<!>!</p>\
         <span id=\"n\">1</span></div>"
    );

    // 1. hand-built DOM
    nd::reset();
    let root = hand_built();
    let by_hand = nd::serialize(&root);
    println!("by hand : {by_hand}");

    let created = nd::nodes_created();
    let before_ids = nd::serialize_with_ids(&root);
    let mut state = view("World", 1)
        .hydrate::<true>(&Cursor::new(root.clone()), &PositionState::default());
    assert_eq!(nd::nodes_created(), created, "hydration created nodes");
    assert_eq!(nd::serialize_with_ids(&root), before_ids);
    println!("hydrated: {before_ids}");

    // a later rebuild mutates the adopted nodes in place
    let div_el = nd::children(&root)[0].clone();
    let p_el = nd::children(&div_el)[0].clone();
    let name_text = nd::children(&p_el)[2].clone();
    let span_text = nd::children(&nd::children(&div_el)[1])[0].clone();
    let (m_name, m_span) =
        (nd::mutation_count(&name_text), nd::mutation_count(&span_text));
    view("Bob", 2).rebuild(&mut state);
    println!("rebuilt : {}", nd::serialize_with_ids(&root));
    assert_eq!(
        nd::serialize(&root),
        "<main><div class=\"greeting\"><p>Hello, <!---->Bob<!---->!</p>\
         <span id=\"n\">2</span></div></main>"
    );
    assert_eq!(nd::nodes_created(), created, "rebuild created nodes");
    assert_eq!(nd::mutation_count(&name_text), m_name + 1);
    assert_eq!(nd::mutation_count(&span_text), m_span + 1);
    assert_eq!(name_text.text_content().unwrap(), "Bob");
    state.unmount();
    assert_eq!(nd::serialize(&root), "<main></main>");

    // 2. the same DOM obtained by parsing the SSR output with the built-in parser
    nd::reset();
    let root = nd::create_root("main");
    root.set_inner_html(&html);
    assert_eq!(nd::serialize(&root), by_hand);
    let created = nd::nodes_created();
    let _state = view("World", 1)
        .hydrate::<true>(&Cursor::new(root.clone()), &PositionState::default());
    assert_eq!(nd::nodes_created(), created);

    // 3. a mismatch is observable: the cast fails, the helper records it and panics
    nd::reset();
    let root = nd::create_root("main");
    root.set_inner_html("<div class=\"greeting\">oops<span id=\"n\">1</span></div>");
    std::panic::set_hook(Box::new(|_| {})); // the panic below is expected
    let result = std::panic::catch_unwind(|| {
        let root = nd::node_by_id(0).unwrap().unchecked_into::<nd::Element>();
        let _ = view("World", 1)
            .hydrate::<true>(&Cursor::new(root), &PositionState::default());
    });
    _ = std::panic::take_hook();
    assert!(result.is_err());
    let errors = nd::take_errors();
    println!("mismatch: {errors:?}");
    assert_eq!(errors.len(), 1);
    assert!(errors[0].contains("expected HTML <p> element"));
    println!("hydration OK");
}
