//! Demo (e): DOM semantics of the native backend, plus inner_html, prop:, NodeRef,
//! ViewTemplate (`<template>` + cloneNode + hydrate) and SVG namespaces.
use any_spawner::Executor;
use leptos::prelude::*;
use tachys::renderer::{native_dom as nd, Rndr};

fn dom_semantics() {
    nd::reset();
    let a = nd::create_root("a");
    let b = nd::create_root("b");
    let (x, y, z) = (
        nd::create_text_node("x"),
        nd::create_comment("y"),
        nd::create_element("z"),
    );
    nd::append_child(&a, &x);
    nd::append_child(&a, &y);
    nd::append_child(&b, &z);
    // insert_before detaches from the old parent first; None appends
    a.insert_before(&z, Some(&y)).unwrap();
    assert_eq!(nd::serialize(&a), "<a>x<z></z><!--y--></a>");
    assert_eq!(nd::serialize(&b), "<b></b>");
    b.insert_before(&x, None).unwrap();
    assert_eq!(nd::serialize(&b), "<b>x</b>");
    assert_eq!(x.parent_node().unwrap(), *b);
    // errors a browser would throw
    assert_eq!(
        a.insert_before(&x, Some(&x)).unwrap_err().name,
        "NotFoundError"
    );
    assert_eq!(
        z.insert_before(&a, None).unwrap_err().name,
        "HierarchyRequestError"
    );
    // ... are only logged by the renderer functions, like `or_debug!` does
    Rndr::insert_node(&a, &x, Some(&x));
    assert_eq!(nd::take_errors().len(), 1);

    // classList / style are views of the attributes
    let el = nd::create_element("div");
    let (m0, list, style) = (nd::mutation_count(&el), el.class_list(), el.style());
    list.add_1("a").unwrap();
    list.add_1("b").unwrap();
    list.add_1("a").unwrap();
    list.remove_1("a").unwrap();
    assert_eq!(list.add_1("").unwrap_err().name, "SyntaxError");
    assert_eq!(list.add_1("c d").unwrap_err().name, "InvalidCharacterError");
    style.set_property("color", "red").unwrap();
    style.set_property("--x", "1").unwrap();
    style.set_property("color", "blue").unwrap();
    style.remove_property("--x").unwrap();
    el.set_attribute("Data-X", "1 & \"2\"").unwrap();
    assert_eq!(
        nd::serialize(&el),
        "<div class=\"b\" style=\"color: blue;\" data-x=\"1 &amp; &quot;2&quot;\"></div>"
    );
    assert_eq!(nd::mutation_count(&el) - m0, 9);
    assert_eq!(
        el.set_attribute("a b", "").unwrap_err().name,
        "InvalidCharacterError"
    );

    // fragments move their children; clone_node copies attributes and subtree
    let frag = nd::create_document_fragment();
    nd::append_child(&frag, &nd::create_text_node("1"));
    nd::append_child(&frag, &nd::create_text_node("2"));
    nd::append_child(&el, &frag);
    assert_eq!(nd::children(&frag).len(), 0);
    let copy = el.clone_node_with_deep(true).unwrap();
    assert_eq!(nd::serialize(&copy), nd::serialize(&el));
    assert_ne!(nd::node_id(&copy), nd::node_id(&el));
    assert_eq!(
        nd::serialize_with_ids(&copy),
        "<div#9 class=\"b\" style=\"color: blue;\" data-x=\"1 &amp; &quot;2&quot;\">#10\"1\"#11\"2\"</div>"
    );
    // casts are by node kind
    use tachys::renderer::CastFrom;
    assert!(nd::Text::cast_from((*el).clone()).is_none());
    assert!(nd::Element::cast_from((*y).clone()).is_none());
    assert!(nd::Comment::cast_from((*y).clone()).is_some());
}

fn tachys_attrs() {
    use tachys::{
        html::element::{div, input},
        prelude::*,
        svg::{circle, svg},
    };
    nd::reset();
    let root = nd::create_root("main");
    let mut state = (
        div().inner_html("<b class=x>bold</b> &amp; <br>text<!--c-->"),
        input().prop("value", "abc").prop("checked", true).prop("tabIndex", 3),
        svg().child(circle().attr("r", "4")),
    )
        .build();
    state.mount(&root, None);
    println!("attrs   : {}", nd::serialize(&root));
    assert_eq!(
        nd::serialize(&root),
        "<main><div><b class=\"x\">bold</b> &amp; <br>text<!--c--><!----></div>\
         <input><svg><circle r=\"4\"><!----></circle></svg></main>"
    );
    let kids = nd::children(&root);
    assert_eq!(
        nd::properties(&kids[1]),
        vec![
            ("value".to_string(), nd::JsValue::String("abc".into())),
            ("checked".to_string(), nd::JsValue::Bool(true)),
            ("tabIndex".to_string(), nd::JsValue::Number(3.0)),
        ]
    );
    let circle_el = nd::children(&kids[2])[0].clone();
    assert_eq!(
        circle_el.kind(),
        nd::NodeKind::Element {
            tag: "circle".into(),
            namespace: Some(nd::SVG_NS.into())
        }
    );
    println!(
        "props   : {}",
        nd::serialize_with(
            &kids[1],
            &nd::SerializeOptions {
                ids: true,
                props: true
            }
        )
    );
}

fn leptos_bits() {
    nd::reset();
    let root = nd::create_root("main");
    // A `NodeRef` cannot hold a native element (its value type is a `web_sys` type), but any
    // `NodeRefContainer` receives the native element:
    #[derive(Clone)]
    struct Grab(std::sync::Arc<std::sync::Mutex<Option<usize>>>);
    impl tachys::html::node_ref::NodeRefContainer<leptos::html::Input> for Grab {
        fn load(self, el: &nd::Element) {
            *self.0.lock().unwrap() = Some(nd::node_id(el));
        }
    }
    let grab = Grab(Default::default());
    let grab2 = grab.clone();
    let name = RwSignal::new("x".to_string());
    let node_ref = NodeRef::<leptos::html::Div>::new();
    let handle = leptos::mount::mount_to(root.clone(), move || {
        view! {
            <div node_ref=node_ref>
                <input node_ref=grab2 prop:value=move || name.get() bind:checked=RwSignal::new(true)/>
                {leptos::template! { <p class="t">"static and "{move || name.get()}</p> }}
            </div>
        }
    });
    Executor::poll_local();
    println!("leptos  : {}", nd::serialize(&root));
    assert_eq!(
        nd::serialize(&root),
        "<main><div><input><p class=\"t\">static and <!---->x</p></div></main>"
    );
    let div = nd::children(&root)[0].clone();
    let input = nd::children(&div)[0].clone();
    assert!(node_ref.get_untracked().is_none(), "NodeRef stays empty natively");
    assert_eq!(nd::node_ref_loads(), vec![div.clone().unchecked_into::<nd::Element>()]);
    assert_eq!(*grab.0.lock().unwrap(), Some(nd::node_id(&input)));
    assert_eq!(
        nd::properties(&input),
        vec![
            ("value".to_string(), nd::JsValue::String("x".into())),
            ("checked".to_string(), nd::JsValue::Bool(true)),
        ]
    );
    assert_eq!(nd::listeners(&input), vec!["change".to_string()]);
    name.set("y".into());
    Executor::poll_local();
    assert_eq!(
        nd::serialize(&root),
        "<main><div><input><p class=\"t\">static and <!---->y</p></div></main>"
    );
    assert_eq!(
        nd::properties(&input)[0],
        ("value".to_string(), nd::JsValue::String("y".into()))
    );
    drop(handle);
    assert!(nd::take_errors().is_empty());

    // Observation (upstream behaviour, not caused by the hook): `ToTemplate` of an element
    // WITHOUT attributes writes the `()` attribute as "<!>" inside the open tag, so the
    // template source is malformed and, parsed as a browser would, yields an element named
    // `i<!`. Printed only.
    fn show(_parent: &nd::Node, html: &str) {
        println!("template source handed to innerHTML: {html:?}");
    }
    nd::set_html_parser(Some(show));
    let _ = Rndr::get_template::<
        tachys::html::element::HtmlElement<tachys::html::element::I, (), (&'static str,)>,
    >();
    nd::set_html_parser(None);
}

fn main() {
    Executor::init_futures_executor().unwrap();
    dom_semantics();
    tachys_attrs();
    leptos_bits();
    println!("misc OK");
}
