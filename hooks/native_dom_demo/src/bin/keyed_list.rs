//! Demo (b): the real keyed diff, `[0,1,2] -> [4,3,2,1,0]`, replayed on the native DOM.
use tachys::{
    html::element::li, prelude::*, renderer::native_dom as nd,
    view::keyed::keyed,
};

fn list(items: Vec<u32>) -> impl Render {
    keyed(
        items,
        |i| *i,
        |_, i| (|_| (), li().child(i.to_string())),
    )
}

fn order(root: &nd::Element) -> Vec<String> {
    nd::children(root)
        .iter()
        .filter(|n| n.node_type() == 1)
        .map(|n| n.text_content().unwrap())
        .collect()
}

fn run(from: Vec<u32>, to: Vec<u32>) -> (Vec<String>, Vec<String>) {
    nd::reset();
    let root = nd::create_root("ul");
    let mut state = list(from).build();
    state.mount(&root, None);
    let before = nd::serialize_with_ids(&root);
    nd::set_logging(true);
    list(to.clone()).rebuild(&mut state);
    let ops = nd::take_log();
    println!("  before: {before}");
    println!("  after : {}", nd::serialize_with_ids(&root));
    for op in &ops {
        println!("    {op}");
    }
    assert!(nd::take_errors().is_empty());
    (order(&root), to.iter().map(|i| i.to_string()).collect())
}

fn main() {
    for (from, to) in [
        (vec![0, 1, 2], vec![4, 3, 2, 1, 0]),
        (vec![0, 1, 2], vec![2, 1, 0]),
        (vec![0, 1, 2, 3], vec![1, 3]),
        (vec![1, 2], vec![0, 1, 2, 3]),
    ] {
        println!("{from:?} -> {to:?}");
        let (got, want) = run(from, to);
        println!(
            "  DOM order: {got:?}  expected: {want:?}  {}",
            if got == want { "OK" } else { "MISMATCH" }
        );
    }
}
