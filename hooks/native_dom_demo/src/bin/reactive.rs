//! Demo (c): reactive views (tachys `move ||` children / reactive class, style, attribute)
//! and leptos components (`Show`, `For`, an `on:click` handler fired natively).
use any_spawner::Executor;
use leptos::prelude::*;
use tachys::renderer::native_dom as nd;

fn tachys_part() {
    use tachys::html::element::{p, span};
    nd::reset();
    let owner = Owner::new();
    owner.set();
    let root = nd::create_root("main");
    let count = RwSignal::new(0);

    let view = p()
        .id(move || format!("c{}", count.get()))
        .class(("even", move || count.get() % 2 == 0))
        .style(("width", move || format!("{}px", count.get() * 10)))
        .child((
            "count: ",
            move || count.get().to_string(),
            move || (count.get() > 1).then(|| span().child("big")),
        ));
    let mut state = view.build();
    state.mount(&root, None);
    let html0 = nd::serialize(&root);
    println!("tachys 0: {html0}");
    assert_eq!(
        html0,
        "<main><p id=\"c0\" class=\"even\" style=\"width: 0px;\">count: \
         0<!----></p></main>"
    );
    let p_el = nd::children(&root)[0].clone();
    let text = nd::children(&p_el)[1].clone();

    // nothing changes until the effects have run
    count.set(1);
    assert_eq!(nd::serialize(&root), html0);
    Executor::poll_local();
    let html1 = nd::serialize(&root);
    println!("tachys 1: {html1}");
    assert_eq!(
        html1,
        "<main><p id=\"c1\" class=\"\" style=\"width: 10px;\">count: \
         1<!----></p></main>"
    );

    count.set(2);
    Executor::poll_local();
    let html2 = nd::serialize(&root);
    println!("tachys 2: {html2}");
    assert_eq!(
        html2,
        "<main><p id=\"c2\" class=\"even\" style=\"width: 20px;\">count: \
         2<span>big</span></p></main>"
    );
    // same element and same text node throughout
    assert_eq!(nd::children(&root)[0], p_el);
    assert_eq!(nd::children(&p_el)[1], text);

    state.unmount();
    assert_eq!(nd::serialize(&root), "<main></main>");
    assert!(nd::take_errors().is_empty());
    drop(owner);
}

fn leptos_part() {
    nd::reset();
    let root = nd::create_root("main");
    let (show, set_show) = signal(true);
    let items = RwSignal::new(vec![1, 2, 3]);

    let handle = leptos::mount::mount_to(root.clone(), move || {
        view! {
            <div class="app">
                <Show when=move || show.get() fallback=|| view! { <i>"hidden"</i> }>
                    <b title="a&b">"shown"</b>
                </Show>
                <ul>
                    <For each=move || items.get() key=|i| *i children=|i| view! { <li>{i}</li> }/>
                </ul>
                <button on:click=move |_| set_show.update(|s| *s = !*s)>"toggle"</button>
            </div>
        }
    });
    Executor::poll_local();
    let html0 = nd::serialize(&root);
    println!("leptos 0: {html0}");
    assert_eq!(
        html0,
        "<main><div class=\"app\"><b title=\"a&amp;b\">shown</b><ul>\
         <li>1</li><li>2</li><li>3</li><!----></ul>\
         <button>toggle</button></div></main>"
    );

    // fire the click handler natively: it toggles `show`
    let div = nd::children(&root)[0].clone();
    let button = nd::children(&div).last().unwrap().clone();
    assert_eq!(nd::listeners(&button), vec!["click".to_string()]);
    assert_eq!(nd::dispatch_event(&button, "click", true), 1);
    items.update(|v| {
        v.remove(0);
        v.push(4)
    });
    Executor::poll_local();
    let html1 = nd::serialize(&root);
    println!("leptos 1: {html1}");
    assert_eq!(
        html1,
        "<main><div class=\"app\"><i>hidden</i><ul>\
         <li>2</li><li>3</li><li>4</li><!----></ul>\
         <button>toggle</button></div></main>"
    );

    drop(handle); // unmounts
    assert_eq!(nd::serialize(&root), "<main></main>");
    assert!(nd::take_errors().is_empty());
}

fn main() {
    // must happen before leptos::mount::*, which otherwise installs the wasm-bindgen executor
    Executor::init_futures_executor().unwrap();
    tachys_part();
    leptos_part();
    println!("reactive OK");
}
