//! Demo (f): leptos_meta against the native document (`<html><head></head><body></body></html>`).
use any_spawner::Executor;
use leptos::prelude::*;
use leptos_meta::*;
use tachys::renderer::native_dom as nd;

fn main() {
    Executor::init_futures_executor().unwrap();
    nd::reset();
    let title = RwSignal::new("Hello".to_string());
    // mounts into the <body> of the native document
    leptos::mount::mount_to_body(move || {
        provide_meta_context();
        view! {
            <Title text=move || title.get()/>
            <Meta name="description" content="demo"/>
            <Body attr:class="dark"/>
            <Html attr:lang="en"/>
            <p>"hi"</p>
        }
    });
    Executor::poll_local();
    let html = nd::document().document_element().unwrap();
    println!("{}", nd::serialize(&html));
    assert_eq!(
        nd::serialize(&html),
        "<html lang=\"en\"><head><title>Hello</title>\
         <meta name=\"description\" content=\"demo\"></head><body class=\"dark\"><p>hi</p></body></html>"
    );
    assert_eq!(nd::document().title(), "Hello");
    title.set("Bye".into());
    Executor::poll_local();
    assert_eq!(nd::document().title(), "Bye");
    assert!(nd::take_errors().is_empty());
    println!("meta OK");
}
