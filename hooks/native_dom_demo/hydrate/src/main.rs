//! Demo (g): leptos built with the `hydrate` feature, hydrating natively.
//!
//! `leptos::mount::hydrate_from` compiles but cannot be used natively, because its
//! `HydrateSharedContext` reads JS globals; so the owner is created by hand.
use any_spawner::Executor;
use leptos::prelude::*;
use tachys::{
    hydration::Cursor,
    renderer::native_dom as nd,
    view::{PositionState, RenderHtml},
};

fn app(count: RwSignal<i32>, items: RwSignal<Vec<u32>>) -> impl IntoView {
    view! {
        <div class="app">
            <h1>"Static title"</h1>
            <p class:big=move || { count.get() > 1 }>"Count: " {move || count.get()}</p>
            <Show when=move || count.get() % 2 == 0 fallback=|| view! { <i>"odd"</i> }>
                <b>"even"</b>
            </Show>
            <ul>
                <For each=move || items.get() key=|i| *i children=|i| view! { <li>{i}</li> }/>
            </ul>
        </div>
    }
}

fn main() {
    Executor::init_futures_executor().unwrap();
    nd::reset();
    let owner = Owner::new();
    owner.set();
    let count = RwSignal::new(0);
    let items = RwSignal::new(vec![1, 2]);

    // "server": render to HTML (hydrate-mode markers included)
    let html = app(count, items).into_view().to_html();
    println!("ssr html: {html}");

    // "browser": parse it, then hydrate a fresh instance of the same view
    let root = nd::create_root("main");
    root.set_inner_html(&html);
    let parsed = nd::serialize(&root);
    let created = nd::nodes_created();
    let state = app(count, items)
        .into_view()
        .hydrate::<true>(&Cursor::new(root.clone()), &PositionState::default());
    Executor::poll_local();
    assert_eq!(nd::nodes_created(), created, "hydration created nodes");
    assert_eq!(nd::serialize(&root), parsed);

    count.set(3);
    items.update(|v| v.insert(0, 7));
    Executor::poll_local();
    println!("updated : {}", nd::serialize(&root));
    assert_eq!(
        nd::serialize(&root),
        "<main><div class=\"app\"><h1>Static title</h1>\
         <p class=\"big\">Count: <!---->3</p><i>odd</i>\
         <ul><li>7</li><li>1</li><li>2</li><!----></ul></div></main>"
    );
    assert!(nd::take_errors().is_empty());
    drop(state);
    println!("leptos hydrate OK");
}
