// demo for hooks/fix-c06-3.patch (and fix-c06-4.patch): `cargo test -p tachys --features ssr --test fix_c06_3_demo`
use tachys::html::element::{textarea, ElementChild};
use tachys::view::RenderHtml;

#[test]
fn textarea_string_child_cannot_leave_the_element() {
    let s = "</textarea><img src=x onerror=alert(1)>".to_string();
    assert_eq!(
        textarea().child(s).to_html(),
        "<textarea>&lt;/textarea&gt;&lt;img src=x onerror=alert(1)&gt;</textarea>"
    );
}

#[test]
fn textarea_entity_text_is_kept() {
    // the field shows `&lt;b&gt;`, not `<b>`
    assert_eq!(textarea().child("&lt;b&gt;").to_html(), "<textarea>&amp;lt;b&amp;gt;</textarea>");
}

#[test]
fn controls_nothing_else_changes() {
    // no placeholder for the empty string, nothing for `None`, plain text byte for byte
    assert_eq!(textarea().child("").to_html(), "<textarea></textarea>");
    assert_eq!(textarea().child(None::<String>).to_html(), "<textarea></textarea>");
    assert_eq!(textarea().child("hello \"world\" 'x'").to_html(), "<textarea>hello \"world\" 'x'</textarea>");
    // streaming path
    let streamed = textarea().child("a<b&c".to_string()).to_html_stream_in_order();
    let html: String = futures::executor::block_on(futures::StreamExt::collect::<Vec<String>>(streamed)).concat();
    assert_eq!(html, "<textarea>a&lt;b&amp;c</textarea>");
    let streamed = textarea().child("a<b&c".to_string()).to_html_stream_out_of_order();
    let html: String = futures::executor::block_on(futures::StreamExt::collect::<Vec<String>>(streamed)).concat();
    assert_eq!(html, "<textarea>a&lt;b&amp;c</textarea>");
}

// fix-c06-4: a value that starts with a line feed keeps it
#[test]
fn textarea_leading_newline_is_kept() {
    assert_eq!(textarea().child("\nfoo").to_html(), "<textarea>\n\nfoo</textarea>");
    assert_eq!(textarea().child("foo\n").to_html(), "<textarea>foo\n</textarea>");
    let streamed = textarea().child("\nfoo".to_string()).to_html_stream_in_order();
    let html: String = futures::executor::block_on(futures::StreamExt::collect::<Vec<String>>(streamed)).concat();
    assert_eq!(html, "<textarea>\n\nfoo</textarea>");
}
