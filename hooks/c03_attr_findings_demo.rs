//! Four attribute-level `rebuild` findings outside the C03 harness grammar (F-C03-9 .. F-C03-12),
//! on the real tachys, native DOM hook.  Each `finding_*` test asserts the property (update ==
//! fresh render) and FAILS at HEAD; the `control_*` tests pass.
//!
//! Run from a worktree of /repo:
//!   mkdir -p tachys/tests && cp /verif/hooks/c03_attr_findings_demo.rs tachys/tests/
//!   RUSTFLAGS="--cfg leptos_verif" cargo test --offline -p tachys --test c03_attr_findings_demo
#![cfg(leptos_verif)]

use tachys::{
    either::Either,
    html::{
        attribute::{any_attribute::IntoAnyAttribute, custom::custom_attribute},
        class::class,
        element::{div, inner_html},
        style::style,
    },
    prelude::*,
    renderer::native_dom as nd,
    view::add_attr::AddAnyAttr,
};

fn mounted<V: Render>(view: V) -> (nd::Element, V::State) {
    let root = nd::create_root("main");
    let mut state = view.build();
    state.mount(&root, None);
    (root, state)
}

fn check<V: Render>(a: V, b: V, fresh: V) {
    let (root, mut state) = mounted(a);
    b.rebuild(&mut state);
    let updated = nd::serialize_children(root.as_ref());
    let (fresh_root, _s) = mounted(fresh);
    let expected = nd::serialize_children(fresh_root.as_ref());
    assert_eq!(updated, expected, "in-place update differs from fresh render");
}

/// F-C03-9: `impl Attribute for Either<A, B>`: `rebuild` with the other variant does nothing
#[test]
fn finding_either_attribute_switches_variant() {
    let left = || div().add_any_attr(Either::<_, _>::Left(class("a")) as Either<_, tachys::html::style::Style<&'static str>>);
    let right = || div().add_any_attr(Either::Right(style("color: red")) as Either<tachys::html::class::Class<&'static str>, _>);
    check(left(), right(), right());
}

#[test]
fn control_either_attribute_same_variant() {
    let a = || div().add_any_attr(Either::<_, tachys::html::style::Style<&'static str>>::Left(class("a")));
    let b = || div().add_any_attr(Either::<_, tachys::html::style::Style<&'static str>>::Left(class("b")));
    check(a(), b(), b());
}

/// F-C03-10: `CustomAttr`: a changed KEY keeps the old attribute (and sets the new one only if the value changed)
#[test]
fn finding_custom_attribute_key_changes() {
    let a = || div().add_any_attr(custom_attribute("data-a", "1"));
    let b = || div().add_any_attr(custom_attribute("data-b", "2"));
    check(a(), b(), b());
}

#[test]
fn finding_custom_attribute_key_changes_same_value() {
    let a = || div().add_any_attr(custom_attribute("data-a", "1"));
    let b = || div().add_any_attr(custom_attribute("data-b", "1"));
    check(a(), b(), b());
}

/// F-C03-11: `AnyAttribute::rebuild` with an attribute of another type builds the new one and never resets the old one
#[test]
fn finding_any_attribute_changes_type() {
    let a = || div().add_any_attr(class("a").into_any_attr());
    let b = || div().add_any_attr(style("color: red").into_any_attr());
    check(a(), b(), b());
}

#[test]
fn control_any_attribute_same_type() {
    let a = || div().add_any_attr(class("a").into_any_attr());
    let b = || div().add_any_attr(class("b").into_any_attr());
    check(a(), b(), b());
}

/// F-C03-12: `inner_html` on an element without children: the `()` child's placeholder comment is
/// wiped by the `set_inner_html` of a rebuild
#[test]
fn finding_inner_html_rebuild_drops_the_placeholder() {
    let a = || div().add_any_attr(inner_html("<b>a</b>"));
    let b = || div().add_any_attr(inner_html("<b>b</b>"));
    check(a(), b(), b());
}

#[test]
fn control_inner_html_unchanged() {
    let a = || div().add_any_attr(inner_html("<b>a</b>"));
    check(a(), a(), a());
}
