//! F-C03-6 (class `nodeless-old-branch`) on the real tachys, native DOM hook.
//!
//! Run from a worktree of /repo:
//!   mkdir -p tachys/tests && cp /verif/hooks/c03_nodeless_old_branch_demo.rs tachys/tests/
//!   RUSTFLAGS="--cfg leptos_verif" cargo test --offline -p tachys --test c03_nodeless_old_branch_demo
//! The `nodeless_*` tests FAIL at HEAD (the new branch is built but never mounted); `control_*` pass.
#![cfg(leptos_verif)]

use tachys::{
    either::{Either, EitherOf3},
    html::element::p,
    prelude::*,
    renderer::native_dom as nd,
};

fn mount_between<V: Render>(view: V) -> (nd::Element, V::State) {
    let root = nd::create_root("main");
    let before = nd::create_element("b");
    let after = nd::create_element("i");
    nd::append_child(root.as_ref(), before.as_ref());
    nd::append_child(root.as_ref(), after.as_ref());
    let mut state = view.build();
    state.mount(&root, Some(after.as_ref()));
    (root, state)
}

/// DOM after build(a) + mount + rebuild(b) versus DOM after build(b) + mount.
fn check<V: Render>(a: V, b: V, fresh: V) {
    let (root, mut state) = mount_between(a);
    b.rebuild(&mut state);
    let updated = nd::serialize_children(root.as_ref());
    let (fresh_root, _s) = mount_between(fresh);
    let expected = nd::serialize_children(fresh_root.as_ref());
    assert_eq!(updated, expected, "in-place update differs from fresh render");
}

fn none() -> [String; 0] {
    []
}

#[test]
fn nodeless_either() {
    let old = || Either::<[String; 0], _>::Left(none());
    let new = || Either::<[String; 0], _>::Right(p().child("new"));
    check(old(), new(), new());
}

#[test]
fn nodeless_either_of3_tuple_of_empty_arrays() {
    let old = || EitherOf3::<([String; 0], [String; 0]), String, ()>::A((none(), none()));
    let new = || EitherOf3::<([String; 0], [String; 0]), String, ()>::B("new".to_string());
    check(old(), new(), new());
}

#[test]
fn nodeless_option() {
    check(Some(none()), None, None);
}

#[test]
fn nodeless_any_view() {
    check(none().into_any(), "new".to_string().into_any(), "new".to_string().into_any());
}

#[test]
fn control_branch_with_some_node_is_replaced() {
    let old = || Either::<([String; 0], String), _>::Left((none(), "old".to_string()));
    let new = || Either::<([String; 0], String), _>::Right(p().child("new"));
    check(old(), new(), new());
    check(new(), old(), old());
    // towards the node-less branch is fine too
    let old = || Either::<[String; 0], _>::Right(p().child("old"));
    let new = || Either::<[String; 0], _>::Left(none());
    check(old(), new(), new());
}
