//! Demonstration for finding F-C10-4 (known, not repaired): copy to reactive_graph/tests/ and run
//!   cargo test --offline -p reactive_graph --features effects --test f_c10_4_demo
//! Everything that matters runs on ONE thread (a current-thread tokio runtime on a helper thread; the test thread
//! is only the watchdog).  A reader takes the value of an async derived by reference and keeps the guard across
//! an await (`let g = d.by_ref().await; other.await;`).  Meanwhile a source changes and the reload completes: the
//! derived's task now waits in `value.write().await` (`set_inner_value`), and `async_lock::RwLock` lets no new
//! reader in while a writer waits.  ANY synchronous read of the derived on that thread — `get()`, `read()`,
//! `get_untracked()`, an `Effect` that reads it, `try_read_untracked` under `<Suspense/>` — now calls
//! `blocking_read_arc()` and never returns: the guard's owner and the derived's task cannot run on the blocked
//! thread.  The same holds AFTER the guard was dropped until the derived's task has been polled again.
//! `blocked_*` FAIL (watchdog: the read never returned); the controls pass.
use any_spawner::Executor;
use reactive_graph::{
    computed::ArcAsyncDerived,
    owner::Owner,
    signal::RwSignal,
    traits::{Get, GetUntracked, Set},
};
use std::{sync::mpsc, time::Duration};

async fn settle() {
    for _ in 0..10 {
        Executor::tick().await;
    }
}

fn derived_of(sig: RwSignal<i32>) -> ArcAsyncDerived<i32> {
    ArcAsyncDerived::new(move || async move {
        let v = sig.get();
        Executor::tick().await;
        v * 10
    })
}

#[derive(Clone, Copy, PartialEq)]
enum Scenario {
    GuardHeld,
    GuardJustDropped,
    ControlNoReload,
    ControlTaskPolled,
}

/// runs the scenario on a helper thread; returns what the synchronous read returned, or None if it never did
fn run(scenario: Scenario) -> Option<Option<i32>> {
    let (tx, rx) = mpsc::channel();
    std::thread::spawn(move || {
        let rt = tokio::runtime::Builder::new_current_thread().enable_all().build().unwrap();
        rt.block_on(async move {
            _ = Executor::init_tokio();
            let owner = Owner::new();
            owner.set();
            let sig = RwSignal::new(1);
            let d = derived_of(sig);
            assert_eq!(d.clone().await, 10);
            // a reader keeps the guard across an await
            let guard = d.by_ref().await;
            assert_eq!(*guard, 10);
            if scenario != Scenario::ControlNoReload {
                // a source changes; the reload runs to completion and waits for the write lock
                sig.set(2);
                settle().await;
            }
            let read = match scenario {
                Scenario::GuardHeld | Scenario::ControlNoReload => {
                    let v = d.get_untracked(); // <- blocks for good in `GuardHeld`
                    drop(guard);
                    v
                }
                Scenario::GuardJustDropped => {
                    drop(guard);
                    d.get_untracked() // <- blocks for good: the writer is still queued, its task has not run
                }
                Scenario::ControlTaskPolled => {
                    drop(guard);
                    settle().await;
                    d.get_untracked()
                }
            };
            tx.send(read).unwrap();
        });
    });
    rx.recv_timeout(Duration::from_secs(3)).ok()
}

#[test]
fn blocked_sync_read_while_the_finished_reload_waits_for_a_guard() {
    assert!(run(Scenario::GuardHeld).is_some(), "the synchronous read never returned: the thread is blocked for good");
}

#[test]
fn blocked_sync_read_after_the_guard_was_dropped_until_the_task_is_polled() {
    assert!(run(Scenario::GuardJustDropped).is_some(), "the synchronous read never returned: the thread is blocked for good");
}

#[test]
fn control_sync_read_next_to_a_guard_without_a_pending_reload() {
    assert_eq!(run(Scenario::ControlNoReload), Some(Some(10)));
}

#[test]
fn control_sync_read_after_the_task_has_stored_the_value() {
    assert_eq!(run(Scenario::ControlTaskPolled), Some(Some(20)));
}
