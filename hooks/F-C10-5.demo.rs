//! Demonstration for finding F-C10-5 (known, not repaired): copy to reactive_graph/tests/ and run
//!   cargo test --offline -p reactive_graph --features effects --test f_c10_5_demo
//! One thread.  The `(_, Poll::Pending) => Poll::Pending` arm of `AsyncDerivedFuture::poll` /
//! `AsyncDerivedRefFuture::poll` returns `Pending` with the task's waker registered nowhere: the `read_arc()` future
//! (and its listener) is a local that is dropped at the end of the poll.  The arm is taken when loading is OFF while
//! the value lock is not readable.  As long as nobody writes the value by hand that cannot happen (the derived's own
//! task stores before it turns loading off: /verif theorem C10_no_awaiter_lost); with a manual write during a fetch it
//! can: loading is off, a reader keeps a guard, the fetch completes and its task queues for the write lock; an awaiter
//! polled now is never resumed although the derived settles.  FAILS at HEAD.
use any_spawner::Executor;
use futures::channel::oneshot;
use reactive_graph::{
    computed::ArcAsyncDerived,
    owner::Owner,
    signal::RwSignal,
    traits::{Get, Set},
};
use std::{
    sync::{Arc, Mutex},
    time::Duration,
};
use tokio::time::timeout;

async fn settle() {
    for _ in 0..10 {
        Executor::tick().await;
    }
}

#[tokio::test]
async fn awaiter_polled_while_the_lock_is_busy_and_loading_is_off_is_never_resumed() {
    _ = Executor::init_tokio();
    let owner = Owner::new();
    owner.set();
    let sig = RwSignal::new(1);
    let (gate_tx, gate_rx) = oneshot::channel::<()>();
    let gate_rx = Arc::new(Mutex::new(Some(gate_rx)));
    let d = ArcAsyncDerived::new(move || {
        let v = sig.get();
        let rx = gate_rx.lock().unwrap().take();
        async move {
            if let Some(rx) = rx {
                _ = rx.await;
            }
            v * 10
        }
    });
    settle().await;
    // the first fetch is in flight; a manual write stores a value and turns loading off
    d.set(Some(5));
    settle().await;
    // a reader keeps a guard across the following awaits
    let guard = d.by_ref().await;
    assert_eq!(*guard, 5);
    // the fetch completes: its task queues for the write lock, loading is (still) off
    gate_tx.send(()).unwrap();
    settle().await;
    // a new awaiter is polled in that window
    let (tx, rx) = oneshot::channel();
    tokio::spawn({
        let d = d.clone();
        async move {
            let v = d.await;
            _ = tx.send(v);
        }
    });
    settle().await;
    drop(guard);
    settle().await;
    assert_eq!(d.get(), Some(10), "the derived has settled on the fetched value");
    let got = timeout(Duration::from_millis(500), rx).await;
    assert!(got.is_ok(), "the awaiting task was never resumed");
}
