//! F-C02-3: `WriteSignal` / `ArcWriteSignal` (the setter half of `signal()` / `arc_signal()`) and
//! `Trigger` / `ArcTrigger` notify through `impl ReactiveNode for RwLock<SubscriberSet>`, whose
//! `mark_subscribers_check` TAKES the subscriber set (`self.write().unwrap().take()`), while `RwSignal` /
//! `ArcRwSignal` notify a clone and keep it.  A subscriber that is notified but does not re-run (an effect
//! whose owner is paused consumes the notification: "effects that were notified while paused will not run
//! until they are notified again by a source after being resumed") is therefore no longer subscribed:
//! the write made after `resume()` reaches nobody and the effect stays stale for ever.
use any_spawner::Executor;
use reactive_graph::{
    effect::Effect,
    owner::Owner,
    prelude::*,
    signal::{arc_signal, signal, ArcRwSignal, RwSignal},
};
use std::sync::{Arc, RwLock};

async fn tick() {
    Executor::tick().await;
}

fn init() {
    _ = Executor::init_tokio();
}

/// returns what the effect saw, run by run
async fn scenario(read: impl Fn() -> i32 + Send + Sync + 'static, write: impl Fn(i32)) -> Vec<i32> {
    let owner = Owner::new();
    owner.set();
    let seen = Arc::new(RwLock::new(Vec::new()));
    let child = owner.child();
    child.with(|| {
        Effect::new_isomorphic({
            let seen = Arc::clone(&seen);
            move |_| seen.write().unwrap().push(read())
        })
    });
    tick().await; // first run: sees 0
    child.pause();
    write(1); // notified while paused ...
    tick().await; // ... the paused effect consumes the notification and does not run (documented)
    child.resume();
    write(2); // "notified again by a source after being resumed": must run and see 2
    tick().await;
    let v = seen.read().unwrap().clone();
    v
}

#[tokio::test]
async fn control_rw_signal() {
    init();
    tokio::task::LocalSet::new()
        .run_until(async {
            let s = RwSignal::new(0);
            assert_eq!(scenario(move || s.get(), move |v| s.set(v)).await, vec![0, 2]);
            let s = ArcRwSignal::new(0);
            let w = s.clone();
            assert_eq!(scenario(move || s.get(), move |v| w.set(v)).await, vec![0, 2]);
        })
        .await
}

#[tokio::test]
async fn write_signal_keeps_its_subscribers_arena() {
    init();
    tokio::task::LocalSet::new()
        .run_until(async {
            let (count, set_count) = signal(0);
            assert_eq!(scenario(move || count.get(), move |v| set_count.set(v)).await, vec![0, 2]);
        })
        .await
}

#[tokio::test]
async fn write_signal_keeps_its_subscribers_arc() {
    init();
    tokio::task::LocalSet::new()
        .run_until(async {
            let (count, set_count) = arc_signal(0);
            assert_eq!(scenario(move || count.get(), move |v| set_count.set(v)).await, vec![0, 2]);
        })
        .await
}
