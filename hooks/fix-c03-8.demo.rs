//! F-C03-8 (`AnyViewWithAttrs::rebuild`) on the real tachys, native DOM hook.
//!
//! Attributes spread onto an `AnyView` (`view.into_any().add_any_attr(..)`, what `<Comp attr:class=.. />`
//! / `{..spread}` do when the component returns an `AnyView`) are built on the elements the view shows
//! at BUILD time; `rebuild` rebuilt the view and then zipped the attributes with those old states.
//!
//! Run from a worktree of /repo:
//!   mkdir -p tachys/tests && cp /verif/hooks/fix-c03-8.demo.rs tachys/tests/c03_any_spread_attrs_demo.rs
//!   RUSTFLAGS="--cfg leptos_verif" cargo test --offline -p tachys --test c03_any_spread_attrs_demo
//! Without hooks/fix-c03-8.patch the `spread_*` tests FAIL, `control_*` pass; with it all pass.
#![cfg(leptos_verif)]

use tachys::{
    html::{
        class::class,
        element::{div, p},
        style::style,
    },
    prelude::*,
    renderer::native_dom as nd,
    view::add_attr::AddAnyAttr,
};

fn mounted<V: Render>(view: V) -> (nd::Element, V::State) {
    let root = nd::create_root("main");
    let mut state = view.build();
    state.mount(&root, None);
    (root, state)
}

/// DOM after build(a) + mount + rebuild(b) versus DOM after build(b) + mount.
fn check<V: Render>(a: V, b: V, fresh: V) {
    let (root, mut state) = mounted(a);
    b.rebuild(&mut state);
    let updated = nd::serialize_children(root.as_ref());
    let (fresh_root, _s) = mounted(fresh);
    let expected = nd::serialize_children(fresh_root.as_ref());
    assert_eq!(updated, expected, "in-place update differs from fresh render");
    assert!(nd::take_errors().is_empty());
}

#[test]
fn spread_class_survives_a_change_of_the_view_type() {
    let old = || div().into_any().add_any_attr(class("card"));
    let new = || p().into_any().add_any_attr(class("card"));
    // the new <p> never gets the class
    check(old(), new(), new());
}

#[test]
fn spread_style_is_removed_from_the_element_that_is_shown() {
    let old = || div().into_any().add_any_attr(style(Some("color: red")));
    let new = || p().into_any().add_any_attr(style(None::<&str>));
    let mid = || p().into_any().add_any_attr(style(Some("color: red")));
    check(old(), mid(), mid());
    // ... and a later None is applied to the <div> that is gone
    let (root, mut state) = mounted(old());
    mid().rebuild(&mut state);
    new().rebuild(&mut state);
    let (fresh_root, _s) = mounted(new());
    assert_eq!(nd::serialize_children(root.as_ref()), nd::serialize_children(fresh_root.as_ref()));
}

#[test]
fn spread_class_reaches_every_top_level_element_on_rebuild() {
    let old = || (div(), div()).into_any().add_any_attr(class("a"));
    let new = || (div(), div()).into_any().add_any_attr(class("b"));
    // one attribute, two elements: only the first element's state was zipped with it
    check(old(), new(), new());
}

#[test]
fn spread_class_reaches_elements_added_by_a_rebuild() {
    let old = || vec![div()].into_any().add_any_attr(class("a"));
    let new = || vec![div(), div(), div()].into_any().add_any_attr(class("a"));
    check(old(), new(), new());
}

#[test]
fn control_same_type_one_element() {
    let old = || div().into_any().add_any_attr(class("a")).add_any_attr(style(Some("color: red")));
    let new = || div().into_any().add_any_attr(class("b")).add_any_attr(style(None::<&str>));
    check(old(), new(), new());
    check(new(), old(), old());
}
