//! Demo for hooks/fix-c05-5.patch.  Copy to leptos/tests/fix_c05_5_demo.rs and run
//!   cargo test --offline -p leptos --features ssr --test fix_c05_5_demo
//! Before the patch both tests fail (`<p>ab</p>`, `x<b></b><!>b`), with it they pass.
use leptos::prelude::*;

/// the string after the boundary needs its `<!>` separator: the boundary's last child is a string
#[test]
fn string_after_boundary_that_ends_in_a_string() {
    let owner = Owner::new();
    let html = owner.with(|| {
        view! { <p><ErrorBoundary fallback=|_| "ERR">{Ok::<_, std::fmt::Error>("a")}</ErrorBoundary>"b"</p> }.to_html()
    });
    assert_eq!(html, "<p>a<!>b</p>");
}

/// ... and must not get one when the boundary's last child is an element
#[test]
fn string_after_boundary_that_ends_in_an_element() {
    let owner = Owner::new();
    let html = owner.with(|| {
        view! { "x"<ErrorBoundary fallback=|_| "ERR"><b></b></ErrorBoundary>"b" }.to_html()
    });
    assert_eq!(html, "x<b></b>b");
}
