//! F-C08-3: an `ImmediateEffect` that is disposed while one of its runs is in progress runs again.
//!
//! `ImmediateEffect::new_scoped` hands the effect to an `on_cleanup` closure of the current owner, so
//! that "this effect is automatically cleaned up when the current owner is cleared or disposed".  The
//! closure calls `effect.dispose()`, which only drops the handle.  If the effect is *running* at that
//! moment — it wrote a signal, and the write made the owning scope re-run — the code that notified it
//! still holds the strong reference it upgraded for the call, so the effect stays reachable: the same
//! write goes on to notify the (already disposed) effect itself, and it runs once more, in a scope
//! that has been cleaned up.
//!
//! No executor is needed: immediate effects run synchronously.
use reactive_graph::{
    effect::ImmediateEffect,
    owner::Owner,
    signal::RwSignal,
    traits::{Get, GetUntracked, Set},
};
use std::sync::{Arc, Mutex};

fn log() -> (Arc<Mutex<Vec<String>>>, impl Fn(&str) + Clone + Send + Sync + 'static) {
    let log = Arc::new(Mutex::new(Vec::new()));
    let l2 = log.clone();
    (log, move |s: &str| l2.lock().unwrap().push(s.to_string()))
}

/// the child (`new_scoped`, created by `parent` before `parent` reads `s`) reads `s` and raises it to 2;
/// `s.set(1)` runs the child first; its write re-runs `parent`, which cleans its scope up — disposing the
/// running child — and creates a new child; then the write notifies the old child.
#[test]
fn scoped_effect_disposed_mid_run_does_not_run_again() {
    let root = Owner::new();
    let (log, say) = log();
    let generation = Arc::new(Mutex::new(0u32));
    let _parent = root.with(|| {
        let s = RwSignal::new(5);
        let parent = ImmediateEffect::new({
            let say = say.clone();
            let generation = generation.clone();
            move || {
                let g = {
                    let mut g = generation.lock().unwrap();
                    *g += 1;
                    *g
                };
                say(&format!("parent run, creates child {g}"));
                ImmediateEffect::new_scoped({
                    let say = say.clone();
                    move || {
                        let v = s.get();
                        say(&format!("child {g} runs, s = {v}"));
                        if s.get_untracked() < 2 {
                            s.set(2);
                        }
                        say(&format!("child {g} returns"));
                    }
                });
                s.get();
            }
        });
        log.lock().unwrap().clear();
        s.set(1);
        parent
    });
    let log = log.lock().unwrap().clone();
    // child 1 belongs to the generation of `parent` that the re-run disposed: after
    // "parent run, creates child 2" it must not run again
    let at = log.iter().position(|l| l == "parent run, creates child 2").expect("parent re-ran");
    let zombie: Vec<&String> = log[at..].iter().filter(|l| l.starts_with("child 1 runs")).collect();
    assert!(
        zombie.is_empty(),
        "child 1 was disposed by the re-run of its scope and ran again: {log:#?}"
    );
}

/// CONTROL: a scoped effect that is not running when its scope is cleaned up stops at once.
#[test]
fn control_scoped_effect_stops_with_its_scope() {
    let root = Owner::new();
    let (log, say) = log();
    let s = root.with(|| RwSignal::new(0));
    let scope = root.with(Owner::new);
    scope.with(|| {
        ImmediateEffect::new_scoped({
            let say = say.clone();
            move || say(&format!("runs, s = {}", s.get()))
        })
    });
    s.set(1);
    scope.cleanup();
    s.set(2);
    assert_eq!(*log.lock().unwrap(), vec!["runs, s = 0", "runs, s = 1"]);
}

/// CONTROL: recursion through a write is still allowed for a live effect (the doc's "it might recurse").
#[test]
fn control_live_effect_still_recurses() {
    let root = Owner::new();
    let (log, say) = log();
    let _e = root.with(|| {
        let s = RwSignal::new(0);
        ImmediateEffect::new({
            let say = say.clone();
            move || {
                let v = s.get();
                say(&format!("runs, s = {v}"));
                if v < 2 {
                    s.set(v + 1);
                }
            }
        })
    });
    assert_eq!(*log.lock().unwrap(), vec!["runs, s = 0", "runs, s = 1", "runs, s = 2"]);
}
