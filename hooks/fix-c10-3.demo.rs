//! Demonstration for hooks/fix-c10-3.patch: copy to reactive_graph/tests/ and run
//!   cargo test --offline -p reactive_graph --features effects --test fix_c10_3_demo
//! `boundary_forgets_a_reader_that_is_gone*` fail before the patch and pass after it; the control passes both ways.
use any_spawner::Executor;
use futures::channel::oneshot;
use reactive_graph::{
    computed::{suspense::SuspenseContext, ArcAsyncDerived, ScopedFuture},
    owner::{provide_context, Owner},
    signal::{ArcRwSignal, RwSignal},
    traits::{Get, GetUntracked, ReadUntracked, Set},
};
use slotmap::SlotMap;
use std::sync::{Arc, Mutex};

#[derive(Clone, Default)]
struct Gates(Arc<Mutex<Vec<Option<oneshot::Sender<()>>>>>);
impl Gates {
    fn gate(&self) -> oneshot::Receiver<()> {
        let (tx, rx) = oneshot::channel();
        self.0.lock().unwrap().push(Some(tx));
        rx
    }
    fn complete(&self, idx: usize) {
        self.0.lock().unwrap()[idx].take().unwrap().send(()).unwrap();
    }
}
async fn run_until_idle() {
    for _ in 0..50 {
        tokio::task::yield_now().await;
    }
}
fn gated(signal: RwSignal<i32>, gates: &Gates) -> ArcAsyncDerived<i32> {
    let gates = gates.clone();
    ArcAsyncDerived::new(move || {
        let input = signal.get();
        let gate = gates.gate();
        async move {
            _ = gate.await;
            input * 10
        }
    })
}
/// a stand-in for `<Suspense/>`: an owner providing a `SuspenseContext`; readers live in child owners
struct Boundary {
    owner: Owner,
    tasks: ArcRwSignal<SlotMap<slotmap::DefaultKey, ()>>,
}
impl Boundary {
    fn new(parent: &Owner) -> Self {
        let tasks = ArcRwSignal::new(SlotMap::new());
        let owner = parent.child();
        owner.with(|| provide_context(SuspenseContext { tasks: tasks.clone() }));
        Self { owner, tasks }
    }
    fn pending(&self) -> usize {
        self.tasks.read_untracked().len()
    }
}

#[tokio::test]
async fn control_a_reader_that_still_exists_makes_the_boundary_wait_for_the_reload() {
    _ = Executor::init_tokio();
    let owner = Owner::new();
    owner.set();
    let signal = RwSignal::new(1);
    let gates = Gates::default();
    let derived = gated(signal, &gates);
    let boundary = Boundary::new(&owner);
    run_until_idle().await;
    gates.complete(0);
    run_until_idle().await;
    let reader = boundary.owner.child();
    assert_eq!(reader.with(|| derived.get_untracked()), Some(10));
    run_until_idle().await;
    assert_eq!(boundary.pending(), 0);
    signal.set(2);
    run_until_idle().await;
    assert!(boundary.pending() > 0, "the reader is still there: the boundary waits for the reload");
    gates.complete(1);
    run_until_idle().await;
    assert_eq!(boundary.pending(), 0);
}

#[tokio::test]
async fn boundary_forgets_a_reader_that_is_gone() {
    _ = Executor::init_tokio();
    let owner = Owner::new();
    owner.set();
    let signal = RwSignal::new(1);
    let gates = Gates::default();
    let derived = gated(signal, &gates);
    let boundary = Boundary::new(&owner);
    run_until_idle().await;
    gates.complete(0);
    run_until_idle().await;
    // a reader under the boundary reads the value, and is removed (`<Show>` closed)
    let reader = boundary.owner.child();
    assert_eq!(reader.with(|| derived.get_untracked()), Some(10));
    run_until_idle().await;
    reader.cleanup();
    // the value reloads: nothing under the boundary reads it any more
    signal.set(2);
    run_until_idle().await;
    assert_eq!(boundary.pending(), 0, "the boundary waits for a reload on behalf of a reader that is gone");
    gates.complete(1);
    run_until_idle().await;
}

#[tokio::test]
async fn boundary_forgets_a_reader_that_is_gone_awaiting() {
    _ = Executor::init_tokio();
    let owner = Owner::new();
    owner.set();
    let signal = RwSignal::new(1);
    let gates = Gates::default();
    let derived = gated(signal, &gates);
    let boundary = Boundary::new(&owner);
    run_until_idle().await;
    gates.complete(0);
    run_until_idle().await;
    // a `Suspend`-like reader awaits the value under the boundary, then is removed
    let reader = boundary.owner.child();
    let fut = reader.with(|| ScopedFuture::new({
        let derived = derived.clone();
        async move { derived.await }
    }));
    assert_eq!(fut.await, 10);
    reader.cleanup();
    signal.set(2);
    run_until_idle().await;
    assert_eq!(boundary.pending(), 0, "the boundary waits for a reload on behalf of an awaiter that is gone");
    gates.complete(1);
    run_until_idle().await;
    // removed while a run holds its ID: released at once
    let reader = boundary.owner.child();
    assert_eq!(reader.with(|| derived.get_untracked()), Some(20));
    run_until_idle().await;
    signal.set(3);
    run_until_idle().await;
    assert!(boundary.pending() > 0);
    reader.cleanup();
    assert_eq!(boundary.pending(), 0, "a reader removed during the reload still keeps the boundary waiting");
    gates.complete(2);
    run_until_idle().await;
}
