#!/usr/bin/env python3
"""Small source extractors (DESIGN §4.2): table-shaped facts of /repo rewritten as Lean data.

    python3 extract.py <Table> [<Table> ...]     regenerate lean/LeptosModel/Gen/<Table>.lean
    python3 extract.py --list                    names of the known tables

Every extractor is a function `() -> str` returning the full text of the generated Lean file;
it must raise `ExtractError` whenever one of its regexes stops matching the source (the run then
reports `extract:<Table>` as no longer shown — never as passing).  To add a table: write a
function and register it in `TABLES`.  The file is only rewritten when its content changes, so
an unchanged /repo does not trigger a Lean rebuild.
"""
import os
import re
import sys

REPO = os.environ.get("LEPTOS_REPO", "/repo")
HERE = os.path.dirname(os.path.abspath(__file__))
GEN_DIR = os.path.join(HERE, "lean", "LeptosModel", "Gen")


class ExtractError(Exception):
    pass


# ----------------------------------------------------------------- helpers

def read_repo(rel):
    path = os.path.join(REPO, rel)
    try:
        with open(path, encoding="utf-8") as f:
            return f.read()
    except OSError as e:
        raise ExtractError("cannot read %s: %s" % (path, e))


def strip_rust_comments(src):
    """remove // line comments and /* */ block comments (string literals in the
    extracted regions never contain `//`)"""
    src = re.sub(r"/\*.*?\*/", "", src, flags=re.S)
    return re.sub(r"//[^\n]*", "", src)


def section(src, start_re, what):
    """text of the item starting at the first match of `start_re` up to the matching
    closing brace of its first `{`"""
    m = re.search(start_re, src)
    if not m:
        raise ExtractError("%s: start pattern /%s/ not found" % (what, start_re))
    i = src.find("{", m.end() - 1 if src[m.end() - 1] == "{" else m.end())
    if i < 0:
        raise ExtractError("%s: no opening brace" % what)
    depth, j, in_str = 0, i, False
    while j < len(src):
        c = src[j]
        if in_str:
            if c == "\\":
                j += 1
            elif c == '"':
                in_str = False
        elif c == '"':
            in_str = True
        elif c == "'" and j + 2 < len(src) and src[j + 2] == "'":
            j += 2  # char literal such as '|' or '{'
        elif c == "{":
            depth += 1
        elif c == "}":
            depth -= 1
            if depth == 0:
                return src[i:j + 1]
        j += 1
    raise ExtractError("%s: unbalanced braces" % what)


def lean_chars(s):
    """a Rust string literal body (no escapes allowed) as a Lean `List Char` term"""
    if "\\" in s or '"' in s:
        raise ExtractError("string literal %r contains an escape; extend lean_chars" % s)
    return '"%s".toList' % s


def lean_list(items, indent="  "):
    if not items:
        return "[]"
    return "[\n" + ",\n".join(indent + "  " + it for it in items) + "\n" + indent + "]"


# ----------------------------------------------------------------- ErrorKinds

def error_kinds():
    """server_fn/src/error.rs: the match arms of `ServerFnErrorEncoding::{encode, decode}`
    and the variants of `enum ServerFnError`."""
    rel = "server_fn/src/error.rs"
    src = strip_rust_comments(read_repo(rel))

    # -- enum ServerFnError<E = NoCustomError> { Variant(Payload), ... }
    enum = section(src, r"pub\s+enum\s+ServerFnError\s*<[^>]*>\s*\{", "enum ServerFnError")
    body = re.sub(r"#\[[^\]]*\]", "", enum[1:-1], flags=re.S)   # drop attributes
    variants = re.findall(r"\b([A-Z]\w*)\s*\(\s*(\w+)\s*\)\s*,", body)
    leftovers = re.sub(r"\b[A-Z]\w*\s*\(\s*\w+\s*\)\s*,", "", body).strip()
    if not variants or leftovers:
        raise ExtractError("enum ServerFnError: unexpected variant syntax near %r" % leftovers[:80])
    for _, payload in variants:
        if payload not in ("String", "E"):
            raise ExtractError("enum ServerFnError: unexpected payload type %s" % payload)

    # -- encode arms
    enc_impl = section(src, r"impl\s*<\s*CustErr\s*>\s*Encodes\s*<\s*ServerFnError\s*<\s*CustErr\s*>\s*>\s*for\s+ServerFnErrorEncoding\b[^{]*\{",
                       "impl Encodes for ServerFnErrorEncoding")
    enc_fn = section(enc_impl, r"fn\s+encode\s*\(", "ServerFnErrorEncoding::encode")
    enc_match = section(enc_fn, r"match\s+output\s*\{", "encode: match output")
    arm_re = re.compile(
        r"ServerFnError::(\w+)\s*\(\s*(\w+)\s*\)\s*=>\s*\{?\s*"
        r"write!\s*\(\s*&mut\s+buf\s*,\s*\"([^\"{}|\\]*)(.)\{\2\}\"\s*,?\s*\)\s*\}?\s*,?")
    enc_arms = [(m.group(1), m.group(3), m.group(4)) for m in arm_re.finditer(enc_match)]
    rest = arm_re.sub("", enc_match[1:-1]).strip()
    if not enc_arms or rest:
        raise ExtractError("encode: an arm is not of the form `ServerFnError::V(e) => write!(&mut buf, \"Prefix|{e}\")`: %r" % rest[:120])
    seps = {a[2] for a in enc_arms}
    if len(seps) != 1:
        raise ExtractError("encode: arms use different separators %r" % sorted(seps))
    sep = seps.pop()
    if set(v for v, _ in variants) != set(a[0] for a in enc_arms) or len(enc_arms) != len(variants):
        raise ExtractError("encode: arms %r do not cover the enum variants %r exactly once" % (
            [a[0] for a in enc_arms], [v for v, _ in variants]))

    # -- decode arms
    dec_impl = section(src, r"impl\s*<\s*CustErr\s*>\s*Decodes\s*<\s*ServerFnError\s*<\s*CustErr\s*>\s*>\s*for\s+ServerFnErrorEncoding\b[^{]*\{",
                       "impl Decodes for ServerFnErrorEncoding")
    dec_fn = section(dec_impl, r"fn\s+decode\s*\(", "ServerFnErrorEncoding::decode")
    msplit = re.search(r"\bdata\s*\.\s*(\w+)\s*\(\s*'(.)'\s*\)", dec_fn)
    if not msplit or msplit.group(1) != "split_once":
        raise ExtractError("decode: expected `data.split_once('<sep>')`, found %r" % (msplit.group(0) if msplit else None))
    if msplit.group(2) != sep:
        raise ExtractError("decode: splits at %r but encode writes %r" % (msplit.group(2), sep))
    dec_match = section(dec_fn, r"match\s+ty\s*\{", "decode: match ty")
    plain_re = re.compile(
        r"\"([^\"\\]*)\"\s*=>\s*\{?\s*Ok\s*\(\s*ServerFnError::(\w+)\s*\(\s*data\s*\.\s*to_string\s*\(\s*\)\s*\)\s*\)\s*\}?\s*,?")
    cust_re = re.compile(
        r"\"([^\"\\]*)\"\s*=>\s*\{?\s*CustErr::from_str\s*\(\s*data\s*\)\s*\.\s*map\s*\(\s*ServerFnError::(\w+)\s*\)"
        r"\s*\.\s*map_err\s*\(\s*\|_\|\s*\{\s*format!\s*\(\s*\"Failed to parse CustErr from \{data:\?\}\"\s*\)\s*\}\s*\)\s*\}?\s*,?")
    fallback_re = re.compile(r"_\s*=>\s*Err\s*\(\s*format!\s*\(\s*\"Unknown error type: \{ty\}\"\s*\)\s*\)\s*,?")
    dec_arms = []
    for m in re.finditer(r"\"([^\"\\]*)\"\s*=>", dec_match):
        pm = plain_re.match(dec_match, m.start())
        cm = cust_re.match(dec_match, m.start())
        if pm:
            dec_arms.append((pm.group(1), pm.group(2), False))
        elif cm:
            dec_arms.append((cm.group(1), cm.group(2), True))
        else:
            raise ExtractError("decode: arm for %r has an unexpected right-hand side" % m.group(1))
    rest = fallback_re.sub("", cust_re.sub("", plain_re.sub("", dec_match[1:-1]))).strip()
    if not dec_arms or rest or not fallback_re.search(dec_match):
        raise ExtractError("decode: unexpected arm syntax / missing `_ => Err(\"Unknown error type\")` arm: %r" % rest[:120])
    if "Invalid format: missing delimiter in {data:?}" not in dec_fn or "UTF-8 conversion error: {}" not in dec_fn:
        raise ExtractError("decode: the missing-delimiter / UTF-8 error messages changed")
    payload = dict(variants)
    for prefix, var, custom in dec_arms:
        if var not in payload:
            raise ExtractError("decode: unknown variant %s" % var)
        if custom != (payload[var] == "E"):
            raise ExtractError("decode: variant %s payload %s decoded with the wrong constructor form" % (var, payload[var]))

    out = []
    out.append("/-! GENERATED by /verif/extract.py ErrorKinds from %s — do not edit.\n" % rel)
    out.append("The `(variant, prefix)` pairs of the `encode` arms and the `(prefix, variant, custom)` triples of\n"
               "the `decode` arms of `ServerFnErrorEncoding`, in source order; `custom = true` marks the arm that\n"
               "goes through `CustErr::from_str`.  `separator` is the character written between prefix and\n"
               "message by every `encode` arm and searched by `data.split_once` in `decode`. -/\n")
    out.append("namespace Leptos.Gen.ErrorKinds\n\n")
    out.append("def separator : Char := '%s'\n\n" % sep)
    out.append("/-- `enum ServerFnError`: (variant, payload is the custom type `E`) -/\n")
    out.append("def variants : List (List Char × Bool) := %s\n\n" % lean_list(
        ["(%s, %s)" % (lean_chars(v), "true" if p == "E" else "false") for v, p in variants]))
    out.append("/-- `ServerFnErrorEncoding::encode`: (variant, prefix) -/\n")
    out.append("def encodeArms : List (List Char × List Char) := %s\n\n" % lean_list(
        ["(%s, %s)" % (lean_chars(v), lean_chars(p)) for v, p, _ in enc_arms]))
    out.append("/-- `ServerFnErrorEncoding::decode`: (prefix, variant, parsed with `CustErr::from_str`) -/\n")
    out.append("def decodeArms : List (List Char × List Char × Bool) := %s\n\n" % lean_list(
        ["(%s, %s, %s)" % (lean_chars(p), lean_chars(v), "true" if c else "false") for p, v, c in dec_arms]))
    out.append("end Leptos.Gen.ErrorKinds\n")
    return "".join(out)



# ----------------------------------------------------------------- Transfer (C12)

def _rust_str_unescape(body):
    """value of a Rust string literal body with only `\\`, `\"`, `\n`, `\t`, `\r`, `\0` escapes"""
    out, i = [], 0
    simple = {"\\": "\\", '"': '"', "n": "\n", "t": "\t", "r": "\r", "0": "\0", "'": "'"}
    while i < len(body):
        c = body[i]
        if c == "\\":
            if i + 1 >= len(body) or body[i + 1] not in simple:
                raise ExtractError("string literal %r uses an escape this extractor does not know" % body)
            out.append(simple[body[i + 1]])
            i += 2
        else:
            out.append(c)
            i += 1
    return "".join(out)


def _nat_list(s):
    return "[" + ", ".join(str(ord(c)) for c in s) + "]"


def _macro_args(src, open_paren):
    """top-level comma-separated arguments of the macro call whose `(` is at `open_paren`;
    returns (args, index after the closing paren)"""
    depth, j, in_str, cur, args = 0, open_paren, False, [], []
    while j < len(src):
        c = src[j]
        if in_str:
            cur.append(c)
            if c == "\\":
                cur.append(src[j + 1])
                j += 1
            elif c == '"':
                in_str = False
        elif c == '"':
            in_str = True
            cur.append(c)
        elif c in "([{":
            depth += 1
            if depth > 1:
                cur.append(c)
        elif c in ")]}":
            depth -= 1
            if depth == 0:
                args.append("".join(cur).strip())
                return [a for a in args if a != ""], j + 1
            cur.append(c)
        elif c == "," and depth == 1:
            args.append("".join(cur).strip())
            cur = []
        else:
            cur.append(c)
        j += 1
    raise ExtractError("write!: unbalanced parentheses")


def transfer():
    """hydration_context/src/ssr.rs after the repair of F-C12-1/2/3: strings become JavaScript string
    literals only through the private helper `js_string`.  Extracted: (1) the helper's two rewrites of
    the `{:?}`-formatted text, (2) every `write!` that prints a `js_string(..)` argument, (3) the
    number of `{:?}`-style holes anywhere else in the file (must be 0: EVERY debug-printed argument
    goes through the helper) and of `.replace(` calls (must be 0: nothing is rewritten before
    formatting)."""
    rel = "hydration_context/src/ssr.rs"
    src = strip_rust_comments(read_repo(rel))
    helper = section(src, r"\bfn\s+js_string\s*\(\s*\w+\s*:\s*&str\s*\)\s*->\s*String\s*\{", "fn js_string")
    mfmt = re.findall(r"format!\s*\(\s*\"((?:[^\"\\]|\\.)*)\"", helper)
    if mfmt != ["{s:?}"]:
        raise ExtractError("js_string: expected exactly one `format!(\"{s:?}\")`, found %r" % mfmt)
    m_lt = re.search(r"'(.)'\s*=>\s*\w+\s*\.\s*push_str\s*\(\s*\"((?:[^\"\\]|\\.)*)\"\s*\)", helper)
    m_bs = re.search(r"'\\\\'\s*=>\s*match\s+\w+\s*\.\s*next\s*\(\s*\)\s*\{", helper)
    if not m_lt or not m_bs:
        raise ExtractError("js_string: the `'<' => push_str(..)` arm or the `'\\\\' => match chars.next()` arm is missing")
    inner = section(helper[m_bs.start():], r"match\s+\w+\s*\.\s*next\s*\(\s*\)\s*\{", "js_string: match chars.next()")
    arms = re.findall(r"Some\s*\(\s*'((?:[^'\\]|\\.))'\s*\)\s*=>\s*\w+\s*\.\s*push_str\s*\(\s*\"((?:[^\"\\]|\\.)*)\"\s*\)", inner)
    copy_arm = re.search(r"Some\s*\(\s*(\w+)\s*\)\s*=>\s*\{\s*(\w+)\s*\.\s*push\s*\(\s*'\\\\'\s*\)\s*;\s*\2\s*\.\s*push\s*\(\s*\1\s*\)\s*;?\s*\}", inner)
    none_arm = re.search(r"None\s*=>\s*\w+\s*\.\s*push\s*\(\s*'\\\\'\s*\)", inner)
    plain_arm = re.search(r"\b(\w+)\s*=>\s*\w+\s*\.\s*push\s*\(\s*\1\s*\)", helper[m_bs.start() + len(inner):])
    if len(arms) != 1 or not copy_arm or not none_arm or not plain_arm:
        raise ExtractError("js_string: unexpected arms after a backslash (%r) / missing copy, None or default arm" % (arms,))
    if len(re.findall(r"=>", helper)) != 6:
        raise ExtractError("js_string: expected exactly 6 match arms, the helper changed")
    lt_char, lt_text = _rust_str_unescape(m_lt.group(1)), _rust_str_unescape(m_lt.group(2))
    esc_char, esc_text = _rust_str_unescape(arms[0][0]), _rust_str_unescape(arms[0][1])

    rest = src.replace(helper, "")
    stray_debug = len(re.findall(r"\{\w*:[^{}]*\?\}", rest))
    replaces = len(re.findall(r"\.\s*replace\s*\(", src))
    sites = []
    for m in re.finditer(r"\bwrite!\s*\(", rest):
        args, _ = _macro_args(rest, m.end() - 1)
        if len(args) < 2 or not (args[1].startswith('"') and args[1].endswith('"')):
            raise ExtractError("write!: second argument is not a string literal: %r" % args[:2])
        fmt = _rust_str_unescape(args[1][1:-1])
        holes = re.findall(r"\{[^{}]*\}", fmt)
        if len(holes) != len(args) - 2:
            raise ExtractError("write!: %r does not have one argument per hole" % fmt)
        lit_holes = [i for i, a in enumerate(args[2:]) if re.match(r"js_string\s*\(", a)]
        if any("js_string" in a for i, a in enumerate(args[2:]) if i not in lit_holes):
            raise ExtractError("write!(%r): js_string used inside a larger expression" % fmt)
        if not lit_holes:
            continue
        if len(lit_holes) != 1 or holes[lit_holes[0]] != "{}":
            raise ExtractError("write!(%r): the js_string argument must fill exactly one `{}` hole" % fmt)
        fns = list(re.finditer(r"\bfn\s+(\w+)", rest[:m.start()]))
        if not fns:
            raise ExtractError("write!(%r): no enclosing fn" % fmt)
        sites.append((fns[-1].group(1), fmt, lit_holes[0], re.sub(r"\s+", "", args[2 + lit_holes[0]])))
    uses = len(re.findall(r"(?<!fn )\bjs_string\s*\(", rest))
    if uses != len(sites):
        raise ExtractError("%d uses of js_string but %d recognised write! sites" % (uses, len(sites)))
    out = []
    out.append("/-! GENERATED by /verif/extract.py Transfer from %s — do not edit.\n\n" % rel)
    out.append("`literalSites`: every `write!` that prints a `js_string(..)` argument, in source order: (enclosing fn,\n"
               "format string, index of the hole it fills).  `ltRewrite` / `escRewrite`: the two rewrites `js_string`\n"
               "applies to the `{:?}`-formatted text (a raw character; the character after a backslash).\n"
               "`strayDebugHoles`: `{:?}`-style holes outside the helper; `replaceCalls`: `.replace(` calls in the file.\n"
               "All strings are lists of code points. -/\n")
    out.append("namespace Leptos.Gen.Transfer\n\n")
    items = []
    for fn_name, fmt, idx, arg in sites:
        items.append("-- fn %s: write!(.., %s, .., %s)\n    (%s, %s, %d)" % (
            fn_name, json_like(fmt), arg, _nat_list(fn_name), _nat_list(fmt), idx))
    out.append("def literalSites : List (List Nat × List Nat × Nat) := %s\n\n" % lean_list(items))
    out.append("/-- `'%s' => push_str(%s)` -/\ndef ltRewrite : Nat × List Nat := (%d, %s)\n\n" % (
        lt_char, json_like(lt_text), ord(lt_char), _nat_list(lt_text)))
    out.append("/-- after a backslash: `Some('%s') => push_str(%s)`, any other character is copied with its backslash -/\n"
               "def escRewrite : Nat × List Nat := (%d, %s)\n\n" % (
        esc_char, json_like(esc_text), ord(esc_char), _nat_list(esc_text)))
    out.append("def strayDebugHoles : Nat := %d\n\ndef replaceCalls : Nat := %d\n\n" % (stray_debug, replaces))
    out.append("end Leptos.Gen.Transfer\n")
    return "".join(out)


def json_like(s):
    return '"' + s.replace("\\", "\\\\").replace('"', '\\"') + '"'


# ----------------------------------------------------------------- EscapeTables, Elements (C06, C18)

def _lean_char(c):
    if c == "'":
        return "'\\''"
    if c == "\\":
        return "'\\\\'"
    if not (32 <= ord(c) < 127):
        raise ExtractError("unexpected non-printable character %r in a table" % c)
    return "'%s'" % c


def _lean_char_list(s):
    return "[" + ", ".join(_lean_char(c) for c in s) + "]"


def _html_escape_src():
    """src/encode/html_entity/mod.rs of the html-escape version pinned in /repo/Cargo.lock"""
    lock = read_repo("Cargo.lock")
    m = re.search(r'name = "html-escape"\s*\nversion = "([^"]+)"', lock)
    if not m:
        raise ExtractError("html-escape is not in /repo/Cargo.lock")
    ver = m.group(1)
    import glob
    home = os.environ.get("CARGO_HOME", os.path.expanduser("~/.cargo"))
    cands = sorted(glob.glob(os.path.join(home, "registry", "src", "*", "html-escape-" + ver,
                                          "src", "encode", "html_entity", "mod.rs")))
    if not cands:
        raise ExtractError("vendored source of html-escape %s not found under %s/registry/src" % (ver, home))
    with open(cands[0], encoding="utf-8") as f:
        return ver, f.read()


def _escape_macro_rows(src, name):
    m = re.search(r"escape_impl!\s*\{\s*" + re.escape(name) + r"\s*;(.*?)\}", src, flags=re.S)
    if not m:
        raise ExtractError("escape_impl! { %s; … } not found" % name)
    body = m.group(1)
    row_re = re.compile(r"b'(\\?.)'\s*=>\s*b\"([^\"\\]*)\"\s*,")
    rows = [(r.group(1), r.group(2)) for r in row_re.finditer(body)]
    if not rows or row_re.sub("", body).strip():
        raise ExtractError("escape_impl! %s: unexpected row syntax: %r" % (name, row_re.sub("", body).strip()[:80]))
    out = []
    for ch, ent in rows:
        if ch.startswith("\\"):
            if ch not in ("\\'", "\\\\"):
                raise ExtractError("escape_impl! %s: unknown byte escape %r" % (name, ch))
            ch = ch[1]
        out.append((ch, ent))
    return out


def escape_tables():
    """html-escape: the byte -> entity rows of `escape_text` and `escape_double_quote`, plus the check
    that tachys still calls exactly `encode_text` for text and `encode_double_quoted_attribute` for
    attribute values and that those two functions are generated from those two row macros."""
    ver, src = _html_escape_src()
    src = strip_rust_comments(src)
    text_rows = _escape_macro_rows(src, "escape_text")
    attr_rows = _escape_macro_rows(src, "escape_double_quote")
    for macro, fn in (("escape_text", "encode_text"), ("escape_double_quote", "encode_double_quoted_attribute")):
        if not re.search(r"encode_impl!\s*\{\s*" + macro + r"\s*;\s*" + fn + r"\s*;", src):
            raise ExtractError("encode_impl! no longer builds %s from %s" % (fn, macro))
    strings = strip_rust_comments(read_repo("tachys/src/view/strings.rs"))
    calls = re.findall(r"html_escape::(\w+)\s*\(", strings)
    if calls != ["encode_text"]:
        raise ExtractError("tachys/src/view/strings.rs: expected exactly one html_escape call, encode_text; found %r" % calls)
    if not re.search(r"else\s+if\s+escape\s*\{\s*let\s+escaped\s*=\s*html_escape::encode_text\(self\);\s*buf\.push_str\(&escaped\);", strings):
        raise ExtractError("tachys/src/view/strings.rs: the `else if escape { encode_text }` branch changed shape")
    value = strip_rust_comments(read_repo("tachys/src/html/attribute/value.rs"))
    m = re.search(r"fn\s+escape_attr\s*\([^)]*\)\s*->\s*[^{]*\{\s*html_escape::(\w+)\s*\(\s*value\s*\)\s*\}", value)
    if not m or m.group(1) != "encode_double_quoted_attribute":
        raise ExtractError("tachys/src/html/attribute/value.rs: escape_attr is no longer `html_escape::encode_double_quoted_attribute(value)`")
    n_escape_calls = len(re.findall(r"escape_attr\s*\(", value)) - 1
    out = []
    out.append("/-! GENERATED by /verif/extract.py EscapeTables from html-escape %s (src/encode/html_entity/mod.rs)\n"
               "and tachys/src/{view/strings.rs, html/attribute/value.rs} — do not edit.\n\n" % ver)
    out.append("`escapeText`: rows of `escape_text` (= `html_escape::encode_text`, the only html_escape call in\n"
               "strings.rs); `escapeDoubleQuote`: rows of `escape_double_quote` (= `encode_double_quoted_attribute`\n"
               "= tachys `escape_attr`); `escapeAttrCallsInValueRs`: how often value.rs calls `escape_attr`. -/\n")
    out.append("namespace Leptos.Gen.EscapeTables\n\n")
    out.append("def escapeText : List (Char × List Char) := %s\n\n" % lean_list(
        ["(%s, %s)" % (_lean_char(c), _lean_char_list(e)) for c, e in text_rows]))
    out.append("def escapeDoubleQuote : List (Char × List Char) := %s\n\n" % lean_list(
        ["(%s, %s)" % (_lean_char(c), _lean_char_list(e)) for c, e in attr_rows]))
    out.append("def escapeAttrCallsInValueRs : Nat := %d\n\n" % n_escape_calls)
    out.append("end Leptos.Gen.EscapeTables\n")
    return "".join(out)


def elements():
    """tachys/src/html/element/elements.rs: every (tag, SELF_CLOSING, ESCAPE_CHILDREN) row;
    leptos_macro/src/view/mod.rs: the `is_self_closing` list and the hard-coded no-escape list."""
    rel = "tachys/src/html/element/elements.rs"
    src = strip_rust_comments(read_repo(rel))
    rows = []
    row_re = re.compile(r"\b([a-z][a-z0-9]*)\s+(?:[A-Z]\w*\s+)?([A-Z]\w*)\s*\[[^\]]*\]\s*(true|false)\s*,?")

    def block(name, self_closing):
        """rows of the top-level invocations `name! { … }` (uses inside macro bodies contain `$`)"""
        found, seen = [], 0
        for m in re.finditer(r"(?<!macro_rules! )\b" + name + r"!\s*\{", src):
            body = section(src[m.start():], name + r"!\s*\{", name + "!")[1:-1]
            if "$" in body:
                continue
            seen += 1
            got = [(r.group(1), self_closing, r.group(3) == "true") for r in row_re.finditer(body)]
            rest = row_re.sub("", body).strip()
            if not got or rest:
                raise ExtractError("%s!: unexpected row syntax near %r" % (name, rest[:80]))
            found += got
        if seen != 1:
            raise ExtractError("%s!: expected exactly one top-level invocation, found %d" % (name, seen))
        return found
    rows += block("html_self_closing_elements", True)
    rows += block("html_elements", False)
    rows += block("html_element_inner", False)
    # the two macros must still set the constants from their position / literal
    if not re.search(r"const\s+SELF_CLOSING\s*:\s*bool\s*=\s*true\s*;\s*const\s+ESCAPE_CHILDREN\s*:\s*bool\s*=\s*\$escape\s*;", src) or \
       not re.search(r"const\s+SELF_CLOSING\s*:\s*bool\s*=\s*false\s*;\s*const\s+ESCAPE_CHILDREN\s*:\s*bool\s*=\s*\$escape\s*;", src):
        raise ExtractError("elements.rs: SELF_CLOSING / ESCAPE_CHILDREN are no longer set as `true|false` / `$escape`")
    tags = [t for t, _, _ in rows]
    if len(set(tags)) != len(tags):
        raise ExtractError("elements.rs: duplicate tag rows")
    custom = strip_rust_comments(read_repo("tachys/src/html/element/custom.rs"))
    if not re.search(r"const\s+SELF_CLOSING\s*:\s*bool\s*=\s*false\s*;", custom) or \
       not re.search(r"const\s+ESCAPE_CHILDREN\s*:\s*bool\s*=\s*true\s*;", custom):
        raise ExtractError("custom.rs: custom elements are no longer (not self-closing, escaping)")
    mrel = "leptos_macro/src/view/mod.rs"
    msrc = strip_rust_comments(read_repo(mrel))
    fn = section(msrc, r"fn\s+is_self_closing\s*\(", "is_self_closing")
    m = re.search(r"\[\s*((?:\"[a-z0-9]+\"\s*,?\s*)+)\]\s*\.\s*binary_search", fn)
    if not m:
        raise ExtractError("is_self_closing: literal list not found")
    macro_void = re.findall(r"\"([a-z0-9]+)\"", m.group(1))
    noesc = re.findall(r"let\s+escape\s*=\s*((?:el_name\s*!=\s*\"[a-z]+\"\s*(?:&&)?\s*)+);", msrc)
    if not noesc:
        raise ExtractError("leptos_macro: `let escape = el_name != …` not found")
    lists = [re.findall(r"\"([a-z]+)\"", x) for x in noesc]
    if any(l != lists[0] for l in lists):
        raise ExtractError("leptos_macro: the no-escape lists differ between sites: %r" % lists)
    out = []
    out.append("/-! GENERATED by /verif/extract.py Elements from %s and %s — do not edit.\n\n" % (rel, mrel))
    out.append("`rows`: (tag, SELF_CLOSING, ESCAPE_CHILDREN) of every element of elements.rs, in source order\n"
               "(custom elements: not self-closing, escaping — checked by the extractor);\n"
               "`macroSelfClosing`: the list in `is_self_closing`; `macroNoEscape`: the tags the `view!` macro\n"
               "excludes from escaping (%d sites, identical). -/\n" % len(lists))
    out.append("namespace Leptos.Gen.Elements\n\n")
    out.append("def rows : List (List Char × Bool × Bool) := %s\n\n" % lean_list(
        ["(%s, %s, %s)" % (_lean_char_list(t), "true" if v else "false", "true" if e else "false") for t, v, e in rows]))
    out.append("def macroSelfClosing : List (List Char) := %s\n\n" % lean_list([_lean_char_list(t) for t in macro_void]))
    out.append("def macroNoEscape : List (List Char) := %s\n\n" % lean_list([_lean_char_list(t) for t in lists[0]]))
    out.append("end Leptos.Gen.Elements\n")
    return "".join(out)


# ----------------------------------------------------------------- Base64 (C12)

def base64_engines():
    """leptos_server/src/lib.rs: the base64 engine used by `IntoEncodedString for Vec<u8>` (server) and by
    `FromEncodedStr for [u8]` (client) — the text form of every binary codec — resolved to the alphabet
    and padding configuration the `base64` crate (version pinned in Cargo.lock) defines for that engine."""
    import glob
    rel = "leptos_server/src/lib.rs"
    src = strip_rust_comments(read_repo(rel))
    enc_impl = section(src, r"impl\s+IntoEncodedString\s+for\s+Vec\s*<\s*u8\s*>\s*\{", "impl IntoEncodedString for Vec<u8>")
    dec_impl = section(src, r"impl\s+FromEncodedStr\s+for\s+\[\s*u8\s*\]\s*\{", "impl FromEncodedStr for [u8]")
    m_enc = re.findall(r"\b([A-Z][A-Z0-9_]*)\s*\.\s*encode\s*\(\s*self\s*\)", enc_impl)
    m_dec = re.findall(r"\b([A-Z][A-Z0-9_]*)\s*\.\s*decode\s*\(\s*data\s*\)", dec_impl)
    if len(m_enc) != 1 or len(m_dec) != 1:
        raise ExtractError("expected exactly one `<ENGINE>.encode(self)` / `<ENGINE>.decode(data)`, found %r / %r" % (m_enc, m_dec))
    if len(re.findall(r"=>|\bif\b|\bmatch\b", enc_impl + dec_impl)) != 0:
        raise ExtractError("the Vec<u8>/[u8] impls are no longer a single engine call")
    # the crate version leptos_server is locked to
    lock = read_repo("Cargo.lock")
    versions = re.findall(r'name = "base64"\nversion = "([^"]+)"', lock)
    req = re.search(r'^base64\s*=\s*"([^"]+)"', read_repo("leptos_server/Cargo.toml"), flags=re.M)
    if not req:
        raise ExtractError("leptos_server/Cargo.toml: no plain `base64 = \"x.y.z\"` requirement")
    want = [v for v in versions if v.split(".")[:2] == req.group(1).split(".")[:2]]
    if len(want) != 1:
        raise ExtractError("Cargo.lock: cannot single out the base64 version for requirement %s among %r" % (req.group(1), versions))
    dirs = glob.glob(os.path.expanduser("~/.cargo/registry/src/*/base64-%s" % want[0]))
    if len(dirs) != 1:
        raise ExtractError("base64-%s sources not found (or ambiguous) in the cargo registry: %r" % (want[0], dirs))
    def crate(relp):
        try:
            with open(os.path.join(dirs[0], relp), encoding="utf-8") as f:
                return strip_rust_comments(f.read())
        except OSError as e:
            raise ExtractError("cannot read base64 crate file %s: %s" % (relp, e))
    gp, alpha = crate("src/engine/general_purpose/mod.rs"), crate("src/alphabet.rs")

    def resolve(engine):
        m = re.search(r"pub\s+const\s+%s\s*:\s*GeneralPurpose\s*=\s*GeneralPurpose::new\s*\(\s*&alphabet::(\w+)\s*,\s*(\w+)\s*\)" % re.escape(engine), gp)
        if not m:
            raise ExtractError("base64: engine %s is not a `GeneralPurpose::new(&alphabet::X, CONFIG)` constant" % engine)
        a = re.search(r"pub\s+const\s+%s\s*:\s*Alphabet\s*=\s*Alphabet::from_str_unchecked\s*\(\s*\"([^\"\\]{64})\"\s*,?\s*\)" % re.escape(m.group(1)), alpha)
        if not a:
            raise ExtractError("base64: alphabet %s is not a 64-character literal" % m.group(1))
        cfg = re.search(r"pub\s+const\s+%s\s*:\s*GeneralPurposeConfig\s*=\s*GeneralPurposeConfig::new\s*\(\s*\)((?:\s*\.\s*\w+\s*\([^()]*\))*)\s*;" % re.escape(m.group(2)), gp)
        if not cfg:
            raise ExtractError("base64: config %s not found" % m.group(2))
        calls = re.findall(r"\.\s*(\w+)\s*\(\s*([^()]*?)\s*\)", cfg.group(1))
        # defaults of GeneralPurposeConfig::new(): padding written, canonical padding required, trailing bits rejected
        pad, mode, trailing = True, "RequireCanonical", False
        for name, arg in calls:
            if name == "with_encode_padding":
                pad = arg == "true"
            elif name == "with_decode_padding_mode":
                mode = arg.split("::")[-1]
            elif name == "with_decode_allow_trailing_bits":
                trailing = arg == "true"
            else:
                raise ExtractError("base64: unknown config call %s(%s)" % (name, arg))
        return a.group(1), pad, mode, trailing

    ea, epad, _, _ = resolve(m_enc[0])
    da, _, dmode, dtrail = resolve(m_dec[0])
    out = []
    out.append("/-! GENERATED by /verif/extract.py Base64 from %s and base64-%s — do not edit.\n\n" % (rel, want[0]))
    out.append("The engines behind `Vec<u8>::into_encoded_string` (server) and `<[u8]>::from_encoded_str` (client):\n"
               "their alphabets (64 code points each), whether the encoder writes padding, the decoder's padding mode\n"
               "and whether it tolerates non-zero trailing bits. -/\n")
    out.append("namespace Leptos.Gen.Base64\n\n")
    out.append("-- server: %s\n" % m_enc[0])
    out.append("def encodeEngine : List Nat := %s\n" % _nat_list(m_enc[0]))
    out.append("def encodeAlphabet : List Nat := %s\n" % _nat_list(ea))
    out.append("def encodePads : Bool := %s\n\n" % ("true" if epad else "false"))
    out.append("-- client: %s\n" % m_dec[0])
    out.append("def decodeEngine : List Nat := %s\n" % _nat_list(m_dec[0]))
    out.append("def decodeAlphabet : List Nat := %s\n" % _nat_list(da))
    out.append("def decodePaddingMode : List Nat := %s  -- %s\n" % (_nat_list(dmode), dmode))
    out.append("def decodeAllowsTrailingBits : Bool := %s\n\n" % ("true" if dtrail else "false"))
    out.append("end Leptos.Gen.Base64\n")
    return "".join(out)


# ----------------------------------------------------------------- ServerFnPath

def server_fn_path():
    """server_fn_macro/src/lib.rs `ServerFnCall::server_fn_url`: the pieces concatenated into `ServerFn::PATH`
    with and without an `endpoint`, the endpoint normalisation, the hash input; and the default prefix of
    server_fn_macro_default."""
    rel = "server_fn_macro/src/lib.rs"
    src = strip_rust_comments(read_repo(rel))
    fn = section(src, r"pub\s+fn\s+server_fn_url\s*\(\s*&self\s*\)\s*->\s*TokenStream2\s*\{", "server_fn_url")
    # endpoint normalisation: "/" + trim_start_matches('/')
    m = re.search(r'let\s+fn_path\s*=\s*"(/)"\.to_string\(\)\s*\+\s*fn_path\.trim_start_matches\(\s*\'(/)\'\s*\)\s*;', fn)
    if not m:
        raise ExtractError("server_fn_url: endpoint normalisation `\"/\".to_string() + fn_path.trim_start_matches('/')` not found")
    # prefix default: args.prefix or default_path
    if not re.search(r"self\.args\.prefix\.clone\(\)\.unwrap_or_else\(\s*\|\|\s*\{?\s*LitStr::new\(\s*default_path\s*,", fn):
        raise ExtractError("server_fn_url: `prefix` no longer defaults to `default_path`")
    # mod path is empty unless SERVER_FN_MOD_PATH is set
    if not re.search(r'option_env!\(\s*"SERVER_FN_MOD_PATH"\s*\)\.is_some\(\)', fn) or not re.search(r'else\s*\{\s*quote!\s*\{\s*""\s*\}\s*\}', fn):
        raise ExtractError("server_fn_url: module-path component changed")
    # hash = xxh64(concat!(env!(KEY), ":", module_path!()), 0) unless DISABLE_SERVER_FN_HASH
    mh = re.search(r"const_xxh64::xxh64\(\s*concat!\(\s*env!\(\s*#key_env_var\s*\)\s*,\s*\"(.)\"\s*,\s*module_path!\(\)\s*\)\.as_bytes\(\)\s*,\s*(\d+)\s*\)", fn)
    if not mh:
        raise ExtractError("server_fn_url: hash expression changed")
    mk = re.search(r'Some\(_\)\s*=>\s*"SERVER_FN_OVERRIDE_KEY"\s*,\s*None\s*=>\s*"(\w+)"', fn)
    if not mk:
        raise ExtractError("server_fn_url: hash key variable changed")
    # the two concatcp! calls
    calls = re.findall(r"const_format::concatcp!\(([^()]*)\)", fn.split("let fn_name_as_str")[1] if "let fn_name_as_str" in fn else "")
    if len(calls) != 2:
        raise ExtractError("server_fn_url: expected two concatcp! calls after fn_name_as_str, found %d" % len(calls))
    def parts(c):
        out = []
        for a in c.split(","):
            a = a.strip()
            if not a:
                continue
            mm = re.fullmatch(r"#(\w+)", a)
            ml = re.fullmatch(r'"([^"\\]*)"', a)
            if mm:
                out.append(("var", mm.group(1)))
            elif ml:
                out.append(("lit", ml.group(1)))
            else:
                raise ExtractError("server_fn_url: unexpected concatcp! argument %r" % a)
        return out
    with_ep, without_ep = parts(calls[0]), parts(calls[1])
    if not re.search(r"if\s+let\s+Some\(fn_path\)\s*=\s*fn_path\s*\{", fn):
        raise ExtractError("server_fn_url: the endpoint branch changed")
    known = {"prefix", "mod_path", "fn_path", "fn_name_as_str", "hash"}
    for k, v in with_ep + without_ep:
        if k == "var" and v not in known:
            raise ExtractError("server_fn_url: unknown component #%s" % v)
    d = strip_rust_comments(read_repo("server_fn/server_fn_macro_default/src/lib.rs"))
    md = re.search(r'option_env!\(\s*"SERVER_FN_PREFIX"\s*\)\.unwrap_or\(\s*"([^"\\]*)"\s*\)', d)
    if not md:
        raise ExtractError("server_fn_macro_default: default prefix not found")
    def lean_parts(ps):
        return lean_list(["(%s, %s)" % ("true" if k == "lit" else "false", lean_chars(v)) for k, v in ps])
    out = []
    out.append("/-! GENERATED by /verif/extract.py ServerFnPath from %s — do not edit.\n" % rel)
    out.append("`ServerFn::PATH` as `ServerFnCall::server_fn_url` builds it: the arguments of the two `concatcp!` calls in\n"
               "order, `(isLiteral, text-or-component-name)`; `fn_path` is the endpoint after normalisation\n"
               "(`endpointLead` + the endpoint without leading `endpointTrim`), `mod_path` is empty (SERVER_FN_MOD_PATH unset),\n"
               "`hash` is the decimal xxh64 (seed `hashSeed`) of `env!(hashKeyVar) ++ hashSep ++ module_path!()`. -/\n")
    out.append("namespace Leptos.Gen.ServerFnPath\n\n")
    out.append("def defaultPrefix : List Char := %s\n\n" % lean_chars(md.group(1)))
    out.append("def endpointLead : List Char := %s\n\n" % lean_chars(m.group(1)))
    out.append("def endpointTrim : Char := '%s'\n\n" % m.group(2))
    out.append("def hashKeyVar : List Char := %s\n\n" % lean_chars(mk.group(1)))
    out.append("def hashSep : Char := '%s'\n\n" % mh.group(1))
    out.append("def hashSeed : Nat := %s\n\n" % mh.group(2))
    out.append("/-- with an `endpoint = \"…\"` argument -/\n")
    out.append("def withEndpoint : List (Bool × List Char) := %s\n\n" % lean_parts(with_ep))
    out.append("/-- without: function name and hash -/\n")
    out.append("def withoutEndpoint : List (Bool × List Char) := %s\n\n" % lean_parts(without_ep))
    out.append("end Leptos.Gen.ServerFnPath\n")
    return "".join(out)


# ----------------------------------------------------------------- registry

TABLES = {
    "ErrorKinds": error_kinds,
    "ServerFnPath": server_fn_path,
    "Transfer": transfer,
    "Base64": base64_engines,
    "EscapeTables": escape_tables,
    "Elements": elements,
}


def write_if_changed(path, text):
    try:
        with open(path, encoding="utf-8") as f:
            if f.read() == text:
                return False
    except OSError:
        pass
    os.makedirs(os.path.dirname(path), exist_ok=True)
    tmp = path + ".tmp"
    with open(tmp, "w", encoding="utf-8") as f:
        f.write(text)
    os.replace(tmp, path)
    return True


def main(argv):
    if not argv or argv[0] in ("-h", "--help"):
        print(__doc__)
        return 2
    if argv[0] == "--list":
        print("\n".join(sorted(TABLES)))
        return 0
    rc = 0
    for name in argv:
        fn = TABLES.get(name)
        if fn is None:
            print("extract: unknown table %s (known: %s)" % (name, ", ".join(sorted(TABLES))), file=sys.stderr)
            rc = 2
            continue
        path = os.path.join(GEN_DIR, name + ".lean")
        try:
            text = fn()
        except ExtractError as e:
            print("extract:%s FAILED: %s" % (name, e), file=sys.stderr)
            # leave a file that cannot be mistaken for a fresh table
            rc = 1
            continue
        changed = write_if_changed(path, text)
        print("extract:%s ok (%s)" % (name, "rewritten" if changed else "unchanged"))
    return rc


if __name__ == "__main__":
    sys.exit(main(sys.argv[1:]))
