#!/usr/bin/env python3
"""Small source extractors (DESIGN §4.2): table-shaped facts of /repo rewritten as Lean data.

    python3 extract.py <Table> [<Table> ...]     regenerate lean/LeptosModel/Gen/<Table>.lean
    python3 extract.py --list                    names of the known tables

Every extractor is a function `() -> str` returning the full text of the generated Lean file;
it must raise `ExtractError` whenever one of its regexes stops matching the source (the run then
reports `extract:<Table>` as no longer shown — never as passing).  To add a table: write a
function and register it in `TABLES`.  The file is only rewritten when its content changes, so
an unchanged /repo does not trigger a Lean rebuild.
"""
import os
import re
import sys

REPO = os.environ.get("LEPTOS_REPO", "/repo")
HERE = os.path.dirname(os.path.abspath(__file__))
GEN_DIR = os.path.join(HERE, "lean", "LeptosModel", "Gen")


class ExtractError(Exception):
    pass


# ----------------------------------------------------------------- helpers

def read_repo(rel):
    path = os.path.join(REPO, rel)
    try:
        with open(path, encoding="utf-8") as f:
            return f.read()
    except OSError as e:
        raise ExtractError("cannot read %s: %s" % (path, e))


def strip_rust_comments(src):
    """remove // line comments and /* */ block comments (string literals in the
    extracted regions never contain `//`)"""
    src = re.sub(r"/\*.*?\*/", "", src, flags=re.S)
    return re.sub(r"//[^\n]*", "", src)


def section(src, start_re, what):
    """text of the item starting at the first match of `start_re` up to the matching
    closing brace of its first `{`"""
    m = re.search(start_re, src)
    if not m:
        raise ExtractError("%s: start pattern /%s/ not found" % (what, start_re))
    i = src.find("{", m.end() - 1 if src[m.end() - 1] == "{" else m.end())
    if i < 0:
        raise ExtractError("%s: no opening brace" % what)
    depth, j, in_str = 0, i, False
    while j < len(src):
        c = src[j]
        if in_str:
            if c == "\\":
                j += 1
            elif c == '"':
                in_str = False
        elif c == '"':
            in_str = True
        elif c == "'" and j + 2 < len(src) and src[j + 2] == "'":
            j += 2  # char literal such as '|' or '{'
        elif c == "{":
            depth += 1
        elif c == "}":
            depth -= 1
            if depth == 0:
                return src[i:j + 1]
        j += 1
    raise ExtractError("%s: unbalanced braces" % what)


def lean_chars(s):
    """a Rust string literal body (no escapes allowed) as a Lean `List Char` term"""
    if "\\" in s or '"' in s:
        raise ExtractError("string literal %r contains an escape; extend lean_chars" % s)
    return '"%s".toList' % s


def lean_list(items, indent="  "):
    if not items:
        return "[]"
    return "[\n" + ",\n".join(indent + "  " + it for it in items) + "\n" + indent + "]"


# ----------------------------------------------------------------- ErrorKinds

def error_kinds():
    """server_fn/src/error.rs: the match arms of `ServerFnErrorEncoding::{encode, decode}`
    and the variants of `enum ServerFnError`."""
    rel = "server_fn/src/error.rs"
    src = strip_rust_comments(read_repo(rel))

    # -- enum ServerFnError<E = NoCustomError> { Variant(Payload), ... }
    enum = section(src, r"pub\s+enum\s+ServerFnError\s*<[^>]*>\s*\{", "enum ServerFnError")
    body = re.sub(r"#\[[^\]]*\]", "", enum[1:-1], flags=re.S)   # drop attributes
    variants = re.findall(r"\b([A-Z]\w*)\s*\(\s*(\w+)\s*\)\s*,", body)
    leftovers = re.sub(r"\b[A-Z]\w*\s*\(\s*\w+\s*\)\s*,", "", body).strip()
    if not variants or leftovers:
        raise ExtractError("enum ServerFnError: unexpected variant syntax near %r" % leftovers[:80])
    for _, payload in variants:
        if payload not in ("String", "E"):
            raise ExtractError("enum ServerFnError: unexpected payload type %s" % payload)

    # -- encode arms
    enc_impl = section(src, r"impl\s*<\s*CustErr\s*>\s*Encodes\s*<\s*ServerFnError\s*<\s*CustErr\s*>\s*>\s*for\s+ServerFnErrorEncoding\b[^{]*\{",
                       "impl Encodes for ServerFnErrorEncoding")
    enc_fn = section(enc_impl, r"fn\s+encode\s*\(", "ServerFnErrorEncoding::encode")
    enc_match = section(enc_fn, r"match\s+output\s*\{", "encode: match output")
    arm_re = re.compile(
        r"ServerFnError::(\w+)\s*\(\s*(\w+)\s*\)\s*=>\s*\{?\s*"
        r"write!\s*\(\s*&mut\s+buf\s*,\s*\"([^\"{}|\\]*)(.)\{\2\}\"\s*,?\s*\)\s*\}?\s*,?")
    enc_arms = [(m.group(1), m.group(3), m.group(4)) for m in arm_re.finditer(enc_match)]
    rest = arm_re.sub("", enc_match[1:-1]).strip()
    if not enc_arms or rest:
        raise ExtractError("encode: an arm is not of the form `ServerFnError::V(e) => write!(&mut buf, \"Prefix|{e}\")`: %r" % rest[:120])
    seps = {a[2] for a in enc_arms}
    if len(seps) != 1:
        raise ExtractError("encode: arms use different separators %r" % sorted(seps))
    sep = seps.pop()
    if set(v for v, _ in variants) != set(a[0] for a in enc_arms) or len(enc_arms) != len(variants):
        raise ExtractError("encode: arms %r do not cover the enum variants %r exactly once" % (
            [a[0] for a in enc_arms], [v for v, _ in variants]))

    # -- decode arms
    dec_impl = section(src, r"impl\s*<\s*CustErr\s*>\s*Decodes\s*<\s*ServerFnError\s*<\s*CustErr\s*>\s*>\s*for\s+ServerFnErrorEncoding\b[^{]*\{",
                       "impl Decodes for ServerFnErrorEncoding")
    dec_fn = section(dec_impl, r"fn\s+decode\s*\(", "ServerFnErrorEncoding::decode")
    msplit = re.search(r"\bdata\s*\.\s*(\w+)\s*\(\s*'(.)'\s*\)", dec_fn)
    if not msplit or msplit.group(1) != "split_once":
        raise ExtractError("decode: expected `data.split_once('<sep>')`, found %r" % (msplit.group(0) if msplit else None))
    if msplit.group(2) != sep:
        raise ExtractError("decode: splits at %r but encode writes %r" % (msplit.group(2), sep))
    dec_match = section(dec_fn, r"match\s+ty\s*\{", "decode: match ty")
    plain_re = re.compile(
        r"\"([^\"\\]*)\"\s*=>\s*\{?\s*Ok\s*\(\s*ServerFnError::(\w+)\s*\(\s*data\s*\.\s*to_string\s*\(\s*\)\s*\)\s*\)\s*\}?\s*,?")
    cust_re = re.compile(
        r"\"([^\"\\]*)\"\s*=>\s*\{?\s*CustErr::from_str\s*\(\s*data\s*\)\s*\.\s*map\s*\(\s*ServerFnError::(\w+)\s*\)"
        r"\s*\.\s*map_err\s*\(\s*\|_\|\s*\{\s*format!\s*\(\s*\"Failed to parse CustErr from \{data:\?\}\"\s*\)\s*\}\s*\)\s*\}?\s*,?")
    fallback_re = re.compile(r"_\s*=>\s*Err\s*\(\s*format!\s*\(\s*\"Unknown error type: \{ty\}\"\s*\)\s*\)\s*,?")
    dec_arms = []
    for m in re.finditer(r"\"([^\"\\]*)\"\s*=>", dec_match):
        pm = plain_re.match(dec_match, m.start())
        cm = cust_re.match(dec_match, m.start())
        if pm:
            dec_arms.append((pm.group(1), pm.group(2), False))
        elif cm:
            dec_arms.append((cm.group(1), cm.group(2), True))
        else:
            raise ExtractError("decode: arm for %r has an unexpected right-hand side" % m.group(1))
    rest = fallback_re.sub("", cust_re.sub("", plain_re.sub("", dec_match[1:-1]))).strip()
    if not dec_arms or rest or not fallback_re.search(dec_match):
        raise ExtractError("decode: unexpected arm syntax / missing `_ => Err(\"Unknown error type\")` arm: %r" % rest[:120])
    if "Invalid format: missing delimiter in {data:?}" not in dec_fn or "UTF-8 conversion error: {}" not in dec_fn:
        raise ExtractError("decode: the missing-delimiter / UTF-8 error messages changed")
    payload = dict(variants)
    for prefix, var, custom in dec_arms:
        if var not in payload:
            raise ExtractError("decode: unknown variant %s" % var)
        if custom != (payload[var] == "E"):
            raise ExtractError("decode: variant %s payload %s decoded with the wrong constructor form" % (var, payload[var]))

    out = []
    out.append("/-! GENERATED by /verif/extract.py ErrorKinds from %s — do not edit.\n" % rel)
    out.append("The `(variant, prefix)` pairs of the `encode` arms and the `(prefix, variant, custom)` triples of\n"
               "the `decode` arms of `ServerFnErrorEncoding`, in source order; `custom = true` marks the arm that\n"
               "goes through `CustErr::from_str`.  `separator` is the character written between prefix and\n"
               "message by every `encode` arm and searched by `data.split_once` in `decode`. -/\n")
    out.append("namespace Leptos.Gen.ErrorKinds\n\n")
    out.append("def separator : Char := '%s'\n\n" % sep)
    out.append("/-- `enum ServerFnError`: (variant, payload is the custom type `E`) -/\n")
    out.append("def variants : List (List Char × Bool) := %s\n\n" % lean_list(
        ["(%s, %s)" % (lean_chars(v), "true" if p == "E" else "false") for v, p in variants]))
    out.append("/-- `ServerFnErrorEncoding::encode`: (variant, prefix) -/\n")
    out.append("def encodeArms : List (List Char × List Char) := %s\n\n" % lean_list(
        ["(%s, %s)" % (lean_chars(v), lean_chars(p)) for v, p, _ in enc_arms]))
    out.append("/-- `ServerFnErrorEncoding::decode`: (prefix, variant, parsed with `CustErr::from_str`) -/\n")
    out.append("def decodeArms : List (List Char × List Char × Bool) := %s\n\n" % lean_list(
        ["(%s, %s, %s)" % (lean_chars(p), lean_chars(v), "true" if c else "false") for p, v, c in dec_arms]))
    out.append("end Leptos.Gen.ErrorKinds\n")
    return "".join(out)


# ----------------------------------------------------------------- registry

TABLES = {
    "ErrorKinds": error_kinds,
}


def write_if_changed(path, text):
    try:
        with open(path, encoding="utf-8") as f:
            if f.read() == text:
                return False
    except OSError:
        pass
    os.makedirs(os.path.dirname(path), exist_ok=True)
    tmp = path + ".tmp"
    with open(tmp, "w", encoding="utf-8") as f:
        f.write(text)
    os.replace(tmp, path)
    return True


def main(argv):
    if not argv or argv[0] in ("-h", "--help"):
        print(__doc__)
        return 2
    if argv[0] == "--list":
        print("\n".join(sorted(TABLES)))
        return 0
    rc = 0
    for name in argv:
        fn = TABLES.get(name)
        if fn is None:
            print("extract: unknown table %s (known: %s)" % (name, ", ".join(sorted(TABLES))), file=sys.stderr)
            rc = 2
            continue
        path = os.path.join(GEN_DIR, name + ".lean")
        try:
            text = fn()
        except ExtractError as e:
            print("extract:%s FAILED: %s" % (name, e), file=sys.stderr)
            # leave a file that cannot be mistaken for a fresh table
            rc = 1
            continue
        changed = write_if_changed(path, text)
        print("extract:%s ok (%s)" % (name, "rewritten" if changed else "unchanged"))
    return rc


if __name__ == "__main__":
    sys.exit(main(sys.argv[1:]))
