CFG = {
    "id": "C12",
    "lean_theorems": "LeptosModel.Theorems.C12",
    "lean_exe": "lm_c12",
    "extract": ["Transfer", "Base64"],
    "theorems": [
        # round trip js_string -> JS string literal: FULL (every string, every site, every Unicode table)
        "Leptos.Transfer.C12_roundtrip",
        "Leptos.Transfer.jsStrLit_jsString",
        "Leptos.Transfer.jsString_eq",
        "Leptos.Transfer.C12_regression_inputs_roundtrip",
        "Leptos.Transfer.C12_nul_8_9_fine",
        # script text is inert: FULL (every chunk, error messages included)
        "Leptos.Transfer.C12_script_inert",
        "Leptos.Transfer.C12_initial_chunk_inert",
        "Leptos.Transfer.C12_incomplete_chunk_inert",
        "Leptos.Transfer.C12_every_polled_chunk_inert",
        # regression witnesses: what the code did before the repair (…Old printers)
        "Leptos.Transfer.C12_nul_digit_witness",
        "Leptos.Transfer.C12_lt_witness",
        "Leptos.Transfer.C12_error_markup_witness",
        "Leptos.Transfer.C12_old_roundtrip_full_false",
        "Leptos.Transfer.C12_old_script_inert_full_false",
        "Leptos.Transfer.C12_old_roundtrip_partial",
        # id counters
        "Leptos.Transfer.C12_ids_align",
        "Leptos.Transfer.C12_ids_no_collision",
        "Leptos.Transfer.C12_ids_align_same_program_partial",
        "Leptos.Transfer.C12_ids_same_program_full_false",
        # each value exactly once, any completion order
        "Leptos.Transfer.C12_each_once",
        "Leptos.Transfer.C12_each_once_at_end",
        "Leptos.Transfer.C12_emitted_as_written",
        "Leptos.Transfer.poll_emits_text",
        # the chunk evaluated as JavaScript: every value under its id, every error, pending and incomplete ids
        "Leptos.Transfer.C12_chunk_transfer",
        "Leptos.Transfer.C12_chunk_transfer_data",
        "Leptos.Transfer.C12_initial_chunk_transfer",
        "Leptos.Transfer.C12_incomplete_chunk_transfer",
        "Leptos.Transfer.C12_read_back_single",
        "Leptos.Transfer.parseNat_decDigits",
        # codec layer: text form of a value decodes to the value (empty included); base64 engines tied to the source
        "Leptos.Transfer.b64_roundtrip",
        "Leptos.Transfer.C12_bytes_roundtrip",
        "Leptos.Transfer.C12_str_codec_roundtrip",
        "Leptos.Transfer.C12_empty_value_arrives",
        "Leptos.Transfer.C12_base64_matches_source",
        "Leptos.Transfer.b64_urlsafe_differs",
        # the other server exit: consume_buffers pairs ids with values for every completion order
        "Leptos.Transfer.C12_consume_pairs",
        "Leptos.Transfer.consumeRun_view",
        # carriers created after hydration / on a CSR page read nothing that was transferred
        "Leptos.Transfer.C12_post_hydration_reads_nothing",
        "Leptos.Transfer.cliRun_bounds",
        # the error channel keeps the multiset of registered errors; blocking does not touch serialization
        "Leptos.Transfer.C12_errors_preserved",
        "Leptos.Transfer.start_prints_errors",
        "Leptos.Transfer.C12_blocking_irrelevant",
        "Leptos.Transfer.C12_carrier_serialized_iff_hydrating",
        # nested creation: ids in creation-start order on both sides
        "Leptos.Transfer.C12_ids_in_creation_start_order",
        # JSON codec end to end
        "Leptos.Transfer.C12_json_string_roundtrip",
        "Leptos.Transfer.jsonStrDecode_encode",
        # tie to the source (regenerated table: helper rewrites, the four sites, no stray {:?} / .replace)
        "Leptos.Transfer.C12_sites_match_source",
        "Leptos.Transfer.C12_dataStmt_is_format",
        "Leptos.Transfer.C12_errPushStmt_is_format",
        "Leptos.Transfer.C12_errTuple_is_format",
        "Leptos.Transfer.C12_syncEntry_is_format",
    ],
    "harness_pkg": "hx-c12",
    "harness_bin": "c12",
    "n": {"quick": 8000, "thorough": 400000},
    "trivial_tags": ["plain", "alnum", "str", "stream", "lit-data", "lit-error", "error", "json"],
    "rule": "seeded generator: (a) sessions on the real SsrSharedContext (behind a forwarding spy) with 1-5 values; every value is a "
            "(kind, carrier) pair: kinds = String/FromToStringCodec, String/JsonSerdeCodec, serde_json::Value/JsonSerdeCodec, String/SerdeLite, "
            "String/MiniserdeCodec, Vec<u8>/custom binary codec, String and i64/RkyvCodec (binary kinds travel as base64; byte payloads include all 64 "
            "sextets, 0xfb/0xff bytes, empty, </script> U+2028 NUL); carriers = write_async by hand, the REAL ArcResource / Resource / ArcOnceResource / "
            "OnceResource / SharedValue, each built through the constructor leptos_server names for the codec and, for the four resource carriers, also through its "
            "`*_blocking` twin and ArcResource / Resource / SharedValue also as NESTED carriers whose fetcher / initialiser synchronously creates an inner SharedValue "
            "before returning (depth-2 creation; a nesting SharedValue mostly as the page's last carrier, in a small share followed by more carriers = known finding F-C12-4) (loads completed by the schedule ops on a controlled executor; oracle at creation: the value is handed to write_async exactly when the "
            "flag is on); the error channel: 1-3 boundaries, a pool of three texts per case so that different errors with the same text in one boundary are common, bursts of "
            "1-3 errors before pending_data(), between chunks and after the last value, seal_errors, "
            "incomplete chunks, is_hydrating toggles, islands mode; every completion order when <= 4 values are pending (1 session in 4) else a random "
            "order; the server exit is the pending_data() stream (3 in 4) or consume_buffers() (1 in 4), both polled by hand; every session ends with "
            "`hydrate`: the same carriers are created again, in the same order, on a client whose shared context serves ids from the real "
            "HydrateSharedContext and read_data from what the browser twin evaluated out of the real script text (or from the consume_buffers pairs) "
            "-- oracle: every client carrier starts with the server's value and no client-side load runs; then 0-3 further carriers are created on the client at "
            "another moment (`client post`: on the hydrated page after hydration_complete(), its data still readable; `client csr`: under the real CsrSharedContext), half of "
            "them with a (kind, value) of the page -- oracle: they look up no id that has transferred data, start empty and run their own loader; (b) single-literal sessions `lit d|e`, `jsonenc`; "
            "(c) id programs over {next_id, set_is_hydrating}: exhaustive up to length 5 for both constructors plus random longer ones; (d) browser-twin-only "
            "ops (`js`, `tok`). Strings: atoms < > / ! - \" ' \\ NUL digits U+2028 U+2029 U+FEFF </script <!-- <script --> \\u003c ... and arbitrary code "
            "points of the documented alphabet; 1 value in 8 is empty. distinct = distinct op lines of the case; non-trivial = a case with a tag beyond the bare op kinds.",
    "trusted": [
        "the browser is modelled, not run: ECMA-262 string literals (sloppy mode, Annex B legacy octal) and the WHATWG script-data "
        "tokenizer states, written twice from the specifications (Lean model, Rust twin) and compared on every run; both were "
        "cross-checked once against V8 (4000 random literals) and Chrome 147 (3000 random script texts)",
        "rustc's Unicode tables behind char::escape_debug (is_printable, Grapheme_Extend): abstract predicates in the theorems "
        "(proved for every instantiation); the model driver instantiates them on a documented alphabet that the generator "
        "re-validates against the running toolchain's {:?}",
        "futures::stream::{once, Chain} (modelled: Chain polls its second stream in the same poll_next call in which the first ends)",
        "serde_json / codee (JsonSerdeCodec, SerdeLite, MiniserdeCodec, RkyvCodec) / rkyv / miniserde / serde-lite: the codecs themselves are run, not modelled "
        "(the model takes their encoded form from the op and checks the real encoder reproduces it); base64 crate: modelled (b64Enc/b64Dec), alphabet and "
        "padding configuration extracted from the pinned crate source",
        "reactive_graph (Owner, ArcAsyncDerived) and hx_common::sched as the executor under the real resources",
        "extract.py Base64 (regexes over leptos_server/src/lib.rs and the base64 crate in the cargo registry; fails closed)",
        "extract.py Transfer (regexes over hydration_context/src/ssr.rs; fails closed)",
    ],
    "modelled": [
        "<str as Debug>::fmt / char::escape_debug_ext / EscapeUnicode",
        "SsrSharedContext::{next_id, write_async, register_error, seal_errors, set_incomplete_chunk, pending_data}, AsyncDataStream::poll_next, ResolvedData::write_to_buf",
        "HydrateSharedContext::next_id (native build of the browser feature)",
        "SsrSharedContext::consume_buffers; leptos_server IntoEncodedString/FromEncodedStr (String identity, Vec<u8> base64)",
        "CsrSharedContext (real, behind a recording wrapper); carriers created after hydration_complete(): ids continue the hydration counter",
        "the client-side initial_value path of ArcResource/Resource/ArcOnceResource/OnceResource and SharedValue::new_with_encoding, observed on the real types (status ok/wrong/none + load count), predicted by the model from the transferred map",
        "integrations/utils build_response: <script>{chunk}</script> (no nonce)",
        "ECMAScript StringLiteral evaluation; array/assignment/push statements; WHATWG tokenizer script-data states",
    ],
    "assumptions": [
        "once-resources take a ready-made future and have no synchronous initialiser to nest in (nested creation is exercised for ArcResource / Resource fetchers and SharedValue initialisers)",
        "C12_ids_in_creation_start_order assumes the client runs the same initialisers as the server; a hydrating client that finds a SharedValue's data does not run its "
        "initialiser: pages on which such an initialiser creates a serialized carrier and more carriers follow are the known finding F-C12-4 (class nested-sharedvalue-id-shift), "
        "generated in a small share of cases (a nesting SharedValue is otherwise placed last on the page) and reproduced by the model",
        "classic (sloppy-mode) inline scripts, as build_response emits them (the repaired literal uses only \\uXXXX, \\u{…}, \\t \\r \\n \\\\ \\\" and is valid in strict mode too)",
        "ids below 2^53 on the JavaScript side (numbers are kept exact in the model)",
        "the client executes exactly the creations the server made while is_hydrating was on (islands: island bodies; island children are server-only) — C12_ids_align is stated for that discipline; C12_ids_same_program_full_false records that HydrateSharedContext::next_id ignores the flag",
        "write_async / register_error after the data stream has ended are outside the property (integrations call pending_data after the app stream is complete); the harness tags them `late` and the oracle skips them",
        "the sync site ResolvedData::write_to_buf is unreachable (sync_buf is never written); it is modelled and proved inert but cannot be exercised on the real code",
    ],
    "manifest": {
        "category": "proof",
        "text": "Lean 4 theorems over all strings and all instantiations of rustc's Unicode tables, about the repaired emission (fix: js_string in "
                "hydration_context/src/ssr.rs): js_string followed by ECMAScript string-literal decoding is the identity for EVERY string at every site "
                "(C12_roundtrip, full), lifted to whole chunks (a small JS evaluator assigns every value under its id; first and last chunk included) and through "
                "the JSON codec; EVERY chunk, error messages included, contains no '<' and is inert for the WHATWG tokenizer (C12_script_inert, full); the three "
                "defects of the old printers (F-C12-1 nul-octal, F-C12-2 error-markup, F-C12-3 lt-rewritten) stay as kernel-checked regression witnesses; server and "
                "client id counters align for every creation program; every written value is emitted exactly once for every completion order; the model's printers "
                "and the helper's rewrites are tied to ssr.rs by a regenerated table (no {:?} outside the helper); all tied to the code by a differential run of the "
                "real SsrSharedContext/HydrateSharedContext against the compiled model",
        "design_ref": "DESIGN.md §7 C12",
        "note": "model hand-written, faithfulness checked by correspondence on generated inputs; browser behaviour modelled from the specs (cross-checked once against V8/Chrome)",
        "technique": "Lean 4 proof (induction over strings / op traces) + refutation witnesses + extracted source table + differential correspondence",
    },
}
