import json, os

CFG = {
    "id": "C20",
    "lean_theorems": "LeptosModel.Theorems.C20",
    "lean_exe": "lm_c20",
    "theorems": [
        "Leptos.Ambient.C20_wrapped_isolated",
        "Leptos.Ambient.C20_wrapped_isolated_ready",
        "Leptos.Ambient.C20_with_restores",
        "Leptos.Ambient.C20_drop_frame",
        "Leptos.Ambient.C20_drop_frame_run",
        "Leptos.Ambient.C20_sandboxed_arena",
        "Leptos.Ambient.C20_unwrapped_leaks_witness",
        "Leptos.Ambient.C20_unguarded_rerun_witness",
        "Leptos.Ambient.C20_unsandboxed_stream_witness",
        "Leptos.Ambient.C20_owner_already_current",
        "Leptos.Ambient.C20_owner_current_witness",
        "Leptos.Ambient.C20_assembly_witness",
        "Leptos.Ambient.C20_none_stays_none",
        "Leptos.Ambient.C20_cleanup_arena_witness",
        "Leptos.Ambient.C20_memo_rerun_witness",
        "Leptos.Ambient.runSteps_cleanup",
        "Leptos.Ambient.poll_core",
        "Leptos.Ambient.runSteps_guarded",
        "Leptos.Ambient.pollTask_arena",
        "Leptos.Ambient.C20_isolated_full_false",
        "Leptos.Ambient.view_run",
        "Leptos.Ambient.pollTask_spec",
        "Leptos.Ambient.runSteps_spec",
        "Leptos.Ambient.tasksOkB_iff",
    ],
    "harness_pkg": "hx-c20",
    "harness_bin": "c20",
    "n": {"quick": 20000, "thorough": 300000},
    "exhaustive": {"quick": False, "thorough": False},
    "trivial_tags": ["plain", "in-order", "ooo", "for", "provider", "router", "effect"],
    "rule": "pairs (70%) and triples (30%) of view programs over leaf / eager leaf / on_cleanup / Provider / Suspend(gate) / Suspense / "
            "Resource(gate) / OnceResource, ArcOnceResource, blocking and Arc resources, AsyncDerived, ArcAsyncDerived, LocalResource / spawn_local_scoped task / "
            "Action dispatched while rendering / Effect::new_isomorphic / a Resource SOURCE function and a plain memo (own scope) whose body reads context, re-evaluated after their signal changed "
            "(by the resource task at the executor's top level; by a bare handler-side future) / on_cleanup functions reading an arena handle run WITHOUT a drop (Owner::cleanup(), memo re-run) from the "
            "handler's top level while the other request's arena is current / Resource, ArcResource, AsyncDerived, ArcAsyncDerived whose fetcher RE-RUNS (source set in the same render = before the task's first poll, "
            "set later, refetch()) reporting in its sync part, async part and after its await / bodies behind both Sandboxed entry points (a user stream chained behind the app stream inside the response body's "
            "Sandboxed = Stream::poll_next; reactive_graph::spawn tasks = Future::poll) reading arena handles with and without an owner entered / arena items (RwSignal, StoredValue) allocated in a child owner and read after a later await / "
            "For / fragment (every async leaf's future reports AFTER its own await), nested to depth 3 (4 in thorough), one case in three renders the SAME page in every request (same arena keys), one request in four routed (Router + FlatRoutes or Routes, the program being the matched route's view), in-order / out-of-order streaming or ASYNC rendering mode (whole app awaited, then the hydration chunks requested), rendered CONCURRENTLY on one "
            "thread through the real from_app/build_response (the response future is polled by hand OUTSIDE Sandboxed until the first chunk exists; futures the handler side polls itself - "
            "a ScopedFuture, an Owner::with re-entry - while the request's root may still be the thread's current owner); every response carries a marker resource in its hydration data "
            "and the observable includes whose marker each response carries (h=<request>); schedule = random sequence of start r / fire r g / ps r (r's tasks + stream to a fixpoint) / "
            "poll i (i-th ready task of the controlled executor, any request) / drop r / abort r b (client abort: body dropped unpolled while request b's arena is current), then end; plus, exhaustively, ALL 80 interleavings of "
            "{start r, fire r 1, ps r} for 8 (thorough: 10) fixed program pairs all 102 interleavings x 2 of [start 0, ps 0, abort 0 1] with [start 1, ps 1, fire 1 1, ps 1] for 3 pages, and all 70 alternations of [start r, ps r, fire r 1, ps r] (r = 0, 1: two response bodies "
            "polled alternately) for 4 (thorough: 5) pages with sandboxed-only bodies and re-running resources; every case is run in two build configurations (sandboxed-arenas with "
            "the real leptos_integration_utils::build_response; global arena with build_response reproduced). Oracles: no step other than start may install a thread-local owner (None stays None); each response's HTML and leaf log "
            "== the same request replayed ALONE with the same relative order of its own actions. Shared observable: per response, whose hydration data it carries, whose arena items sandboxed/handler-side bodies read, and the context tags "
            "each leaf saw. distinct = distinct op text; trivial = no async boundary / cleanup / early drop (tags only in plain,in-order,ooo,for,provider). "
            "Since the repairs fix-c20-1/3/4 the shapes of the former findings F-C20-1..4 (lazy leaves, Providers, Suspenses, on_cleanup and Actions in the view of a "
            "Suspend outside Suspense; aborts of pages with on_cleanup under a foreign arena) are generated freely and must pass; only nested Suspend-in-Suspend "
            "inside Suspense (timing-dependent content, C07) is not generated",
    "trusted": [
        "hx_common::sched controlled executor standing in for any executor (one task polled at a time, one thread); streams polled by hand with a no-op waker",
        "bin c20 links the REAL leptos_integration_utils::ExtendResponse::from_app (-> real build_response, await_deferred, leptos_meta inject_meta_context, first chunk awaited outside Sandboxed, body + owner.unset() inside Sandboxed) with a trivial response type; bin c20g (global arena) cannot link that crate (it forces sandboxed-arenas on for the whole build): build_response and from_app are reproduced there line by line",
        "the driver's table of which leaf is rendered where/when (Driver/C20.lean: compile/resolveNodes) — validated by the differential run, not proved",
    ],
    "modelled": [
        "thread-locals OWNER/OBSERVER/MAP", "Step.enter = owner.with(|| observer.with_observer(..)) inline in an unwrapped task (spawn_derived! runs/re-runs, isomorphic effects)", "Owner::with / set / unset / new_root", "WithObserver::with_observer", "ScopedFuture::poll", "Sandboxed::poll",
        "spawn sites' wrapping flags (spawn_local_scoped = ScopedFuture+Sandboxed; reactive_graph::spawn = Sandboxed only: Action::dispatch, OnceResource (ScopedFuture at construction), ArcAsyncDerived tasks)", "use_context / provide_context", "ArenaItem allocation + Owner::cleanup of a root",
        "WHICH call sites are wrapped: modelled, not verified — checked by the correspondence (unwrapped sites found and repaired: F-C20-1/2/3, F-C20-4)",
        "slotmap key uniqueness", "ScopedFuture::new without a current owner (unwrap_or_default) not modelled",
        "BY DESIGN, not interference: Owner::with / Owner::set / Sandboxed select the owner's ARENA and never restore the previous one (arena.rs has no guard except Arena::enter for cleanups). "
        "The model has exactly this (Step.withOwner / enterAmb leave the arena; example in Theorems/C20.lean) and the theorems hold WITH it: every piece of code that touches arena handles on behalf of a "
        "request is inside Sandboxed or Owner::with/ScopedFuture, each of which re-selects its own arena first (C20_wrapped_isolated, C20_sandboxed_arena), so the stale arena is never read by "
        "disciplined code; it is observable only by code with no wrapper at all (a bare future or plain function that uses a Copy handle without entering an owner), which is outside the discipline - "
        "that is what Sandboxed exists for. The OWNER and OBSERVER, in contrast, are restored by every scoped step (C20_with_restores, C20_none_stays_none), and the harness checks on the real "
        "thread-local that no step except Owner::new_root installs an owner (oracle ambient-owner-installed) and what unrelated work would find there (op `amb`)",
        "sandboxed-only bodies do not ALLOCATE arena items without an owner in the generated programs: ArenaItem::new registers the item with Owner::current(), which for such a body is the ambient "
        "owner (by design of reactive_graph::spawn) - observed: the item then lives and dies with another request's owner",
    ],
    "assumptions": [
        "one OS thread (thread-locals are per thread: cross-thread interleavings reduce to this case per thread; real multi-thread scheduling is out of reach)",
        "router: one static route matched on the server (FlatRoutes::choose_ssr, Routes/Outlet); no navigation, no nested ParentRoute; ErrorBoundary, Transition, islands, MultiAction, server-fn handlers (handle_server_fns) are not in the program grammar",
    ],
    "manifest": {
        "category": "proof",
        "text": "Lean 4 theorems about the WRAPPER DISCIPLINE (Model/Ambient: shared thread-local owner/observer/arena; tasks polled in any order): if every task "
                "of every request is wrapped (ScopedFuture) and names only its own owners, then for ALL worlds, task programs (with awaits and spawns) and ALL "
                "interleavings every observation shows the request's own owner, arena and context, and each request's observation sequence equals the one of its "
                "solo run (C20_wrapped_isolated, non-interference by induction over the schedule; the discipline = wrapped OR guarding every step, which covers the unwrapped tasks of re-running resources); "
                "sandboxed-only code (reactive_graph::spawn bodies, streams inside the body's Sandboxed) still sees its own arena (C20_sandboxed_arena); Owner::with/with_observer restore on exit (C20_with_restores); "
                "cleaning up one root disposes nothing of another, global or per-request arenas (C20_drop_frame); the unhypothesised statement is refuted by a "
                "kernel-checked witness (C20_unwrapped_leaks_witness: one unwrapped task leaks). WHICH real call sites are wrapped is modelled, not verified: the "
                "correspondence exercises the real call sites (build_response, Suspend, Suspense, Resource/OnceResource/AsyncDerived families, Action, spawn_local_scoped, isomorphic effects, Provider, For, Router/FlatRoutes/Routes, on_cleanup, arena items of child owners, client aborts; two arena configurations) "
                "under controlled interleavings and compares every response with its solo render; it found the view of a Suspend outside Suspense rendered "
                "unwrapped by the stream (F-C20-1/2), an Action's future spawned unscoped (F-C20-3) and cleanups of an aborted response running under a foreign arena (F-C20-4): "
                "all four repaired in /repo (fix-c20-1, fix-c20-3, fix-c20-4); the model's site table follows the repaired code, the old table is kept with regression #guards.",
        "design_ref": "DESIGN.md §7 C20",
        "note": "partial: proof is about the discipline model; the tie to the code is the differential run over the program grammar",
        "technique": "Lean 4 proof (simulation/non-interference over all schedules) + refutation witness + differential correspondence with solo-render oracle",
    },
}


def run(tier, seed):
    """primary configuration through the shared procedure (bin c20: sandboxed arenas, real build_response), then the SAME
    ops through bin c20g (global arena) compared with the same model output; a failure there is a violation too"""
    from vlib import core
    crate = os.path.join(core.HARNESS, CFG["harness_pkg"])
    rc = core.run_check(CFG, tier, seed)
    workdir = os.path.join(core.WORK, "C20")
    ops_path = os.path.join(workdir, "ops.txt")
    model_out = os.path.join(workdir, "main.model.out")
    second = {"bin": "c20g", "arena": "global (no sandboxed-arenas)", "build_response": "reproduced in the harness"}
    lines, bad = [], 0
    cmd = ["cargo", "build", "--release", "--offline", "--no-default-features", "--bin", "c20g"]
    brc, out = core.sh(cmd, cwd=crate, timeout=3000, env=core.env_offline(False))
    if brc != 0:
        second["status"] = "harness-build failed"
        lines.append("harness-build:hx-c20/c20g (global-arena configuration does not compile against the current /repo tree)")
    elif not (os.path.exists(ops_path) and os.path.exists(model_out)):
        second["status"] = "primary run produced no ops/model output"
        lines.append("run:c20g not run (no ops)")
    else:
        g_out = os.path.join(workdir, "global.impl.out")
        gbin = os.path.join(core.env_offline(False)["CARGO_TARGET_DIR"], "release", "c20g")
        rrc, o = core.sh([gbin, "run", ops_path, g_out], timeout=3000)
        if rrc != 0:
            lines.append("run:c20g rc=%d %s" % (rrc, o[-300:]))
        known, _ = core.load_known("C20")
        cases = core.group_cases(core.read_lines(ops_path), core.read_lines(g_out) if os.path.exists(g_out) else [],
                                 core.read_lines(model_out))
        oracle, disagree, hits = [], [], {}
        for c in cases:
            for kind, detail in core.judge_case(c, known):
                if kind == "known":
                    hits[detail] = hits.get(detail, 0) + 1
                elif kind == "oracle":
                    oracle.append((c, detail))
                else:
                    disagree.append((c, detail))
        second.update(status="ran", cases=len(cases), disagreements_found=len(disagree),
                      oracle_failures_outside_known_classes=len(oracle), known_finding_hits=hits)
        first = (oracle or disagree or [None])[0]
        if first:
            c, detail = first
            body = "# property C20, configuration c20g (global arena): %s\n# %s\n%s\n" % (
                "fails on the implementation" if oracle else "no longer shown (correspondence broken), no failing input found", detail, "\n".join(c.ops))
            path = core.write_replay(CFG, tier, seed, "global-" + str(c.name), body)
            print("VIOLATION property=C20 replay=%s%s" % (path, "" if oracle else " no-failing-input-found"))
            bad = len(oracle) or len(disagree)
    if lines and not bad:
        path = core.write_replay(CFG, tier, seed, "global-unshown", "# property C20 is no longer shown for the global-arena configuration\n" + "\n".join("#   " + l for l in lines) + "\n")
        print("VIOLATION property=C20 replay=%s no-failing-input-found" % path)
        bad = 1
    ev_path = os.path.join(core.VERIF, "evidence", "C20.json")
    try:
        ev = json.load(open(ev_path))
        ev["coverage"]["configurations"] = [
            {"bin": "c20", "arena": "sandboxed-arenas (per-request arenas)", "build_response": "real leptos_integration_utils::ExtendResponse::from_app + build_response",
             "cases": ev["coverage"].get("programs")}, second]
        ev["coverage"]["disagreements_checked"] = ev["coverage"].get("disagreements_checked", 0) + second.get("cases", 0)
        ev["coverage"]["level_note"] = "proof about the wrapper discipline (model); which real sites are wrapped is checked by the correspondence, not proved"
        ev["violations"] = ev.get("violations", 0) + bad
        tmp = ev_path + ".tmp"
        json.dump(ev, open(tmp, "w"), indent=1)
        os.replace(tmp, ev_path)
    except (OSError, ValueError, KeyError):
        pass
    print("C20 second configuration (global arena, bin c20g): %s" % json.dumps(second))
    return 1 if (rc or bad) else 0
