CFG = {
    "id": "C01",
    "lean_theorems": "LeptosModel.Theorems.C01",
    "lean_exe": "lm_c01",
    "theorems": [
        "Leptos.Reactive.C01_read_eq_scratch",
        "Leptos.Reactive.C01_untracked_snapshot",
        "Leptos.Reactive.C01_untracked_inert",
        "Leptos.Reactive.C01_read_eq_scratch_noeff",
        "Leptos.Reactive.C01_scratch_fuel_irrelevant",
        "Leptos.Reactive.upd_ok",
        "Leptos.Reactive.read_eq_scratch_noeff",
    ],
    "harness_pkg": "hx-c01",
    "harness_bin": "c01",
    "n": {"quick": 3000, "thorough": 60000},
    "rule": "seeded generator of programs (1-3 signals, 1-7 memos with bodies over add / mulc / ite / seq / tracked and "
            "untracked reads, biased to recent nodes so that diamonds, chains and conditional dependencies appear) x histories of "
            "5-30 set/read ops (values 0..2, so equal-value writes occur), both Arc* and arena handle families; a case is one program "
            "+ history; distinct = distinct op text; trivial = tag `plain` only (no diamond/chain/dynamic/cut-off/untracked shape). "
            "API surface (tags): `acc` (half of the cases) = every read / write site picks its accessor from get / with / read, "
            "untrack(get) / get_untracked / with_untracked / read_untracked / try_get_untracked, set / update / write / try_set; `ctor` = memo "
            "constructors new / new_owning / new_with_compare(!=) of Memo and ArcMemo; `split` = signals made by signal() / arc_signal() "
            "(ReadSignal + WriteSignal); `memoc` (a third of the cases) = leaf memos built with a COARSE comparator "
            "(a.div_euclid(k) != b.div_euclid(k)), read right after writes that stay inside one bucket; `memoh` = leaf memos with the asymmetric "
            "high-water comparator (new > old); `mapped` / `maybe` = reads (and for MappedSignal also writes) through MappedSignal / ArcMappedSignal / "
            "MaybeSignal / MaybeProp next to Signal::from / derive (wrap 1-5), every accessor of the `acc` family through each; `slice` (a sixth of the "
            "cases) = create_slice / create_read_slice + create_write_slice over an RwSignal holding a two-field struct, `slicea` = asymmetric "
            "getter/setter pairs; `dropped` = a memo nobody reads is evaluated first and disposed/dropped later (dead entry ahead of live subscribers). "
            "Instrumentation oracles on every case: each user comparator call gets (previous value | None, freshly computed value), each memo closure "
            "gets the previous value; a body that re-runs although none of its tracked inputs changed has lost its untracked snapshot. "
            "Lifetimes (a quarter of the cases each): `scope` = a run of signals / memos is created under a child owner (always reference counted "
            "there: ArcRwSignal / arc_signal, ArcMemo with every constructor, ArcSignal / ArcMappedSignal wrappers) that is cleaned up early in "
            "the history - the nodes must keep working; `disposew` = a fresh Signal::from(node) wrapper is created and disposed while other "
            "readers keep reading the node; `paused` = the root owner is paused / resumed in memo-only programs (memos must not care); "
            "`setun` = untracked write (update_untracked / write_untracked) + explicit notify() through every handle / MappedSignal; wrap 6 = "
            "Signal<Option<T>>::from(Signal<T>); `memof` = ArcMemo::from(ArcRwSignal / ArcReadSignal) (its own runs cannot be instrumented: left out of runs=)",
    "trusted": ["reactive_graph's Rust closures are driven through an interpreter of the same Expr grammar (harness/hx-c01/src/lib.rs)",
                "lean/LeptosModel/Model/ReactiveDriver.lean maps `acc` to nothing and a leaf `memoc k e` to `memo e` (argument in its header: a comparator is visible to subscribers only)"],
    "modelled": ["MemoInner::{mark_dirty,mark_check,update_if_necessary}", "signal mark_dirty", "Track::track", "SourceSet/SubscriberSet",
                 "Observer / untrack", "ArcMemo::new compare (PartialEq)",
                 "by correspondence only: every Get/With/Read(+Untracked) accessor, Set/Update/Write accessors, ReadSignal/WriteSignal pairs, "
                 "Memo/ArcMemo::{new,new_owning,new_with_compare}, user comparators coarser than equality or asymmetric (leaf memos), "
                 "MappedSignal/ArcMappedSignal/MaybeSignal/MaybeProp, computed::{create_slice,create_read_slice,create_write_slice} "
                 "(struct signal = two field signals, slice = memo over both fields; ReactiveDriver.lean header)"],
    "assumptions": ["i64 arithmetic does not overflow on generated programs (small constants, bounded depth)",
                    "owners are transparent for signals and memos in the model (it has owners for effects only): scope / cleanupscope / disposew / pauseall are steps that change nothing; arena-flavoured nodes are not created inside a scope (they die with it by design); effects, selectors and slices are not defined inside scopes; scopes do not nest",
                    "field nodes of a struct signal are read through slices and `read` ops only (a direct reader would subscribe to one field in the model, to the whole signal in the code)",
                    "memos with a comparator coarser than equality are exercised as leaves only (what their subscribers see is the comparator's business, not part of the property)",
                    "derived signals / MappedSignal / Signal::derive are plain closures without cache: they are from-scratch by construction and are not separately modelled"],
    "manifest": {
        "category": "proof",
        "text": (
            'Lean 4 theorems over the reactive model (Model/Reactive.lean): C01_read_eq_scratch - for EVERY well-formed program of signals, memos AND effects (effects may write signals; any polling order; pause/resume/dispose) with tracked reads (any DAG: diamonds, chains, conditional/dynamic dependencies, equality cut-offs, memos read inside memos) and EVERY finite history of writes (equal values included) and reads in any order, a read returns the from-scratch value (invariant InvR over the mark-dirty/mark-check/pull protocol + big-step lemma upd_ok for update_if_necessary); C01_untracked_snapshot / C01_untracked_inert - a read made through untrack contributes the value it had when the computation last ran and never causes a re-run; C01_scratch_fuel_irrelevant. No sorry; axioms propext/Classical.choice/Quot.sound. '
            "The model is tied to the real reactive_graph by a differential run on generated programs and histories: every read is compared with the compiled model, with an independent from-scratch evaluator and with the 'last run is current' oracle, through every handle family (Rw/Arc/split signals, Memo/ArcMemo and all their constructors), every accessor (get/with/read/..._untracked/try_*), wrappers (Signal, ArcSignal, derive, MappedSignal, MaybeSignal, MaybeProp), slices (create_slice family), custom comparators (argument contract checked) and Selector; wrappers/slices/comparators/Selector are desugared into model nodes by the Lean driver, so the theorems apply to the desugared program."
        ),
        "design_ref": "DESIGN.md §7 C01",
        "note": "hand-written model validated by correspondence on generated inputs; desugaring of wrappers/slices/Selector lives in the driver (trusted)",
        "technique": "Lean 4 proof (invariant + induction over histories) + differential correspondence",
    },
}
