CFG = {
    "id": "C01",
    "lean_theorems": "LeptosModel.Theorems.C01",
    "lean_exe": "lm_c01",
    "theorems": [],
    "level": "translation_validation",
    "harness_pkg": "hx-c01",
    "harness_bin": "c01",
    "n": {"quick": 3000, "thorough": 60000},
    "rule": "seeded generator of programs (1-3 signals, 1-7 memos with bodies over add / mulc / ite / seq / tracked and "
            "untracked reads, biased to recent nodes so that diamonds, chains and conditional dependencies appear) x histories of "
            "5-30 set/read ops (values 0..2, so equal-value writes occur), both Arc* and arena handle families; a case is one program "
            "+ history; distinct = distinct op text; trivial = tag `plain` only (no diamond/chain/dynamic/cut-off/untracked shape)",
    "trusted": ["reactive_graph's Rust closures are driven through an interpreter of the same Expr grammar (harness/hx-c01/src/lib.rs)"],
    "modelled": ["MemoInner::{mark_dirty,mark_check,update_if_necessary}", "signal mark_dirty", "Track::track", "SourceSet/SubscriberSet",
                 "Observer / untrack", "ArcMemo::new compare (PartialEq)"],
    "assumptions": ["i64 arithmetic does not overflow on generated programs (small constants, bounded depth)",
                    "derived signals / MappedSignal / Signal::derive are plain closures without cache: they are from-scratch by construction and are not separately modelled"],
    "manifest": {
        "category": "translation_validation",
        "text": "Executable Lean model of the memo protocol (Model/Reactive.lean), differentially validated against the real "
                "ArcMemo/Memo/ArcRwSignal/RwSignal on generated programs and histories (every read compared with the model, with an independent "
                "from-scratch evaluator and with the 'last run is current' oracle). The unbounded theorem C01_read_eq_scratch (invariant over the "
                "mark/check/pull protocol) is stated in Theorems/C01.lean and its proof is under construction in Proofs/Reactive*.lean; "
                "until it is kernel-checked this check claims translation validation only, not proof.",
        "design_ref": "DESIGN.md §7 C01",
        "note": "model hand-written; theorem pending; correspondence on generated inputs only",
        "technique": "Lean 4 executable model + differential correspondence (proof of the invariant in progress)",
    },
}
