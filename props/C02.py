CFG = {
    "id": "C02",
    "lean_theorems": "LeptosModel.Theorems.C02",
    "lean_exe": "lm_c02",
    "theorems": [
        "Leptos.Reactive.C02_lost_update_witness",
        "Leptos.Reactive.C02_effects_converge_full_false",
    ],
    "harness_pkg": "hx-c01",
    "harness_bin": "c02",
    "n": {"quick": 3000, "thorough": 60000},
    "rule": "seeded generator of staged programs (signals, memos, 1-2 effects per stage, some effects writing an output signal read by later stages) x "
            "histories of set/read/poll <i>/idle ops where `poll i` polls the i-th ready task of the controlled executor (any schedule); observable = "
            "the tracked values each effect run read, the polled task and the ready list after every op; oracle at idle points = every effect's last run "
            "saw the current from-scratch values; glitch oracle at every read inside an effect run; trivial = tag `plain` only",
    "trusted": ["hx_common::sched controlled executor standing in for any executor (tasks polled one at a time on one thread)"],
    "modelled": ["Effect::new task loop", "EffectInner", "channel.rs (set flag + waker)", "signal writes from inside effects"],
    "assumptions": ["Effect::new only; owner pause/dispose and wake-order clauses are not yet driven (planned)", "single-threaded executor"],
    "manifest": {
        "category": "proof",
        "text": "The full convergence statement (every effect current at every idle point, all programs/histories/schedules) is REFUTED by a kernel-checked "
                "witness (C02_lost_update_witness: x=s, m=0*x, effect reads m then x; after s:=2 the effect never re-runs) that replays on the real Effect — "
                "known finding F-C02-1. The model is tied to reactive_graph by differential correspondence under arbitrary polling orders; a stale or glitching "
                "effect outside the model's class is a violation. Positive partial theorem pending.",
        "design_ref": "DESIGN.md §7 C02",
        "note": "hand-written model validated by correspondence; convergence theorem for the non-defective class pending",
        "technique": "Lean 4 refutation witness (decide +kernel) + executable model + differential correspondence over schedules",
    },
}
