CFG = {
    "id": "C02",
    "lean_theorems": "LeptosModel.Theorems.C02",
    "lean_exe": "lm_c02",
    "theorems": [
        "Leptos.Reactive.C02_effects_converge_readonly",
        "Leptos.Reactive.C02_effects_converge_nowrite",
        "Leptos.Reactive.C02_effects_converge_nofeedback",
        "Leptos.Reactive.C02_unnotified_effect_current",
        "Leptos.Reactive.C02_disposed_never_runs",
        "Leptos.Reactive.C02_paused_never_runs",
        "Leptos.Reactive.C02_effects_converge_full_false",
        "Leptos.Reactive.C02_effects_converge_stmt_false",
        "Leptos.Reactive.C02_self_feedback_witness",
        "Leptos.Reactive.C02_lost_update_witness",
        "Leptos.Reactive.C02_effects_converge_full_old_false",
        "Leptos.Reactive.C02_wake_order",
        "Leptos.Reactive.C02_wake_order_inv",
        "Leptos.Reactive.C02_subs_order_kept",
        "Leptos.Reactive.C02_no_glitch",
        "Leptos.Reactive.C02_no_glitch_run",
        "Leptos.Reactive.C02_no_glitch_noset",
    ],
    "harness_pkg": "hx-c01",
    "harness_bin": "c02",
    "n": {"quick": 3000, "thorough": 60000},
    "rule": "seeded generator of staged programs (signals, memos, 1-2 effects per stage, some effects writing an output signal read by later stages) x "
            "histories of set/read/poll <i>/idle ops where `poll i` polls the i-th ready task of the controlled executor (any schedule); observable = "
            "the tracked values each effect run read, the polled task and the ready list after every op; oracle at idle points = every effect's last run "
            "saw the current from-scratch values; glitch oracle at every read inside an effect run; trivial = tag `plain` only. "
            "A quarter of the cases are `selector` cases: reactive_graph::computed::Selector::new over a signal / memo / small expression with 1-4 keys "
            "(values 0..K, K = no key), readers = effects of every constructor, render effects, memos, dynamic reads, created before AND after the "
            "selection moves (`sellate`), keys first read while selected and deselected later (`selfirst`), keys never selected (`selnever`), polls in "
            "non-FIFO order (`nonfifo`); oracle: at idle a reader saw `source() == key` computed from scratch THROUGH the selector, and every `selected` "
            "answer equals key == last source value. Half of all cases carry `acc` (accessor / memo-constructor / split-signal variety), some `memoc` leaves. "
            "`oncl` (a third of the cases with effects) = every effect run registers one on_cleanup; observable ` cl=` = cleanup calls per effect and op, oracle = "
            "exactly one call per superseded run and per disposal, none twice; effect constructors now include RenderEffect::new_isomorphic (`rieff`) and "
            "Effect::watch_sync; `imm` (an eighth) = ImmediateEffect::new (runs at creation and inside notifications, no task; must converge, run once per change and "
            "never hang - the per-line watchdog prints `hang`); diamonds whose top memo reads the cut-off branch before the shared memo; `slice`, `mapped`, `maybe`, `dropped` as in C01",
    "trusted": ["hx_common::sched controlled executor standing in for any executor (tasks polled one at a time on one thread)",
                "lean/LeptosModel/Model/ReactiveDriver.lean desugars `sel K e` into K flag signals + one render effect (no model change); `woke=` lists the wake-ups "
                "made by one selector run sorted (the code walks a hash map of keys), `eruns=` shows a selector run's source reads once"],
    "modelled": ["Effect::new task loop", "EffectInner", "channel.rs (set flag + waker)", "signal writes from inside effects",
                 "by correspondence only: computed/selector.rs Selector::new + selected (per-key trigger = flag signal, RenderEffect::new_isomorphic = render effect), "
                 "accessor / constructor / handle-family variety, effect/immediate.rs ImmediateEffect::new (an effect polled to completion after every primitive step), "
                 "owner cleanup per effect run (one call per superseded run; counted from the model's run log)"],
    "assumptions": ["Effect::new, new_sync, new_isomorphic, watch / watch_sync (dependency function; the handler reads at most one signal), RenderEffect::new / new_isomorphic, Selector::new and ImmediateEffect::new are driven; Selector::new_with_fn / remove / clear are not", "single-threaded executor",
                    "ImmediateEffect: only bodies without write / untracked read whose directly read nodes are signals or memos over signals with pairwise disjoint signal ancestors are admitted (`bad-op` otherwise, both sides). Outside that class the unchanged code lets the effect see new + old values and run twice (hooks/imm-glitch-demo: proposed known class immediate-glitch, not checkable by this correspondence because the model runs effects after, not inside, a notification)",
                    "selector cases contain no pause / resume / dispose ops (a selector is not owner-scoped; an owner created under a paused root inherits `paused`, which the model's per-effect flag does not follow)"],
    "manifest": {
        "category": "proof",
        "text": "PROVED: C02_effects_converge_readonly - for every well-formed program (tracked reads), every history of writes/reads/polls in ANY polling order, at every idle "
                "point every effect whose own body does not write a signal has last run against the current from-scratch values of everything it read (other effects may write; "
                "invariant InvR + effect lemmas, Proofs/ReactiveConv.lean). For effects that write, the statement is REFUTED by a kernel-checked witness confirmed on the real "
                "Effect (F-C02-2, a feedback loop: known finding). The lost-update defect of the code as found (F-C02-1) was REPAIRED by /repo commit 4084efd; its witness stays as a "
                "regression theorem about the pre-repair model (runOld). No-glitch during runs follows from C01_read_eq_scratch (every read inside a run returns the from-scratch value). "
                "Also proved for ALL well-formed programs and all op kinds: C02_disposed_never_runs and C02_paused_never_runs (no run of e is ever logged after its disposal / while it is paused), C02_effects_converge_nofeedback (convergence for writing effects too when no effect writes a signal on which a node it reads depends), C02_unnotified_effect_current (between any two ops). Wake order is covered by the executable model + correspondence oracle, not by a theorem. The model "
                "(Effect::new, RenderEffect, pause/resume/dispose at effect and root level, wake order, effects writing signals) is tied to reactive_graph by differential "
                "correspondence under arbitrary polling orders.",
        "design_ref": "DESIGN.md §7 C02",
        "note": "hand-written model validated by correspondence; convergence proved for read-only effects; lifecycle and wake-order clauses by correspondence only",
        "technique": "Lean 4 proof (invariant over histories and schedules) + refutation/regression witnesses + differential correspondence",
    },
}
