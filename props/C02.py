CFG = {
    "id": "C02",
    "lean_theorems": "LeptosModel.Theorems.C02",
    "lean_exe": "lm_c02",
    "theorems": [
        "Leptos.Reactive.C02_effects_converge_readonly",
        "Leptos.Reactive.C02_effects_converge_nowrite",
        "Leptos.Reactive.C02_effects_converge_nofeedback",
        "Leptos.Reactive.C02_unnotified_effect_current",
        "Leptos.Reactive.C02_disposed_never_runs",
        "Leptos.Reactive.C02_paused_never_runs",
        "Leptos.Reactive.C02_effects_converge_full_false",
        "Leptos.Reactive.C02_effects_converge_stmt_false",
        "Leptos.Reactive.C02_self_feedback_witness",
        "Leptos.Reactive.C02_lost_update_witness",
        "Leptos.Reactive.C02_effects_converge_full_old_false",
        "Leptos.Reactive.C02_wake_order",
        "Leptos.Reactive.C02_wake_order_inv",
        "Leptos.Reactive.C02_subs_order_kept",
        "Leptos.Reactive.C02_no_glitch",
        "Leptos.Reactive.C02_no_glitch_run",
        "Leptos.Reactive.C02_no_glitch_noset",
        "Leptos.Reactive.C02_selector_scan_complete",
        "Leptos.Reactive.C02_selector_readers_current",
        "Leptos.Reactive.C02_selector_lookup_stale_witness",
        "Leptos.Reactive.C02_selector_lookup_eq_scan_for_equality",
        "Leptos.Reactive.selcFlag_eval",
        "Leptos.Reactive.C02_selc_desugar_guard",
    ],
    "harness_pkg": "hx-c01",
    "harness_bin": "c02",
    "n": {"quick": 3000, "thorough": 60000},
    "rule": "seeded generator of staged programs (signals, memos, 1-2 effects per stage, some effects writing an output signal read by later stages) x "
            "histories of set/read/poll <i>/idle ops where `poll i` polls the i-th ready task of the controlled executor (any schedule); observable = "
            "the tracked values each effect run read, the polled task and the ready list after every op; oracle at idle points = every effect's last run "
            "saw the current from-scratch values; glitch oracle at every read inside an effect run; trivial = tag `plain` only. "
            "A quarter of the cases are `selector` cases: reactive_graph::computed::Selector::new over a signal / memo / small expression with 1-4 keys "
            "(values 0..K, K = no key), readers = effects of every constructor, render effects, memos, dynamic reads, created before AND after the "
            "selection moves (`sellate`), keys first read while selected and deselected later (`selfirst`), keys never selected (`selnever`), polls in "
            "non-FIFO order (`nonfifo`); oracle: at idle a reader saw `source() == key` computed from scratch THROUGH the selector, and every `selected` "
            "answer equals key == last source value. Half of all cases carry `acc` (accessor / memo-constructor / split-signal variety), some `memoc` leaves. "
            "`oncl` (a third of the cases with effects) = every effect run registers one on_cleanup; observable ` cl=` = cleanup calls per effect and op, oracle = "
            "exactly one call per superseded run and per disposal, none twice; effect constructors now include RenderEffect::new_isomorphic (`rieff`) and "
            "Effect::watch_sync; `imm` (an eighth) = ImmediateEffect::new (runs at creation and inside notifications, no task; must converge, run once per change and "
            "never hang - the per-line watchdog prints `hang`); diamonds whose top memo reads the cut-off branch before the shared memo; `slice`, `mapped`, `maybe`, `dropped`, `scope`, `disposew` as in C01; a third of the selector cases are `selc` = "
            "Selector::new_with_fn with the non-equality comparator f(key, v) = (v == key || v == key + 1) (a key matches two adjacent values; 2-4 keys)",
    "trusted": ["hx_common::sched controlled executor standing in for any executor (tasks polled one at a time on one thread)",
                "lean/LeptosModel/Model/ReactiveDriver.lean desugars `sel K e` into K flag signals + one render effect (no model change); `woke=` lists the wake-ups "
                "made by one selector run sorted (the code walks a hash map of keys), `eruns=` shows a selector run's source reads once"],
    "modelled": ["Effect::new task loop", "EffectInner", "channel.rs (set flag + waker)", "signal writes from inside effects",
                 "by correspondence only: computed/selector.rs Selector::new + selected (per-key trigger = flag signal, RenderEffect::new_isomorphic = render effect), "
                 "accessor / constructor / handle-family variety, effect/immediate.rs ImmediateEffect::new (an effect polled to completion after every primitive step), "
                 "owner cleanup per effect run (one call per superseded run; counted from the model's run log)"],
    "assumptions": ["`selc`: the desugared selector body evaluates its source a varying number of times, so `eruns=` lists a selc selector's runs without the values it read (both sides); its readers' runs and values are compared as usual. A reader's re-run is justified by the selector's NOTIFICATION of its key (every key matching the old or the new value when the value changed), kept by the harness from the source values alone",
                    "Effect::new, new_sync, new_isomorphic, watch / watch_sync (dependency function; the handler reads at most one signal), RenderEffect::new / new_isomorphic, Selector::new and ImmediateEffect::new are driven; Selector::new_with_fn / remove / clear are not", "single-threaded executor",
                    "ImmediateEffect: only bodies without write / untracked read whose directly read nodes are signals or memos over signals with pairwise disjoint signal ancestors are admitted (`bad-op` otherwise, both sides). Outside that class the unchanged code lets the effect see new + old values and run twice (hooks/imm-glitch-demo: proposed known class immediate-glitch, not checkable by this correspondence because the model runs effects after, not inside, a notification)",
                    "selector cases contain no pause / resume / dispose ops (a selector is not owner-scoped; an owner created under a paused root inherits `paused`, which the model's per-effect flag does not follow)"],
    "manifest": {
        "category": "proof",
        "text": (
            'Lean 4 theorems, all for every well-formed program, every history of writes/reads/polls in ANY polling order incl. pause/resume/dispose: C02_effects_converge_readonly (at every idle point every effect whose own body does not write has last run against the current from-scratch values of everything it read; other effects may write), C02_effects_converge_nofeedback (writing effects too, when no effect writes a signal a node it reads depends on), C02_unnotified_effect_current, C02_disposed_never_runs, C02_paused_never_runs, C02_no_glitch (every read event in the whole run log - effect bodies and the memo bodies they pull, writer effects included - carries the from-scratch value of the signal environment at that log position), C02_selector_scan_complete / C02_selector_readers_current (Selector::new_with_fn with ANY comparator f: the scan notifies every key whose flag changes, so after any sequence of source values a reader of any key holds f(key, current); the look-up variant of round-5 seed 2 is refuted by a kernel-checked witness and coincides with the scan for equality; C02_selc_desugar_guard: the expressions the driver desugars `selc` to denote exactly that rule), C02_wake_order (the effects woken by a write that reach the signal only through their own direct subscription are woken in subscription order; the unrestricted form is refuted by a kernel-checked counter-example) and C02_subs_order_kept. '
            'For effects with self-feedback the convergence statement is REFUTED by a kernel-checked witness confirmed on the real Effect (F-C02-2: known finding). Two defects of the code as found were REPAIRED in /repo: F-C02-1 lost update (4084efd) and F-C02-3 WriteSignal/Trigger notify drained the subscriber set (2b9d3c6); their witnesses stay as regression theorems / corpus cases. '
            'The model (Effect::new/new_sync/new_isomorphic/watch/watch_sync, RenderEffect::new/new_isomorphic, ImmediateEffect in its glitch-free shape, Selector, pause/resume/dispose at effect and root level, on_cleanup accounting, wake order, effects writing signals) is tied to reactive_graph by differential correspondence under arbitrary polling orders on a controlled executor.'
        ),
        "design_ref": "DESIGN.md §7 C02",
        "note": "hand-written model validated by correspondence; nested effect creation is covered in the C04 and C08 models",
        "technique": "Lean 4 proof (invariant over histories and schedules) + refutation/regression witnesses + differential correspondence",
    },
}
