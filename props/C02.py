CFG = {
    "id": "C02",
    "lean_theorems": "LeptosModel.Theorems.C02",
    "lean_exe": "lm_c02",
    "theorems": [
        "Leptos.Reactive.C02_lost_update_witness",
        "Leptos.Reactive.C02_effects_converge_full_old_false",
    ],
    "harness_pkg": "hx-c01",
    "harness_bin": "c02",
    "n": {"quick": 3000, "thorough": 60000},
    "rule": "seeded generator of staged programs (signals, memos, 1-2 effects per stage, some effects writing an output signal read by later stages) x "
            "histories of set/read/poll <i>/idle ops where `poll i` polls the i-th ready task of the controlled executor (any schedule); observable = "
            "the tracked values each effect run read, the polled task and the ready list after every op; oracle at idle points = every effect's last run "
            "saw the current from-scratch values; glitch oracle at every read inside an effect run; trivial = tag `plain` only",
    "trusted": ["hx_common::sched controlled executor standing in for any executor (tasks polled one at a time on one thread)"],
    "modelled": ["Effect::new task loop", "EffectInner", "channel.rs (set flag + waker)", "signal writes from inside effects"],
    "assumptions": ["Effect::new and RenderEffect::new; watch / new_isomorphic / ImmediateEffect share EffectInner but are not separately driven", "single-threaded executor"],
    "manifest": {
        "category": "proof",
        "text": "The convergence statement was FALSE of the code as found (kernel-checked witness C02_lost_update_witness: x=s, m=0*x, effect reads m then x; after "
                "s:=2 the effect never re-ran; replayed on the real Effect) and the defect was REPAIRED by /repo commit 4084efd (EffectInner::update_if_necessary now walks "
                "its sources under untrack and folds the dirty flag in). The witness is kept as a regression theorem about the pre-repair model (runOld); the statement for "
                "the repaired scheduler (C02_effects_converge_stmt) is OPEN: no counterexample in 63 000 generated programs x histories x schedules, proof in progress. "
                "The executable Lean model (Effect::new, RenderEffect, pause/resume/dispose, wake order, effects writing signals) is tied to reactive_graph by differential "
                "correspondence under arbitrary polling orders with oracles for staleness at idle, glitches, runs after disposal / while paused and wake order.",
        "design_ref": "DESIGN.md §7 C02",
        "note": "hand-written model validated by correspondence; convergence theorem for the repaired code open (proof in progress)",
        "technique": "Lean 4 regression witness + executable model + differential correspondence over schedules (convergence proof in progress)",
    },
}
