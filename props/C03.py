CFG = {
    "id": "C03",
    "hooks": True,
    "lean_theorems": "LeptosModel.Theorems.C03",
    "lean_exe": "lm_c03",
    "theorems": [
        "Leptos.View.C03_build_mount",
        "Leptos.View.C03_rebuild_eq_fresh",
        "Leptos.View.C03_rebuild_eq_fresh_stage1",
        "Leptos.View.C03_update_eq_fresh",
        "Leptos.View.C03_rebuild_seq",
        "Leptos.View.C03_unmount_exact",
        "Leptos.View.C03_any_type_change",
        "Leptos.View.C03_build_mount_attrvalues",
        "Leptos.View.C03_rebuild_eq_fresh_attrvalues",
        "Leptos.View.C03_rebuild_seq_attrvalues",
        "Leptos.View.C03_build_mount_items",
        "Leptos.View.C03_rebuild_eq_fresh_items",
        "Leptos.View.C03_rebuild_seq_items",
        "Leptos.View.C03_update_eq_fresh_items",
        "Leptos.View.AttrsFresh_items",
        "Leptos.View.AttrsRebuild_items",
        "Leptos.View.pairItems_sound",
        "Leptos.View.buildAttr_cells",
        "Leptos.View.rebuildAttr_cells",
        "Leptos.View.classTokens_join",
        "Leptos.View.styleDecls_styleText",
        "Leptos.View.styleDecls_ok",
        "Leptos.View.setCssProperty_attrs",
        "Leptos.View.removeCssProperty_attrs",
        "Leptos.View.rebuild_core",
        "Leptos.View.C03_staticvec_rebuild",
        "Leptos.View.C03_staticvec_rebuild_items",
        "Leptos.View.C03_staticvec_rebuild_child",
        "Leptos.View.C03_staticvec_rebuild_elem",
        "Leptos.View.staticvec_child_spec",
        "Leptos.View.build_mount_pframe",
        "Leptos.View.unmount_ready",
        "Leptos.View.StateOk.elemChild",
        "Leptos.View.C03_spread_typed",
        "Leptos.View.hasTy_spread",
        "Leptos.View.wf_spread",
        "Leptos.View.AttrsFresh_kv",
        "Leptos.View.AttrsRebuild_kv",
        "Leptos.View.Rep.serSim",
        "Leptos.View.C03_rebuild_eq_fresh_stmt_false",
        "Leptos.View.C03_class_overwrite_witness",
        "Leptos.View.C03_style_overwrite_witness",
        "Leptos.View.C03_dup_item_witness",
        "Leptos.View.C03_dup_item_rename_witness",
        "Leptos.View.C03_nodeless_old_branch_witness",
        "Leptos.View.C03_nodeless_old_branch_witness_opt_any",
        "Leptos.View.roots_ne_nil",
        "Leptos.View.C03_any_identical_value_fixed",
        "Leptos.View.C03_any_identical_value_witness_old",
        "Leptos.View.C03_toggle_rename_fixed",
        "Leptos.View.C03_toggle_rename_witness_old",
        "Leptos.View.C03_style_rename_fixed",
        "Leptos.View.C03_style_rename_witness_old",
        "Leptos.View.rebuild_spec",
        "Leptos.View.build_spec",
        "Leptos.View.replace_spec",
        "Leptos.View.inStage1_inFragment",
        "Leptos.View.AttrsFresh_static",
        "Leptos.View.AttrsRebuild_static",
        "Leptos.View.Rep.ser",
    ],
    "harness_pkg": "hx-c03",
    "harness_bin": "c03",
    "n": {"quick": 40000, "thorough": 600000},
    "trivial_tags": ["unit", "unmount", "text-same"],
    "rule": "(widened after seed round 4: the raw-text elements script / style / textarea / noscript (ESCAPE_CHILDREN = false) with text, "
            "Option, Either, Vec, element and AnyView children whose content changes across rebuilds; StaticVec<T> at top level (as the LAST "
            "child of the mount parent) and as the one child of a top-level element, with same-length / shrinking / growing rebuilds) "
            "(widened after seed round 3: every attribute item in every Rust string type of its value -- String, &'static str, "
            "Cow<'static,str>, Arc<str>, Oco<'static,str>, for style:(name,value) also of the property NAME -- and passed through "
            "into_cloneable() / into_cloneable_owned() before it is added, statically typed and inside AnyView (into_owned erases "
            "the attributes); the whole-value optional Style<Option<_>>; attribute spreading view.add_any_attr(attr) over tuples / Vec / "
            "Option / Either / arrays / one element, nested, and over AnyView (AnyViewWithAttrs; while F-C03-8 is unrepaired only with a "
            "content that keeps its type and its one top-level element); class-toggle NAMES and style-property NAMES / VALUES that are "
            "padded, contain white space, are empty or differ in case only, class / style strings with padding and case variants; "
            "the oracle also fails on a DOM exception logged by the op or by the fresh build) "
            "(widened after seed round 2: text children of type String / &'static str / Cow<'static,str> / Arc<str> whose successive values "
            "are fresh allocations or prefix / suffix / identical / whole slices of ONE interned buffer; arrays [T; N] incl. the node-less "
            "[T; 0] as first / middle / last tuple member and inside the old branch of Either / EitherOf3 / Option / AnyView switches) "
            "seeded generator over a closed family of ~120 concrete tachys view types (every combinator: String, (), tuples "
            "of arity 1-4, Option, Either, EitherOf3, Vec, AnyView incl. nested, HtmlElement<Div|Span|P|Ul|Li|Input|Br> with "
            "String / Option<String> / bool attribute values, class (String, Option<String>, (name, bool)) and style (String, "
            "(name, value), (name, Option<value>)) items, nested to depth 4); a case = generated pre/post siblings, build+mount "
            "of a value, 1-4 rebuilds with values of the SAME type that share parts with the previous value, optional unmount; "
            "strings from a small hostile alphabet (empty, markup, entities, whitespace, non-ASCII); the first cases walk "
            "through every type once; distinct = distinct op sequence; trivial = only unit / equal-text rebuilds",
    "trusted": [
        "hooks/native_dom.patch: tachys::renderer::native_dom (in-memory DOM with insertBefore/remove/classList/style "
        "semantics) standing in for the browser DOM",
        "lean/Driver/C03.lean reads over the `~<form><conv><kform>` suffix of attribute types (the model has one string type and no "
        "conversions), maps `oy` (Style<Option<_>>) to the optional named attribute `style`, and turns `x aty ty` (spreading) into "
        "View.spread / Ty.spread (the item becomes the last attribute of every top-level element; AnyView hands it to its content)",
        "StaticVec is covered by a C03-LOCAL wrapper in lean/Driver/C03.lean (`rebuildSv`; the shared View / State have no constructor): its "
        "state is the tuple state (no marker), build / mount / unmount are the tuple's, rebuild = model unmount of the old items, model build of the "
        "new ones, model mount with no marker (END of the parent) = StaticVec::rebuild at HEAD (that this composition gives the fresh render "
        "for a region at the end of its parent is a theorem: C03_staticvec_rebuild, _items, _child, _elem); for an element with a StaticVec child the "
        "element's attributes are rebuilt by the model's rebuild with the OLD children (a no-op on them)",
        "oracle normal form: attributes compared as a map, class as a token set, style as a declaration map, an empty "
        "class/style attribute identified with an absent one; node identity and mutation counters are compared between "
        "implementation and model but are not part of the property's oracle",
    ],
    "modelled": ["Rndr (native DOM: insert_node, remove, set_text, set/remove_attribute, classList add/remove, style "
                 "setProperty/removeProperty)", "Render::{build,rebuild} and Mountable::{mount,unmount,insert_before_this} "
                 "for String, (), tuples, Option, Either/EitherOfN, Vec, AnyView, HtmlElement, Attr<K,String|Option<String>|bool>, "
                 "Class<String|Option<String>|(&str,bool)>, Style<String|(String,String)|(String,Option<String>)>",
                 "[T; N] incl. N = 0 (ArrayState = tuple semantics; values are View.tuple of type Ty.arr n t)",
                 "text children &'static str / Cow<'static,str> / Arc<str> (one text type in the model: a rebuild may depend on contents "
                 "only; Arc<str> values are interned by contents in the harness because its rebuild compares pointers)",
                 "attribute value types &'static str / Cow / Arc<str> / Oco and the Cloneable / CloneableOwned forms of every item (ONE string "
                 "type in the model: type erasure and the conversions are transparent); Style<Option<_>> = optional named attribute `style`; "
                 "AddAnyAttr for tuples / Vec / Option / Either / arrays / HtmlElement / AnyView (View.spread: the spec of spreading, not a model "
                 "of AnyViewWithAttrs' state; AnyViewWithAttrs is never put INSIDE another AnyView because the model type of both is `any`)",
                 "raw-text elements are ordinary tags in the model (client build / rebuild does not look at ESCAPE_CHILDREN)",
                 "StaticVec: driver-local (see trusted), at top level as the last child and as the one child of a top-level element; NOT covered: "
                 "StaticVec in any other position (StaticVec::rebuild re-mounts at the END of its parent, so anywhere but last it leaves the property "
                 "at HEAD; C05 models that on the side as FragState), Fragment (= StaticVec<AnyView>, which IS generated), keyed lists (C11); "
                 "not in the grammar, checked by hand (hooks/c03_attr_findings_demo.rs, F-C03-9..12): Either as an attribute, CustomAttr with a "
                 "changing key, AnyAttribute changing its type, inner_html"],
    "assumptions": ["states are mounted (rebuild of a never-mounted Vec panics in Rndr::mount_before; not part of the property)",
                    "attribute names are the lower-case AttributeKey constants; class:(name,bool) names that are not one token are generated and "
                    "fall in the known class invalid-class-token (F-C03-7); the stage-2b theorems assume one-token names (itemOk)",
                    "strings contain no non-ASCII whitespace (str::trim in the style parser is modelled for the Unicode "
                    "White_Space set, split_ascii_whitespace for ASCII)"],
    "manifest": {
        "category": "proof",
        "text": "Lean 4 theorems over all view trees of the fragment (unbounded depth/width, arbitrary siblings): build+mount puts "
                "exactly `render v` between the siblings (C03_build_mount); rebuilding a mounted state of `a` with any `b` of the same type "
                "keeps the invariant StateOk and the parent serialises to pre ++ render b ++ post, i.e. what a fresh build+mount gives "
                "(C03_rebuild_eq_fresh, C03_update_eq_fresh), for any list of rebuilds (C03_rebuild_seq); unmount leaves exactly pre ++ post "
                "(C03_unmount_exact); an AnyView of another type is replaced in position by fresh nodes (C03_any_type_change). PROVED FRAGMENT: "
                "every structural combinator (text, (), elements incl. void, tuples, Option, Either/EitherOfN, Vec, AnyView) with static "
                "string attributes, each key once (decidable predicates View.inFragment / Ty.inStage1; exact serialisation) = stages 1 and 3 "
                "of DESIGN C03, and stage 2a (C03_*_attrvalues, View.inFragment2): String / Option<String> / bool attribute values and one "
                "whole-value class (String or Option<String>) and style string per element, every key once, attributes compared as a map; "
                "and stage 2b (C03_*_items, View.inFragment3 / View.pairItems): item-wise class:name=bool toggles and style:(name,value) / "
                "(name,Option<value>) properties next to named attributes and whole-value class / style strings, any number per element, "
                "incl. renames, blank values and optional properties, provided the footprints of the items of one element (named key, whole "
                "class, class token, whole style, normalised style property) are pairwise disjoint in the old value, in the new value and "
                "across the two on retained elements; elements compared on cells = the oracle's normal form (named attributes as a map, class "
                "as a token set, style as a declaration map), resting on proved string round trips for classList add/remove "
                "(classTokens_join) and style setProperty/removeProperty (styleDecls_styleText, styleDecls_ok). Option / Either / AnyView "
                "alternatives must be nodeful (Ty.wf; F-C03-6 nodeless-old-branch is the counterexample otherwise, kernel witness "
                "C03_nodeless_old_branch_witness). NOT PROVED: overlapping footprints (= the remaining finding classes below), toggle "
                "names that are not one token, style names / values containing ';' "
                "and stage 4 (keyed, not in the Lean View type). The full "
                "statement over every attribute shape (C03_rebuild_eq_fresh_stmt) is FALSE of the code: kernel-checked refutation "
                "C03_rebuild_eq_fresh_stmt_false plus one witness per remaining finding class (F-C03-1 class-overwrite, F-C03-2 style-overwrite, "
                "F-C03-5 dup-item), each replayed on the real tachys; further classes: F-C03-6 nodeless-old-branch, F-C03-7 invalid-class-token "
                "(a toggle name that is not one token is rejected by classList, consistently in build and rebuild); F-C03-8 (AnyViewWithAttrs::rebuild "
                "keeps the attribute states of the elements shown before the rebuild) has a proposed repair hooks/fix-c03-8.patch and is kept out of "
                "the generated inputs until it lands (SPREAD_ANY_REPAIRED in the harness; hooks/fix-c03-8.corpus.ops, hooks/fix-c03-8.demo.rs); "
                "string forms / into_cloneable[_owned] / type erasure of attribute values are transparent in the model, spreading is View.spread and "
                "keeps views well typed (C03_spread_typed); F-C03-1 (AnyView identical-value part), F-C03-3 toggle-rename and "
                "F-C03-4 style-rename are repaired in /repo (fix: commits, hooks/fix-c03-{1,3,4}.patch), the model follows the repaired code "
                "and keeps the pre-repair rebuildAttrOld with regression witnesses (*_witness_old / *_fixed). Tied to "
                "the code by a differential run of the real Render/Mountable impls under the native DOM against the compiled model "
                "(serialised children with node identity and per-node mutation counters), which also covers the unproved attribute shapes.",
        "design_ref": "DESIGN.md §7 C03",
        "note": "model hand-written, faithfulness checked by correspondence on generated inputs",
        "technique": "Lean 4 proof (staged, structural induction over view trees; separation-style invariant on the node table) "
                     "+ differential correspondence on the real tachys under the native DOM",
    },
}
