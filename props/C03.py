CFG = {
    "id": "C03",
    "hooks": True,
    "lean_theorems": "LeptosModel.Theorems.C03",
    "lean_exe": "lm_c03",
    "theorems": [
    ],
    "harness_pkg": "hx-c03",
    "harness_bin": "c03",
    "n": {"quick": 12000, "thorough": 400000},
    "trivial_tags": ["unit", "unmount", "text-same"],
    "rule": "seeded generator over a closed family of ~75 concrete tachys view types (every combinator: String, (), tuples "
            "of arity 1-4, Option, Either, EitherOf3, Vec, AnyView incl. nested, HtmlElement<Div|Span|P|Ul|Li|Input|Br> with "
            "String / Option<String> / bool attribute values, class (String, Option<String>, (name, bool)) and style (String, "
            "(name, value), (name, Option<value>)) items, nested to depth 4); a case = generated pre/post siblings, build+mount "
            "of a value, 1-4 rebuilds with values of the SAME type that share parts with the previous value, optional unmount; "
            "strings from a small hostile alphabet (empty, markup, entities, whitespace, non-ASCII); the first cases walk "
            "through every type once; distinct = distinct op sequence; trivial = only unit / equal-text rebuilds",
    "trusted": [
        "hooks/native_dom.patch: tachys::renderer::native_dom (in-memory DOM with insertBefore/remove/classList/style "
        "semantics) standing in for the browser DOM",
        "oracle normal form: attributes compared as a map, class as a token set, style as a declaration map, an empty "
        "class/style attribute identified with an absent one; node identity and mutation counters are compared between "
        "implementation and model but are not part of the property's oracle",
    ],
    "modelled": ["Rndr (native DOM: insert_node, remove, set_text, set/remove_attribute, classList add/remove, style "
                 "setProperty/removeProperty)", "Render::{build,rebuild} and Mountable::{mount,unmount,insert_before_this} "
                 "for String, (), tuples, Option, Either/EitherOfN, Vec, AnyView, HtmlElement, Attr<K,String|Option<String>|bool>, "
                 "Class<String|Option<String>|(&str,bool)>, Style<String|(String,String)|(String,Option<String>)>"],
    "assumptions": ["states are mounted (rebuild of a never-mounted Vec panics in Rndr::mount_before; not part of the property)",
                    "attribute names are the lower-case AttributeKey constants; class tokens are non-empty without whitespace",
                    "strings contain no non-ASCII whitespace (str::trim in the style parser is modelled for the Unicode "
                    "White_Space set, split_ascii_whitespace for ASCII)"],
    "manifest": {
        "category": "proof",
        "text": "",
        "design_ref": "DESIGN.md §7 C03",
        "note": "model hand-written, faithfulness checked by correspondence on generated inputs",
        "technique": "Lean 4 proof (staged, structural induction over view trees; separation-style invariant on the node table) "
                     "+ differential correspondence on the real tachys under the native DOM",
    },
}
