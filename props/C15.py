CFG = {
    "id": "C15",
    "lean_theorems": "LeptosModel.Theorems.C15",
    "lean_exe": "lm_c15",
    "theorems": [
        "Leptos.Url.C15_escape_unescape",
        "Leptos.Url.C15_query_once",
        "Leptos.Url.C15_path_param_once",
        "Leptos.Url.C15_path_param_lossy",
        "Leptos.Url.C15_query_roundtrip",
        "Leptos.Url.C15_collect_once",
        "Leptos.Url.C15_nested_params_once",
        "Leptos.Url.C15_nested_params_eq_flat",
        "Leptos.Url.C15_nested_double_decode_witness",
        "Leptos.Url.C15_double_decode_witness",
        "Leptos.Url.C15_panic_witness",
        "Leptos.Url.C15_path_param_panic_witness",
        "Leptos.Url.pctDecode_escape",
        "Leptos.Url.utf8Lossy_of_valid",
        "Leptos.Url.formParse_pieces",
        "Leptos.Url.pushAll_mapPairs",
    ],
    "harness_pkg": "hx-c15",
    "harness_bin": "c15",
    "n": {"quick": 6000, "thorough": 400000},
    "rule": "seeded generator over request targets built from percent-escape atoms (valid/invalid UTF-8, "
            "encoded % + & = #, double-encoded), arbitrary-Unicode strings for escape/roundtrip, raw path "
            "segments, the same segments and queries through a server-rendered <Router> app (flat and nested routes, use_params_map/use_query_map); a case is one op; distinct = distinct op line; non-trivial = every generated op "
            "(each contains at least one string position)",
    "trusted": [
        "url crate: URL parser outside the query component (the model takes the text after the first '?' up to '#'); "
        "its form_urlencoded::parse is also the harness oracle for 'decoded once'",
        "percent-encoding crate (modelled: pctDecode / escape), core::str UTF-8 validation and from_utf8_lossy (modelled: utf8Next)",
    ],
    "modelled": ["Url::escape", "Url::unescape", "ParamsMap::insert/to_query_string/FromIterator (collect of pair lists with adjacent and non-adjacent repeated keys)", "RequestUrl::parse (query part)",
                 "ParamSegment + ParamsMap::insert as the routers combine them",
                 "nested_router.rs params_including_parents (merge of the matched routes' decoded maps)",
                 "hooks.rs use_params_map / use_query_map as seen by a view of a server-rendered <Router> application "
                 "(<FlatRoutes>, and <Routes> with <ParentRoute>)"],
    "assumptions": ["request targets without ASCII whitespace/control characters and backslashes (the url crate strips/rewrites those before the query is seen)"],
    "manifest": {
        "category": "proof",
        "text": "Lean 4 theorems over all byte strings and all parameter maps (no size bound): escape/unescape round-trip, query values are the "
                "once-decoded pairs grouped by key with multiplicity and order, path parameters are decoded once (lossily, never a panic), "
                "to_query_string followed by parsing is the identity on maps; totality is carried by the model functions being total after the three "
                "repairs (fix: commits 8fe4d25, 879e1a0, 36ea226 in /repo; the pre-repair behaviour is kept as *Old definitions with kernel-checked regression "
                "witnesses). Tied to the code by a differential run of the real RequestUrl/ParamsMap/Url/ParamSegment against the compiled model.",
        "design_ref": "DESIGN.md §7 C15",
        "note": "model hand-written, faithfulness checked by correspondence on generated inputs; url crate parser trusted outside the query component",
        "technique": "Lean 4 proof (induction over byte lists) + refutation witnesses + differential correspondence",
    },
}
