CFG = {
    "id": "C15",
    "lean_theorems": "LeptosModel.Theorems.C15",
    "lean_exe": "lm_c15",
    "theorems": [
        "Leptos.Url.C15_escape_unescape",
        "Leptos.Url.C15_once_total_partial",
        "Leptos.Url.C15_path_param_once",
        "Leptos.Url.C15_insert_noTriple",
        "Leptos.Url.C15_double_decode_witness",
        "Leptos.Url.C15_once_full_false",
        "Leptos.Url.C15_panic_witness",
        "Leptos.Url.C15_total_full_false",
        "Leptos.Url.C15_path_param_panic_witness",
        "Leptos.Url.pctDecode_escape",
        "Leptos.Url.utf8Lossy_of_valid",
    ],
    "harness_pkg": "hx-c15",
    "harness_bin": "c15",
    "n": {"quick": 6000, "thorough": 400000},
    "rule": "seeded generator over request targets built from percent-escape atoms (valid/invalid UTF-8, "
            "encoded % + & = #, double-encoded), arbitrary-Unicode strings for escape/roundtrip, raw path "
            "segments; a case is one op; distinct = distinct op line; non-trivial = every generated op "
            "(each contains at least one string position)",
    "trusted": [
        "url crate: URL parser outside the query component (the model takes the text after the first '?' up to '#'); "
        "its form_urlencoded::parse is also the harness oracle for 'decoded once'",
        "percent-encoding crate (modelled: pctDecode / escape), core::str UTF-8 validation and from_utf8_lossy (modelled: utf8Next)",
    ],
    "modelled": ["Url::escape", "Url::unescape", "ParamsMap::insert/to_query_string/FromIterator", "RequestUrl::parse (query part)",
                 "ParamSegment + ParamsMap::insert as the routers combine them"],
    "assumptions": ["request targets without ASCII whitespace/control characters and backslashes (the url crate strips/rewrites those before the query is seen)"],
    "manifest": {
        "category": "proof",
        "text": "Lean 4 theorems over all byte strings: escape/unescape round-trip, single decode and no panic for every query whose "
                "once-decoded values contain no further %HH (partial; the full 'once' and 'total' statements are refuted by kernel-checked "
                "witnesses = known findings F-C15-1/2/3), tied to the code by a differential run of the real RequestUrl/ParamsMap/Url against the compiled model",
        "design_ref": "DESIGN.md §7 C15",
        "note": "model hand-written, faithfulness checked by correspondence on generated inputs; url crate parser trusted outside the query component",
        "technique": "Lean 4 proof (induction over byte lists) + refutation witnesses + differential correspondence",
    },
}
