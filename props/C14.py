CFG = {
    "id": "C14",
    "lean_theorems": "LeptosModel.Theorems.C14",
    "lean_exe": "lm_c14",
    "theorems": [
        "Leptos.Router.C14_partition",
        "Leptos.Router.C14_partition_nested",
        "Leptos.Router.C14_nested_complete",
        "Leptos.Router.C14_partition_nested_fallback_witness",
        "Leptos.Router.C14_params_are_segments",
        "Leptos.Router.C14_params_are_segments_opt",
        "Leptos.Router.C14_params_are_segments_noslash",
        "Leptos.Router.C14_segHead_is_first_token",
        "Leptos.Router.C14_static_is_whole_segment",
        "Leptos.Router.C14_expand_optionals",
        "Leptos.Router.C14_holds_none",
        "Leptos.Router.C14_holds_not_panic",
        "Leptos.Router.C14_static_prefix_witness",
        "Leptos.Router.C14_match_iff_flat_full_false",
        "Leptos.Router.C14_static_prefix_tuple_witness",
        "Leptos.Router.C14_slash_parent_witness",
        "Leptos.Router.C14_unaligned_panic_witness",
        "Leptos.Router.C14_base_slashes_witness",
        "Leptos.Router.C14_optional_parent_witness",
        "Leptos.Router.C14_optional_backoff_order_witness",
        "Leptos.Router.C14_optional_fallback_params_witness",
        "Leptos.Router.C14_optional_fallback_unwrap_witness",
        "Leptos.Router.C14_optional_fallback_overmatch_witness",
        "Leptos.Router.C14_nested_optional_tuple_witness",
        "Leptos.Router.C14_build_then_match",
        "Leptos.Router.C14_match_iff_flat_partial",
        "Leptos.Router.C14_match_iff_flat_partial_holds",
        "Leptos.Router.C14_simple_aligned_agrees",
        "Leptos.Router.C14_match_iff_flat_partial_general",
        "Leptos.Router.C14_aligned_variant_holds",
        "Leptos.Router.C14_tuple_nesting_flattens",
        "Leptos.Router.C14_same_atoms_same_match",
        "Leptos.Router.C14_first_match_wins",
        "Leptos.Router.C14_match_iff_flat_optional_free",
        "Leptos.Router.C14_aligned_without_slash_segments",
        "Leptos.Router.C14_slash_parent_exact",
        "Leptos.Router.C14_build_then_match_nested",
        "Leptos.Router.C14_build_then_match_table",
        "Leptos.Router.seq_build",
        "Leptos.Router.build_nested",
        "Leptos.Router.gmatch_build",
        "Leptos.Router.atom_aligned",
        "Leptos.Router.seq_aligned",
        "Leptos.Router.nested_aligned",
        "Leptos.Router.children_aligned",
        "Leptos.Router.route_aligned",
        "Leptos.Router.gmatch_eq_tmatch",
        "Leptos.Router.tmatch_eq_lenient",
        "Leptos.Router.patternTokens_wf",
        "Leptos.Router.strict_imp_gmatch",
        "Leptos.Router.gmatch_imp_lenient",
        "Leptos.Router.table_first",
        "Leptos.Router.judge_aligned",
        "Leptos.Router.pass_simple",
        "Leptos.Router.leaf_simple",
        "Leptos.Router.patternTokens_simple",
        "Leptos.Router.simple_eq_lenient",
        "Leptos.Router.expandOptionals_eq_spec",
        "Leptos.Router.test_partition",
        "Leptos.Router.nested_partition",
    ],
    "harness_pkg": "hx-c14",
    "harness_bin": "c14",
    # n = number of random route sets; the small-scope route families (every 1- and 2-segment leaf, nested
    # pairs, sibling pairs, bases: 380 sets) and the deep exhaustive sets are always included
    "n": {"quick": 200, "thorough": 800},
    "trivial_tags": ["fam-leaf", "fam-nested", "fam-sib", "fam-base", "rnd", "deep", "nested", "siblings", "opt", "splat",
                     "param", "tupnest", "rootseg", "base", "static", "nohit"],
    "exhaustive": {"quick": True, "thorough": True},
    "rule": "route sets: exhaustive small-scope families (all 1/2-segment leaves over static/param/optional/wildcard, "
            "7 parents x 38 children nested pairs, 36 sibling pairs, 4 bases x 5 leaves) + n seeded random trees "
            "(depth <= 3, <= 4 siblings, tuples nested to depth 2 with units, tuple and StaticVec containers, well-formed "
            "bases); paths: EXHAUSTIVE over the alphabet {/ a b e-acute %} up to length 4 after the leading slash for every "
            "route set (5 thorough), up to length 7 (8 thorough) for the deep sets, plus seeded paths built from the set's own "
            "flat routes and perturbed (inserted/removed characters, doubled and trailing slashes), plus build-then-match "
            "ops and direct segment tests incl. paths without a leading slash; a case = one route set x a block of 128 "
            "consecutive paths; non-trivial = the block contains a path the real router matches (or panics on), or a build op, "
            "or segment tests",
    "trusted": [
        "flat-table semantics fixed by DESIGN 7 C14: segments joined as integrations/axum to_axum_path joins them, split on '/', "
        "static tokens equal, param token non-empty, splat takes the rest (possibly empty); strict = no tolerance, lenient = one "
        "trailing '/' of the path ignored; the oracle requires strict => match and match => lenient (so it never demands more than the property states)",
        "matchit/axum itself is not run: the independent Rust flat matcher in the harness and `flatMatch` in Lean stand for the server's table",
        "route ids are read from RouteMatchId's Debug output (field is crate-private) to name the matched route at every nesting level",
    ],
    "modelled": ["StaticSegment/ParamSegment/OptionalParamSegment/WildcardSegment::test", "tuple test with include_optionals back-off",
                 "NestedRoute::match_nested incl. optional fallback + trim_end_matches + unwrap", "sibling containers (tuples, StaticVec)",
                 "RouteDefs::match_route (base stripping)", "generate_routes", "ExpandOptionals::expand_optionals (worklist)",
                 "StaticPath::into_paths (one value per param)", "integrations/axum to_axum_path (joining rule only)"],
    "assumptions": ["request paths start with '/'", "well-formed route definitions: wildcard only as last segment of a leaf, static texts non-empty and '/'-free "
                    "(or with one leading '/', or a whole route \"\" / \"/\"), base \"\" or \"/x[/y]\"",
                    "C14_match_iff_flat_optional_free: the full statement is proved unconditionally for well-formed tables without optional params and without \"/\" segments; C14_match_iff_flat_partial_general is proved for all well-formed route tables WITHOUT optional params, under SegmentAligned (which after fix-c14-1..3 only fails below a \"/\" segment, F-C14-2); "
                    "tables with optional params are covered by the correspondence run and the known-finding classes only"],
    "manifest": {
        "category": "proof",
        "text": "Lean 4 theorems over all paths/segment trees: matched++remaining=path for every segment kind, nested tuples and (optional-free-parent) nested routes; "
                "param values are path segments; static segments match whole path segments (after fix-c14-1); expand_optionals worklist = 2^k spec; build-then-match; "
                "'match iff flat table' proved for flat static/param routes on every path; the full statement over all route trees is refuted by kernel-checked witnesses "
                "('/'-parent, five optional-param defects) = known findings; F-C14-1/3/4/8 repaired by fix: commits, old behaviour kept as regression witnesses; tied to the code by exhaustive-path differential runs of the real leptos_router against the compiled model",
        "design_ref": "DESIGN.md §7 C14",
        "note": "model hand-written, faithfulness checked by correspondence (0 disagreements on >600k (route set, path) pairs per quick run); flat-table semantics per to_axum_path, matchit not executed",
        "technique": "Lean 4 proof (mutual structural induction over segment trees / route trees) + refutation witnesses + exhaustive small-scope differential correspondence",
    },
}
