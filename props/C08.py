CFG = {
    "id": "C08",
    "lean_theorems": "LeptosModel.Theorems.C08",
    "lean_exe": "lm_c08",
    "theorems": [
        "Leptos.Owner.C08_pass_terminates",
        "Leptos.Owner.C08_cleanup_never_twice",
        "Leptos.Owner.C08_cleanups_exactly_once",
        "Leptos.Owner.C08_cleanups_exactly_once_drop",
        "Leptos.Owner.C08_no_other_cleanup",
        "Leptos.Owner.C08_descendants_first",
        "Leptos.Owner.C08_descendants_first_drop",
        "Leptos.Owner.C08_handles_invalidated",
        "Leptos.Owner.C08_handles_invalidated_drop",
        "Leptos.Owner.C08_stale_key_never_resolves",
        "Leptos.Owner.C08_disposed_effect_never_runs",
        "Leptos.Owner.C08_effects_in_scope_never_run",
        "Leptos.Owner.C08_dropped_render_effect_never_runs",
        "Leptos.Owner.C08_scope_cleanup_cancels",
        "Leptos.Owner.C08_scoped_hook_registered",
        "Leptos.Owner.C08_held_owner_survives",
        "Leptos.Owner.C08_memo_rerun_releases",
        "Leptos.Owner.C08_effect_rerun_releases",
        "Leptos.Owner.C08_render_rerun_releases",
        "Leptos.Owner.C08_imm_rerun_releases",
        "Leptos.Owner.C08_imm_disposed_midrun_reruns",
        "Leptos.Owner.C08_imm_disposed_midrun_stops",
        "Leptos.Owner.C08_with_cleanup_releases",
        "Leptos.Owner.C08_watch_handler_unowned",
        "Leptos.Owner.C08_watch_handler_owned",
        "Leptos.Owner.C08_watch_handler_released",
        "Leptos.Owner.C08_frame",
        "Leptos.Owner.C08_frame_owners",
        "Leptos.Owner.C08_frame_items",
        "Leptos.Owner.C08_frame_owners_drop",
        "Leptos.Owner.C08_frame_items_drop",
        "Leptos.Owner.C08_context_nearest",
        "Leptos.Owner.C08_take_unshadows",
        "Leptos.Owner.C08_context_survives_cleanup",
        "Leptos.Owner.C08_context_fresh_full_false",
        "Leptos.Owner.C08_context_fresh_partial",
        "Leptos.Owner.C08_no_leak",
        "Leptos.Owner.C08_unowned_item_leaks",
        "Leptos.Owner.C08_no_leak_full_false",
        "Leptos.Owner.C08_detached_child_example",
        "Leptos.Owner.reachable_runOps",
    ],
    "harness_pkg": "hx-c08",
    "harness_bin": "c08",
    # the arena-length hook (hooks/arena_len.patch, in /repo as commit "verif hook: read-only arena length accessor")
    # is used when present (the harness also compiles and runs without it): with `--cfg leptos_verif` the harness
    # additionally checks `verif_len() - baseline == number of live retained handles` on every line
    "hooks": True,
    "n": {"quick": 6000, "thorough": 100000},
    "trivial_tags": ["plain", "end"],
    "rule": "owner-tree programs on the real reactive_graph under the controlled executor: bodies (token lists) of "
            "effects (Effect::new/new_sync/new_isomorphic/watch/watch_sync, RenderEffect::new/new_isomorphic, AsyncDerived, "
            "ImmediateEffect::new/new_scoped/new_mut/new_isomorphic)/memos/scoped tasks (spawn_local_scoped, spawn_local_scoped_with_cancellation, "
            "ScopedFuture; two segments each) that create signals, stored values, cleanups (plain and registering-during-cleanup), contexts, "
            "nested effects/memos/owners/tasks and write signals (`z`: the recursive shape of an immediate effect); histories of creation under up to two nested `Owner::with`, `cleanup`, handle drop, `set(); unset()` of a root with its last handle, "
            "`dispose`, direct `with_cleanup`, signal writes + poll/idle schedules, pause/resume, context lookups (use / expect / with / take / update_context); first block = the context matrix "
            "(a chain of 4 owners, the same type provided at every subset of the levels x take_context from each level repeated until nothing is left, "
            "every lookup API from every level in between, re-provide + update_context; 5 nested-effect shapes), the scoped-task matrix "
            "(3 spawn functions x 5 spawning scopes: owner handle / effect / render effect / immediate effect / with_cleanup x release of the spawning "
            "scope before the first poll / between the polls / after completion x by cleanup / re-run / drop), the recursive shapes (7 kinds x 3 bodies "
            "that write one of their own dependencies after allocating) and the re-run matrix "
            "(16 kinds of owner-scoped re-run x 7 classes of what the body allocates: only plain arena values / only cleanups / only child owners / "
            "nested effect / nested memo / mixture / nothing, x 2 endings), then every sequence of "
            "3 (thorough: 4) ops over a 14-op alphabet after a fixed nested-effect prelude (exhaustive small scope), rest = seeded random "
            "(depth <= 5); a case = one history; distinct = distinct op list; non-trivial = a case with a re-run, nested creation, "
            "cleanup, drop, dispose or context op (tags)",
    "exhaustive": {"quick": False, "thorough": False},
    "trusted": [
        "slotmap crate (modelled: versioned keys, LIFO free list; version wrap after 2^32 reuses of one slot not modelled)",
        "std::sync::{Arc, Weak, RwLock} (modelled: `alive` = strong count > 0; lock re-entrancy not modelled)",
        "any_spawner + hx_common::sched controlled executor; futures::task::AtomicWaker (modelled: `ready` list)",
    ],
    "modelled": ["Owner::{new, child, with, with_cleanup, cleanup, on_cleanup, register, pause, resume}", "impl Cleanup for RwLock<OwnerInner>",
                 "Drop for OwnerInner", "Arena (SlotMap)", "ArenaItem::{new_with_storage, try_with_value, dispose, is_disposed}",
                 "provide_context / use_context / expect_context / with_context / take_context / update_context", "StoredValue", "Effect::new / new_sync / new_isomorphic / watch / watch_sync task loops + channel close (watch handler as repaired by hooks/fix-c08-2.patch)", "RenderEffect::new / new_isomorphic", "AsyncDerived::new (future ready at once)",
                 "ImmediateEffect::{new, new_scoped, new_mut, new_isomorphic, dispose} + update_if_necessary / mark_dirty / add_source (recursion counters)",
                 "spawn_local_scoped / spawn_local_scoped_with_cancellation / ScopedFuture::{new, poll} (futures::future::Abortable trusted: abort flag checked before and after the inner poll)",
                 "RwSignal::try_set notifying a snapshot of the subscribers in subscription order", "Memo (signal sources only)"],
    "assumptions": [
        "default features (one process-wide arena; `sandboxed-arenas` off); single thread",
        "values stored in the arena do not themselves call back into the arena from their destructors while the arena lock is held "
        "(the code removes nodes under the write lock; a destructor that re-enters would deadlock — not reachable from the op grammar)",
        "memos read signals only and effects read memos untracked (the propagation protocol is C01/C02/C09's subject)",
        "signal writes from bodies are monotone (`if s < v { s.set(v) }`, v <= 3 in generated cases) so that every cascade of immediate effects terminates; "
        "no writes inside memos and inside `new_mut` functions (they panic on recursion); "
        "scoped tasks are not spawned from inside a memo or a `new_scoped` effect (their owners are dropped by an arena value / a cleanup closure, "
        "outside the reference count the model keeps for owners)",
    ],
    "manifest": {
        "category": "proof",
        "text": "Lean 4 theorems over all op histories / all runs of the cleanup machine of an executable model of Owner, the slot-map arena, "
                "contexts and effect disposal, tied to the code by a differential run of the real reactive_graph (feature effects) under a "
                "controlled executor against the compiled model, plus an independent bookkeeping oracle of the property's clauses",
        "design_ref": "DESIGN.md §7 C08",
        "note": "model hand-written, faithfulness checked by correspondence on generated histories; slotmap/Arc/RwLock trusted",
        "technique": "Lean 4 proof (small-step machine invariants + induction over histories) + refutation witness + differential correspondence",
    },
}
