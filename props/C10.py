CFG = {
    "id": "C10",
    "lean_theorems": "LeptosModel.Theorems.C10",
    "lean_exe": "lm_c10",
    "theorems": [
        "Leptos.Async.Inv.run",
        "Leptos.Async.C10_settles_loading_off",
        "Leptos.Async.C10_settles_on_latest",
        "Leptos.Async.C10_settles_on_latest_history",
        "Leptos.Async.C10_awaiters_resumed",
        "Leptos.Async.C10_await_never_panics",
        "Leptos.Async.C10_awaiter_parked_or_woken",
        "Leptos.Async.C10_holder_woken_on_release",
        "Leptos.Async.C10_writer_woken_when_guards_gone",
        "Leptos.Async.C10_guard_held_witness",
        "Leptos.Async.LOK.run",
        "Leptos.Async.C10_no_awaiter_lost",
        "Leptos.Async.C10_awaiter_parked_or_woken_strict",
        "Leptos.Async.C10_awaiter_lost_after_manual_write_witness",
        "Leptos.Async.C10_paused_runs_nothing",
        "Leptos.Async.C10_paused_starts_no_load",
        "Leptos.Async.C10_notified_again_reaches_task",
        "Leptos.Async.C10_dirty_poll_refetches",
        "Leptos.Async.C10_paused_stale_until_notified_witness",
        "Leptos.Async.C10_resume_then_write_settles_witness",
        "Leptos.Async.C10_no_renotify_witness",
        "Leptos.Async.settles_of",
        "Leptos.Async.Good.write_after_paused_poll",
        "Leptos.Async.runP_onePause",
        "Leptos.Async.C10_resume_then_write_settles_partial",
        "Leptos.Async.C10_sync_access_blocks_witness",
        "Leptos.Async.C10_sync_read_blocks_only_while_storing",
        "Leptos.Async.C10_sync_read_is_previous_or_none",
        "Leptos.Async.C10_notify_marks_every_subscriber",
        "Leptos.Async.C10_dependents_notified_each_transition",
        "Leptos.Async.C10_version_check_redundant",
        "Leptos.Async.RInv.run",
        "Leptos.Async.C10_reads_subscribed",
        "Leptos.Async.C10_dependency_set_is_reads",
        "Leptos.Async.C10_in_flight_reads_current",
        "Leptos.Async.SInv.run",
        "Leptos.Async.C10_suspense_pending_while_covered",
        "Leptos.Async.C10_suspense_released_when_idle",
        "Leptos.Async.C10_suspense_released_when_settled",
        "Leptos.Async.C10_suspense_forgets_dropped_readers",
        "Leptos.Async.C10_suspense_reload_after_drop_unnoticed",
        "Leptos.Async.C10_suspense_idle_without_readers",
        "Leptos.Async.C10_suspense_forgets_dropped_readers_partial",
        "Leptos.Async.C10_suspense_stale_ids_released_with_the_run",
        "Leptos.Async.C10_suspense_forgets_dropped_readers_full_false",
        "Leptos.Async.SInv.runF",
        "Leptos.Async.C10_dirty_stolen_witness",
        "Leptos.Async.C10_settles_on_latest_old1_false",
        "Leptos.Async.C10_stale_initial_witness",
        "Leptos.Async.C10_settles_on_latest_old2_false",
        "Leptos.Async.C10_stale_registration_witness",
        "Leptos.Async.runV_repaired",
        "Leptos.Async.run_src",
        "Leptos.Async.run_lastManual",
    ],
    "harness_pkg": "hx-c10",
    "harness_bin": "c10",
    "n": {"quick": 12000, "thorough": 400000},
    "trivial_tags": ["converted-handle", "synchronous-observer", "plain", "no-effect", "effect-d", "settled", "fresh-completion", "multi-source", "init-value", "resource", "once-resource",
                     "local-resource", "memo-source", "dynamic-reads"],
    "rule": "the real handles on the harness-controlled executor, fetcher futures = oneshot receivers resolved by `complete`: reactive_graph "
            "ArcAsyncDerived/AsyncDerived (sync and unsync constructors, with/without initial value; 1-2 source signals read directly or through one "
            "memo of all of them) and leptos_server Resource/ArcResource/Resource::new_blocking (source fn = all sources, `refetch` = Resource::refetch), "
            "OnceResource/ArcOnceResource, LocalResource/ArcLocalResource (tick tasks of Executor::tick() appear in the ready list); optional subscriber "
            "Effect reading the handle (alone, or before/after a memo of the sources); awaiters (`.await`, `ready()`, `by_ref()` where the API has them) "
            "attached at generated points; fetchers with CONDITIONAL / INDEXED reads (`R0/-/C1`: flag in the closure body, extra input only when the flag is "
            "non-zero and only after the await; `-/R0.X/-`: indexed input in the async block before its first await; 12 such programs over 2-3 "
            "sources) so that an input is first read in a later run: every sequence of length 4 over {flag writes, writes to the extra inputs, "
            "complete, idle} before and after a first load, each followed by a write to the newly read input after settling; a stand-in <Suspense/> boundary (child owner providing a SuspenseContext) under which READERS come and go: "
            "`bread` = a new child owner reads the value synchronously at every phase (no value + loading, value + idle, value + reloading), `attach s` = a "
            "new child owner awaits the value (ScopedFuture in that owner, like a Suspend), `bdrop` = every reader is disposed (Owner::cleanup, the awaiting "
            "futures aborted). Cases: EVERY op sequence of length <= 3 over {set, refetch, "
            "mset, complete, attach, poll 0/1/2} and of length 4 over {set, complete, mset, poll 0/1} for every effect kind and both source modes; every "
            "interleaving of two source writes with completions and polls after 5 preambles; for the boundary every sequence of length <= 4 over {set, "
            "complete, bread, poll 0/1, idle} on 6 handle flavours plus length 3 over {set, complete, bread, poll 0/1, mset, refetch} after a first "
            "load; readers that go away: every sequence of length <= 3 (6 flavours) / 4 (2 flavours) over {set, complete, bread, attach s, bdrop, poll 0/1, idle}, "
            "length 3 over {set, complete, bread, attach s, bdrop, poll 0/1} after 3 preambles (a reader has read / awaited the loaded value; both during "
            "the first load), each followed by one more reload after settling; local resources length <= 3, once-resources length <= 4 with bdrop; for resources every sequence of length <= 3 over {set, refetch, complete, poll 0/1, idle, mset, attach}, length 4-5 over {set, "
            "refetch, complete, poll 0, idle} (also after a first load); local resources length <= 3 over {set, refetch, complete, attach, bread, poll "
            "0/1/2}, 4-5 over {set, complete, poll 0/1/2}; once-resources length <= 3 over {complete, attach, attach r, bread, poll 0/1/2, idle}; READERS THAT HOLD A GUARD on the value (`attach h`: "
            "`let g = d.by_ref().await; record(*g); release.await; drop(g)`; `hold`: the harness keeps a `read_untracked()` guard; `release` gives every "
            "guard back) while sources change, reloads complete (the derived's task then waits in `value.write().await` with loading still on) and new "
            "awaiters of every future kind (`.await`, `by_ref()`, `ready()`) arrive: every sequence of length <= 3 over {set, complete, attach v/b/r/h, "
            "hold, release, poll 0/1, idle} on 6 handle flavours, length 4 over {set, complete, attach, attach h, hold, release, poll 0/1} on 2, length 4 "
            "over {set, complete, attach v/b/r, release, poll 0/1} after 3 preambles in which a reader already holds the first value, each ending with "
            "`release` and a settle suffix; HANDLE CONVERSIONS (cfg kind `k~chain`: `a` = .into() the Arc type, `r` = .into() the arena type, `c` = clone; "
            "17 chains over Resource/ArcResource, LocalResource/ArcLocalResource, AsyncDerived/ArcAsyncDerived — OnceResource has no From impls): every "
            "sequence of length <= 3 over {set, refetch, complete, attach, bread / mset, poll, idle} through the converted handle, also after a first load; A PAUSED OWNER (`pause` / `resume` = Owner::pause/resume "
            "on the derived's owner, after its first run): every sequence of length 4 over {set, refetch, complete, pause, resume, poll 0, idle, attach} after "
            "a first load on 5 flavours, each ending with resume, settle, one more write with the owner running, settle (then the value must be the "
            "latest; while a notification was consumed under pause and no write followed with the owner running a stale value is allowed: \"until "
            "notified again\"); DEPENDENTS THAT PEEK (effect kinds `dp`/`dq`: `by_ref()` / `.await` polled once with now_or_never() and dropped) during a "
            "first load: every sequence of length <= 4 over {complete, poll 0/1/2, idle, attach} on 7 flavours x 2: the dependent must run again when the "
            "load has finished; a SYNCHRONOUS OBSERVER (ImmediateEffect reading `.get()`) on every once-resource case and, as cfg effect kind `i`, on every "
            "AsyncDerived-based flavour (arc/arena sync+unsync, with initial value, through a memo, Resource/ArcResource/blocking, LocalResource/Arc, "
            "converted handles): every sequence of length <= 3 over {set, refetch, complete, attach, poll 0/1, idle}, also after a first load: what it "
            "saw at its last run (inside the completion's notification) must be the loaded value (harness-side oracle clause sync-observer-stale); "
            "a WATCHDOG thread in the harness turns an op that does not return within 10 s (the thread blocked for good) into the verdict "
            "`fail sync-observer-deadlock`, fills in the rest of the output and ends the run, so a hang is a reported violation, not a stuck check; then "
            "seeded random histories over all flavours (<= 30 ops, <= 4 awaiters); each followed by a settle suffix. Observable after every op: ready "
            "list (task kinds d/e/a/r/t), value and loading flag as the public API shows them, fetches started, inputs captured by the last fetch, what "
            "every awaiter resumed with, every run of the subscriber effect, the boundary's task-list length. Oracle (harness bookkeeping only): value "
            "never fabricated; whenever idle: the boundary's task list is non-empty while a load it has read from is in flight and empty when none is; ALWAYS: while no reader exists under the boundary (none "
            "created since the last `bdrop`) its task list holds nothing but the handles of synchronous reads still waiting for the load they were made "
            "in (reader tasks not yet polled with loading off): class suspense-stale = KNOWN FINDING F-C10-3 (= F-C04-5), the model reproduces every hit; at "
            "settled points loading off, value = last manual write or fetch(latest sources), all awaiters resumed, effect saw the current value. "
            "trivial = no tag other than the flavour/settled/fresh-completion ones",
    "trusted": [
        "hx_common::sched controlled executor standing in for any single-threaded executor (tasks polled one at a time)",
        "futures::channel::oneshot (fetcher futures), futures::task::AtomicWaker (modelled: wake takes the registered waker), async_lock::RwLock "
        "(uncontended on one thread: read/write acquire immediately)",
    ],
    "modelled": ["spawn_derived! task loop (arc_async_derived.rs)", "ArcAsyncDerived::notify_subs / set_inner_value", "ArcAsyncDerivedInner as ReactiveNode "
                 "(mark_dirty, update_if_necessary; Notifying)", "AsyncDerivedFuture / AsyncDerivedReadyFuture / AsyncDerivedRefFuture poll", "Write/Set impl "
                 "(manual write = store + notify)", "channel.rs", "Effect::new task + EffectInner::update_if_necessary", "MemoInner mark_dirty/update_if_necessary "
                 "(one memo over signals)", "ScopedFuture (observer re-installed on every poll: reads before and after an await are tracked)", "the value lock "
                 "(async_lock::RwLock: read guards of by_ref()/read(), set_inner_value's `value.write().await` as a suspension point of the task, "
                 "writer preference, the `(loading, lock.poll)` match of AsyncDerivedFuture / AsyncDerivedRefFuture incl. the `(false, Pending)` arm)", "ArcAsyncDerived::try_read_untracked / AsyncDerivedFuture::poll under a SuspenseContext + the loop's suspense_ids (task ids held per fetch; "
                 "not tied to the reader: known finding F-C10-3; the proposed repair hooks/fix-c10-3.patch is the model's `runF true`)",
                 "leptos_server ArcResource::new_with_options (source memo (refetch, source()), untracked fetcher, refetch)", "ArcOnceResource (one future; "
                 "Suspense handle only while there is no value)", "ArcLocalResource/LocalResource (Executor::tick() before every fetch; refetch = tracked signal)"],
    "assumptions": [
        "a function that writes its own source during its FIRST synchronous run (cfg kinds `k!n` / `k!!n`: `let v = s.get(); if v < n { s.set(n) }`, plain "
        "AsyncDerived kinds, one source, no effect; every sequence of length <= 3 over {set, refetch, complete, attach, poll 0, idle} on 16 cfgs) is, from the "
        "model's point of view, the history `create, then set before the first poll` (initial future pending) resp. `first load done, task spawned and "
        "woken, then set` (initial future ready at once: the harness completes fetch 0 inside the function); the driver builds that state "
        "(selfWriteInit), the model has no write-inside-the-fetcher step; Resource fetchers (separate source fn) are not driven this way",
        "Owner::pause/resume is modelled in lean/LeptosModel/Model/AsyncPause.lean (`pollDPaused`, `stepP`, `runP`; the driver calls `pollNthP`), an extension "
        "next to Model/Async.step: the task consumes its notification, keeps its Dirty state, runs nothing. Proved for EVERY state (Theorems/C10Pause.lean): a "
        "paused poll runs nothing; a notification with the owner running always reaches the task; a Dirty task polled with the owner running refetches on the "
        "current sources; kernel witnesses: stale until notified again, settles after a later write, the seeded no-renotify variant stuck for good. History level: "
        "C10_resume_then_write_settles_partial (histories with ONE pause under which the task is polled at most once, the write after resume going to a "
        "source the derived reads; everything else arbitrary): every settled point after the write has loading off and the value for the latest inputs "
        "(Proofs/AsyncPause.lean: a write after a swallowed notification restores both invariants). The full "
        "history-level statement (C10_resume_then_write_settles_open: several polls under pause, several pauses) stays an OPEN def, not claimed: the history-level theorems of Theorems/C10.lean are "
        "about histories without `pause` (a paused history leaves the invariant: Dirty with the channel flag cleared); driven after the first run, without effect, manual writes, guards, once/local resources",
        "peeking dependents (`dp`/`dq`) are driven on first loads only (no initial value, no set/refetch/mset: during a reload a peek reads None where get() "
        "reads the old value) and map to the model's effect kind `d`; the synchronous observer (ImmediateEffect) is implementation-side only (separate log, "
        "oracle clauses; with it no manual writes, guards or pauses are driven)",
        "guards on the value are driven on plain configurations only: no subscriber effect, a fetcher that reads nothing after its await, no manual "
        "write in the same case, not on once / local resources (no by_ref()); while a guard is held, or the derived's task waits for the write lock, "
        "the harness makes no synchronous access (val shows `~`; `bread`/`get`/`hold` are refused): such an access blocks the thread for good "
        "(blocking_read_arc behind a waiting writer; blocking_write behind a reader) — reported as F-C10-4, not driven",
        "single-threaded executor (cross-thread races are C19)",
        "sources of the derived are plain signals, or one memo of all of them, read synchronously when the fetcher is called; the subscriber effect may read a second memo",
        "manual writes write Some(v) (a manual `None` with loading off makes `.await` panic on unwrap: outside the property)",
        "the Suspense boundary is a stand-in (owner + SuspenseContext + task list, as tachys' Suspense sets up); readers are child owners of it that read synchronously "
        "(`get_untracked`) or await (`ScopedFuture`, as a Suspend does; the Suspend's own task id, held by tachys, is not part of the stand-in); all readers "
        "are disposed together (`bdrop`); AsyncTransition (ready_tx) is not driven",
        "leptos_server is built natively without `ssr`/`hydration`: no shared context, so resources start unresolved and nothing is serialised; "
        "LocalResource takes its client path (tick + fetch); the codecs other than the default JSON one are not exercised",
        "a OnceResource has no sources: its future is started on the inputs given in the cfg line; `set`/`refetch`/`mset` do not apply to it",
    ],
    "manifest": {
        "category": "proof",
        "text": "Lean 4 invariant proof over ALL configurations (sources read directly or through a memo, any subscriber effect) and ALL event lists "
                "(source writes, refetches, manual writes, completions, awaiter attachments, polls of any woken task in any order): at every settled "
                "point loading is off, the value is the fetcher's result for the LATEST source values (or the last manual write if that came later) and "
                "every awaiter has resumed with a value; reads change only by a manual write or by consuming a completed fetch; an idle executor means "
                "the subscriber saw the current value. A Suspense boundary that has read from the load in flight is waiting and is released when "
                "nothing is in flight. KNOWN FINDING F-C10-3 (= F-C04-5, class suspense-stale): the boundary joins the next reload on behalf of readers that "
                "have been disposed (full statement refuted by a kernel witness; proved: the damage is limited to the registrations left behind, the stale id "
                "goes when that run returns, afterwards the boundary is not joined again; proved about the model with the PROPOSED repair hooks/fix-c10-3.patch "
                "switched on: nothing registered, no task id held, task list never growing, whatever happens short of a new reader). "
                "The statement is about the code after two repairs (F-C10-1 a dependent's check consumed the "
                "derived's Dirty state; F-C10-2 stale initial future reused when a memo source changed before the first poll); the pre-repair code is "
                "kept as an executable chain with kernel-checked regression witnesses that replay on the unrepaired code. Tied to reactive_graph by "
                "differential correspondence (exhaustive small op sequences + random).",
        "design_ref": "DESIGN.md §7 C10",
        "note": "hand-written model validated by correspondence; fetches are serialised by the task loop, so the `latest_version == this_version` test is "
                "provably redundant (C10_version_check_redundant) and removing it is an equivalent mutant",
        "technique": "Lean 4 proof (state invariant + induction over event lists) + refutation witness (decide) + differential correspondence over schedules",
    },
}
