CFG = {
    "id": "C18",
    "lean_theorems": "LeptosModel.Theorems.C18",
    "lean_exe": "lm_c18",
    "extract": ["Elements"],
    "theorems": [
        # the two paths and the real (mixed) expansion, over all templates of the grammar (structural induction)
        "Leptos.Macro.C18_builder_denotes",
        "Leptos.Macro.C18_macro_denotes",
        "Leptos.Macro.C18_inert_denotes",
        "Leptos.Macro.C18_paths_agree",
        "Leptos.Macro.C18_macro_eq_builder",
        # the streaming entry points: async emitter = sync emitter
        "Leptos.Macro.C18_stream_eq_sync",
        "Leptos.Macro.C18_stream_denotes",
        "Leptos.Macro.expHtmlAsync_eq",
        # below a parent that does not escape its own text (<noscript>): static path = builder path = what the children denote
        "Leptos.Macro.C18_raw_parent_builder",
        "Leptos.Macro.C18_raw_parent_static",
        "Leptos.Macro.C18_raw_parent_macro",
        "Leptos.Macro.macro_denotes_top",
        # static text after a closed raw-text sibling: siblings are printed independently
        "Leptos.Macro.C18_inert_siblings_independent",
        # unit-typed blocks and components with spread attributes
        "Leptos.Macro.C18_unit_denotes_nothing",
        "Leptos.Macro.C18_spread_names",
        # adding a dynamic part leaves the static parts alone (one-hole contexts)
        "Leptos.Macro.C18_static_parts_stable",
        "Leptos.Macro.C18_static_parts_stable_block",
        # the remaining finding class lies outside the hypothesis of the theorems above
        "Leptos.Macro.C18_classes_excluded",
        # raw-text elements with one string child (formerly the OPEN statement)
        "Leptos.Macro.C18_rawtext_single",
        "Leptos.Macro.raw_parse",
        # <textarea> text: escaped on both paths (tachys 7006223 / 01b809d, macro fix-c18-5), for every string
        "Leptos.Macro.C18_textarea_single",
        "Leptos.Macro.run_textareaBody",
        "Leptos.Macro.C18_textarea_static_regression",
        # the forced-dynamic twin
        "Leptos.Macro.C18_twin_same_view",
        "Leptos.Macro.C18_twin_same_view_kids",
        "Leptos.Macro.C18_twin_same_meaning",
        "Leptos.Macro.C18_twin_same_meaning_kids",
        # refutation of the full statements (kernel-evaluated witness, replayed on the real macro: corpus/C18)
        "Leptos.Macro.C18_rawtext_marker_witness",
        "Leptos.Macro.C18_paths_agree_full_false",
        "Leptos.Macro.C18_macro_denotes_full_false",
        # regression witnesses: the compile-time printer before fix-c18-1, -3, -4 (inertHtmlOld / macroHtmlOld)
        "Leptos.Macro.C18_noscript_inert_regression",
        "Leptos.Macro.C18_class_unicode_ws_regression",
        "Leptos.Macro.C18_empty_text_regression",
        "Leptos.Macro.C18_paths_agree_old_false",
        # the macro's hard-coded lists against the runtime table, regenerated from the source on every run
        "Leptos.Macro.C18_table_lists",
        "Leptos.Macro.C18_table_void",
        "Leptos.Macro.C18_table_void_full_false",
        "Leptos.Macro.C18_table_void_partial",
        "Leptos.Macro.C18_table_noescape",
        "Leptos.Macro.C18_table_noescape_old_false",
        # the lemmas the theorems rest on
        "Leptos.Macro.inert_html",
        "Leptos.Macro.inert_struct",
        "Leptos.Macro.inert_wf",
        "Leptos.Macro.rel_view",
        "Leptos.Macro.struct_view",
        "Leptos.Macro.wf_view",
        "Leptos.Macro.macroHtml_eq",
        "Leptos.Macro.normAttrs_builder",
        "Leptos.Macro.normAttrs_inert",
        "Leptos.Macro.attrsHtml_inert",
        "Leptos.Macro.macroEscapes_eq",
        "Leptos.Macro.structure_preserved",
        "Leptos.Macro.seen_ok",
        "Leptos.Html.run_kids",
    ],
    "harness_pkg": "hx-c18",
    "harness_bin": "c18",
    "n": {"quick": 3000, "thorough": 300000},
    "rule": "a FIXED family of ~360 template shapes (systematic sections + 170 pseudo-random ones from their own generator state) is compiled once with the real view! macro (harness/hx-c18/src/shape.rs, "
            "build.rs): every attribute form alone and in pairs on an inner element, every tag of the family (10 block, 8 inline, "
            "p/h1-h3, a/button, 5 void, 2 custom, svg/g/circle/rect/path, textarea/script/style/noscript/title) as an inner static "
            "element, roots that are text / several nodes / fragments / the component <Wrap>, the shapes of the four finding "
            "classes (three of them repaired: regression shapes), EVERY node kind the macro accepts in every position (fragments "
            "with 0/1/2/3 children and nested in each other, comments, unquoted text, components with children and nested "
            "components, MathML and SVG subtrees, 17-20 children so that tuples are chunked — each inside a fully static and "
            "inside a dynamic non-root element, at the root, inside fragments and components; <!DOCTYPE html> as first root), elements with markup-significant text "
            "BELOW <noscript> (the one non-escaping element that may contain markup) on the static and on the builder path, custom "
            "elements with dynamic attributes/children, <textarea> literals with & < > </textarea> and a leading line feed, the "
            "self-closing syntax <tag …/> on non-void / custom / SVG elements (about half of all childless elements), boolean / "
            "int / float / char LITERAL attribute values, white-space-only and NBSP text (also in <pre>) — each in static and in "
            "dynamic subtrees, blocks of unit type ({()} {} {let _ = 1;} {None::<String>} {Vec::<String>::new()}) at every child "
            "position, the components <Wrap> and <Card> with spread attributes (attr: names of one word / one dash / several "
            "dashes / aria-* / data-* / first segment = typed attribute function; class: style: attr:class; static, dynamic, "
            "literal values), text and elements after a closed raw-text sibling, then pseudo-random templates of depth <= 3 (0-3 attributes of 8 forms per element, quoted and unquoted text, "
            "{blocks} only in dynamic subtrees, fragments (possibly empty), comments, components, svg, math in static and dynamic "
            "subtrees alike; 3/5 of the subtrees without dynamic holes). Each shape in three "
            "variants: as written, forced-dynamic twin (every literal a {..} with the same value), one extra dynamic sibling inside "
            "a seed-independent element. The seed chooses the values of all dynamic holes (hostile alphabet < > & \" ' = ` <!-- --> "
            "]]> </script </title> &amp; &#x3c; multi-byte, arbitrary scalar values, class/style-shaped strings, empty strings) and "
            "the first shape; cases cycle through all shapes. A case = the three variants + an agreement op (80%), or one variant "
            "alone with all holes random (20%). EVERY render goes through three entry points: to_html(), "
            "to_html_stream_in_order().collect(), to_html_stream_out_of_order().collect() — all three are compared with the model "
            "(sync emitter / async emitter) and checked by the tree oracle (the *_branching variants run the same emitters with "
            "TypeId-valued <!--bo/bc--> comments around AnyView and are not compared). distinct = distinct op lines; trivial (`plain`) = no tag at all (never happens: every "
            "case renders at least one variant)",
    "trusted": [
        "rstml (the template parser in front of leptos_macro::view): the harness writes the template source, rstml parses it; the "
        "model starts from the node tree (text literals, unquoted text of single-spaced words, blocks, elements, fragments)",
        "rustc macro expansion and type checking of the generated code (harness build step)",
        "html-escape 0.2.13 (modelled in C06: escapeWith + extracted tables); the HTML standard as transcribed twice in C06 "
        "(Leptos.Html.parse, hx_c06::html); SVG elements are parsed as custom elements x-<tag> on both sides (foreign content is "
        "outside the parser subset; leptos emits neither '/>' nor CDATA)",
        "extract.py (table Elements: macro void / no-escape lists, tachys element rows)",
        "a <noscript> WITH element children is read by the oracle as a user agent without scripting reads it (content = markup), "
        "a <noscript> with only strings as the scripting-enabled parser reads it (raw text); futures::executor::block_on + "
        "StreamBuilder::collect for the streams",
        "<pre> is read by the oracle as a custom element (the parser's dropping of a line feed right after <pre> is not modelled; "
        "the family never starts a <pre> with a line feed)",
        "Rust slice::sort_by on <= 20 attributes (insertion sort: the model's stable 3-way partition), str::trim",
    ],
    "modelled": ["leptos_macro/src/view/mod.rs: is_inert_element, inert_element_to_tokens (NoGlobalClass), node_to_tokens, "
                 "fragment_to_tokens / children_to_tokens (top_level), element_to_tokens (attribute sort, is_self_closing), "
                 "attribute_to_tokens / class_to_tokens / style_to_tokens / attribute_value for the 8 attribute forms of the grammar "
                 "(non-string literal values are decoded as the expression forms: the macro does not distinguish them); the "
                 "<textarea> case of the static printer (fix-c18-5)",
                 "component_builder.rs: children of a component as a top-level fragment (the component <Wrap> only)",
                 "tachys InertElement::to_html_with_buf; HtmlElement / strings / attributes as in C06; HtmlElement::to_html_async_with_buf "
                 "(opening tag, children with E::ESCAPE_CHILDREN, closing tag from self.tag.tag()) for synchronous content"],
    "assumptions": ["no view!-level global class (view!{class=..,}), no spread / on: / prop: / use: / bind: / node_ref / inner_html attributes, "
                    "no slots, no MathML, no comments/doctype nodes; one component (<Wrap>: children in a <section>)",
                    "attribute names as the macro accepts them (distinct per element, one class= and one style=)",
                    "strings without U+0000 / U+000D (C06 classes nul-char, cr-char)"],
    "manifest": {
        "category": "proof",
        "text": "Lean 4 theorems over all templates of the modelled view! grammar (any depth, all strings): the HTML of the builder path, "
                "of the macro-time (inert) printer and of the expansion the macro really produces each parse, after normalisation "
                "(markers, adjacent text, attribute order, class tokens, style declarations), to the document the template denotes; the "
                "two paths agree on every inert element; the rendering of a template with a hole is the context's denotation around "
                "the hole's, whether the hole is static or a dynamic block; empty strings and any white space included. One refutation "
                "of the unrestricted statements with a kernel-checked witness replayed on the real macro (<!> marker inside "
                "title/textarea/script/style); three defects repaired in /repo (fix-c18-1 noscript escaped at macro time only, fix-c18-3 "
                "class trimmed at run time only, fix-c18-4 empty text vs one space), the pre-repair printer kept as inertHtmlOld with "
                "regression witnesses. Table theorems over the regenerated element lists (macro no-escape list = runtime table). Tied to the code by compiling ~330 template shapes x 3 variants x 3 rendering entry points with the real "
                "macro and comparing the rendered bytes with the compiled model, plus an independent tree oracle.",
        "design_ref": "DESIGN.md §7 C18",
        "note": "model hand-written, faithfulness checked by correspondence on the compiled expansions; the parser subset is C06's",
        "technique": "Lean 4 proof (structural induction over templates, reusing C06's parse theorem) + refutation witnesses + "
                     "differential correspondence through compiled macro expansions",
    },
}
