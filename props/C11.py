CFG = {
    "id": "C11",
    "lean_theorems": "LeptosModel.Theorems.C11",
    "lean_exe": "lm_c11",
    "hooks": True,
    "theorems": [
        "Leptos.Keyed.C11_build_wf",
        "Leptos.Keyed.C11_hydrate_wf",
        "Leptos.Keyed.C11_unpack_complete",
        "Leptos.Keyed.C11_unpack_complete_diff",
        "Leptos.Keyed.C11_group_complete",
        "Leptos.Keyed.C11_storage_is_to",
        "Leptos.Keyed.C11_identity",
        "Leptos.Keyed.C11_set_index",
        "Leptos.Keyed.C11_identity_nodes_leave",
        "Leptos.Keyed.C11_retained_row_state_kept",
        "Leptos.Keyed.C11_settled_monotone",
        "Leptos.Keyed.C11_dom_order",
        "Leptos.Keyed.C11_history",
        "Leptos.Keyed.C11_history_dom_order",
        "Leptos.Keyed.C11_build_detached",
        "Leptos.Keyed.C11_rebuild_unmounted",
        "Leptos.Keyed.C11_mount_before_sibling",
        "Leptos.Keyed.C11_unmount",
        "Leptos.Keyed.C11_life_cycle",
        "Leptos.Keyed.C11_insert_before_this",
        "Leptos.Keyed.C11_insert_before_this_unmounted",
        "Leptos.Keyed.C11_nested_inner_update",
        "Leptos.Keyed.C11_nested_outer_update",
        "Leptos.Keyed.applyDiffDetached_sim",
        "Leptos.Keyed.rebuildWith_detached",
        "Leptos.Keyed.mount_mounted",
        "Leptos.Keyed.unmount_detached",
        "Leptos.Keyed.C11_dom_order_old_witness",
        "Leptos.Keyed.C11_dom_order_old_iff",
        "Leptos.Keyed.rebuildWith_summary",
        "Leptos.Keyed.applyDiff_summary",
        "Leptos.Keyed.rebuild_mounted",
        "Leptos.Keyed.rebuild_ordered_iff",
        "Leptos.Keyed.settledMonotone_diff",
        "Leptos.Keyed.kept_fold",
        "Leptos.Keyed.place_all",
        "Leptos.Keyed.witnessState_wf",
        "Leptos.Keyed.witnessState_mounted",
    ],
    "harness_pkg": "hx-c11",
    "harness_bin": "c11",
    "n": {"quick": 20000, "thorough": 400000},
    "exhaustive": {"quick": True, "thorough": True},
    "trivial_tags": ["plain"],
    "rule": "exhaustive: every ordered pair of duplicate-free key sequences of length <= 5 over 6 keys (1237^2 = 1 530 169 transitions, "
            "one `trans` op each, grouped in one case per source sequence; sibling/block-size shapes cycle per case; every 16th case "
            "through leptos <ForEnumerate>); plus n seeded random histories (init + 1..7 ops) over alphabets of 3..12 keys, length <= 8, "
            "0..2 siblings on each side, in four modes: keyed() with one of 15 item shapes (1..3 elements, text nodes, `()`/`None` members, "
            "Vec fragments, a static keyed list as the item), a fifth of them built unmounted (parent = None) and mounted later before an "
            "existing sibling; nested keyed lists whose inner lists are updated on their own; <ForEnumerate> over a signal; <ForEnumerate> "
            "over a keyed store field (reactive_stores KeyedSubfield, rows written through the write guard or `.set`, labels through AtKeyed); "
            "keyed() rendered to HTML, parsed into the native DOM and hydrated (list first / between siblings / alone). Every <For>/<ForEnumerate> "
            "row body creates row-local state (RwSignal, StoredValue, Memo, the effect rendering the memo) that is written between updates (`bump`) "
            "and read back after every update. "
            "Ops: update (reverse/rotate/swap/remove/insert/clear/front-insert-move/shuffle/replace/append/move-one/random/"
            "reverse-behind-new/drop-front-pull), sib (insert_before_this), unmount, mount <anchor>, remount, inner, label; distinct = distinct "
            "op lines of a case; non-trivial = every case (each performs at least one list operation). THOROUGH tier additionally: every ordered pair of "
            "duplicate-free sequences of length <= 6 over 7 keys (8660^2 = 74 995 600 transitions) is run on the real code inside the "
            "generator (all cores) and judged by the implementation-side oracle; every transition it rejects (none since the repair of "
            "F-C11-1; 211 680 before) and every 64th other one is written to the ops file and replayed through the model (cases y<i>)",
    "trusted": [
        "hooks/native_dom.patch: tachys::renderer::native_dom (in-memory DOM with insertBefore/remove semantics) standing in for the browser DOM",
        "the harness' Tracked<V> wrapper view (logs unmount calls, records the element ids of built items) and, for <ForEnumerate>, "
        "on_cleanup as the unmount observation and the index signal read back after every update",
    ],
    "modelled": ["tachys::view::keyed::{diff, group_adjacent_moves, unpack_moves, apply_diff}", "Keyed::{build, rebuild}",
                 "KeyedState::{mount, unmount, insert_before_this, elements, parent}", "Keyed::hydrate (parent, rows, marker) followed by rebuilds",
                 "leptos For / ForEnumerate: one Owner per row (row-local signals, stored values, memos, effects live and die with the item state)", "VecExt::get_next_closest_mounted_sibling",
                 "Mountable of text nodes, `()`, Option/Either placeholders, Vec fragments and nested KeyedState as item blocks",
                 "<ForEnumerate> over reactive_stores KeyedSubfield::into_iter / AtKeyed (keys and labels per row)",
                 "Mountable for elements and tuples of elements (mount / unmount / insert_before_this)",
                 "leptos ForEnumerate (same keyed() under an OwnedView per item; set_index = signal write)"],
    "assumptions": ["key sequences are duplicate-free (IndexSet drops a repeated key; the property quantifies over duplicate-free sequences)",
                    "every item view owns at least one DOM node and keeps the same nodes while the outer list holds it, except nested keyed lists, "
                    "which may be updated on their own (C11_nested_*); items whose node set changes for other reasons (a reactive child that swaps "
                    "its own nodes) are C04's subject",
                    "one parent element (a list is not moved to a different parent)",
                    "store mode: rows are written through the keyed write guard or `.set` on the field; a whole-store `store.set(..)` hits C16's "
                    "known finding F-C16-5 (stale key table): at the DOM level a retained row then shows another row's label and a later "
                    "shrinking `store.set` panics (`inits 1 1 1 0 1 2; updset 5 1; updroot 1 5 9 8; updroot 9`); not generated here",
                    "swallowed DOM exceptions (a list rebuilt after `unmount` still holds its old parent: failed insertBefore calls) are part of "
                    "the observable (`x=<n>`), not of the property"],
    "manifest": {
        "category": "proof",
        "text": "Lean 4 theorems about an executable model of tachys' keyed diff (diff, group_adjacent_moves, unpack_moves, apply_diff verbatim "
                "over key lists; rendered_items as a list of optional items; the parent's child list pre ++ item blocks ++ marker :: post with real "
                "insertBefore/remove semantics; every item a block of >= 1 nodes), for ALL duplicate-free old and new key sequences of any length, any "
                "siblings before/after the list, any block sizes, and all histories of updates: unpack_moves returns every single move and every add; "
                "after rebuild rendered_items is exactly the new sequence (no holes, no panic); items whose key is retained are the very same items "
                "(never rebuilt), new keys are built exactly once with their index, vanished keys are unmounted exactly once and their nodes leave the "
                "parent; every retained item whose index changed is told its final index exactly once; and the parent's children end as "
                "pre ++ blocks of the new sequence in order ++ marker :: post after every update of every history (C11_dom_order, full since the repair "
                "of finding F-C11-1 by a fix: commit in /repo: diff() now skips the DOM move of an item only if it overtakes no other item that stays put; "
                "the pre-repair functions are kept as diffOld with a kernel-checked regression witness [0,1,2] -> [4,3,2,1,0] => 1,4,3,2,0 and the exact "
                "characterisation of the old failure class). Tied to the code by a differential run of the real tachys keyed()/leptos <ForEnumerate> on "
                "the native in-memory DOM against the compiled model: exhaustively all 1 530 169 transitions between sequences of length <= 5 over 6 "
                "keys on every run, 74 995 600 transitions of length <= 6 over 7 keys in the thorough tier, plus seeded random histories.",
        "design_ref": "DESIGN.md §7 C11",
        "note": "model hand-written, faithfulness checked by correspondence (observable: child list with node identity, KeyedState::elements(), "
                "view_fn / unmount / set_index call logs); the browser DOM is replaced by the native DOM hook; F-C11-1 repaired in /repo (fix: commit), "
                "regression witness kept in corpus/C11 and as C11_dom_order_old_witness; "
                "reactive_stores keyed fields not covered here",
        "technique": "Lean 4 proof (induction over lists, loop invariants) + kernel-checked refutation witness + differential correspondence on the native DOM",
    },
}
