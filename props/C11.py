CFG = {
    "id": "C11",
    "lean_theorems": "LeptosModel.Theorems.C11",
    "lean_exe": "lm_c11",
    "hooks": True,
    "theorems": [
        "Leptos.Keyed.C11_unpack_complete",
        "Leptos.Keyed.C11_unpack_complete_diff",
        "Leptos.Keyed.C11_group_complete",
        "Leptos.Keyed.C11_storage_is_to",
        "Leptos.Keyed.C11_identity",
        "Leptos.Keyed.C11_set_index",
    ],
    "harness_pkg": "hx-c11",
    "harness_bin": "c11",
    "n": {"quick": 20000, "thorough": 400000},
    "exhaustive": {"quick": True, "thorough": True},
    "trivial_tags": ["plain"],
    "rule": "exhaustive: every ordered pair of duplicate-free key sequences of length <= 5 over 6 keys (1237^2 = 1 530 169 transitions, "
            "one `trans` op each, grouped in one case per source sequence; sibling/block-size shapes cycle per case; every 16th case "
            "through leptos <ForEnumerate>); plus n seeded random histories (init + 1..6 ops: reverse/rotate/swap/remove/insert/clear/"
            "front-insert-move/shuffle/replace/append/move-one/random, sib, remount) over alphabets of 3..12 keys, length <= 8, "
            "1..3 nodes per item, 0..2 siblings on each side, a quarter through <ForEnumerate>; distinct = distinct op lines of a case; "
            "non-trivial = every case (each performs at least one list operation)",
    "trusted": [
        "hooks/native_dom.patch: tachys::renderer::native_dom (in-memory DOM with insertBefore/remove semantics) standing in for the browser DOM",
        "the harness' Tracked<V> wrapper view (logs unmount calls, records the element ids of built items) and, for <ForEnumerate>, "
        "on_cleanup as the unmount observation and the index signal read back after every update",
    ],
    "modelled": ["tachys::view::keyed::{diff, group_adjacent_moves, unpack_moves, apply_diff}", "Keyed::{build, rebuild}",
                 "KeyedState::{mount, unmount, insert_before_this, elements}", "VecExt::get_next_closest_mounted_sibling",
                 "Mountable for elements and tuples of elements (mount / unmount / insert_before_this)",
                 "leptos ForEnumerate (same keyed() under an OwnedView per item; set_index = signal write)"],
    "assumptions": ["key sequences are duplicate-free (IndexSet drops a repeated key; the property quantifies over duplicate-free sequences)",
                    "item views are non-empty blocks of elements (1..3 nodes); reactive_stores' keyed fields are not exercised (separate code path, C16)",
                    "the list is mounted (parent = Some) when it is rebuilt"],
    "manifest": {
        "category": "proof",
        "text": "",
        "design_ref": "DESIGN.md §7 C11",
        "note": "",
        "technique": "Lean 4 proof (induction over lists, loop invariants) + kernel-checked refutation witness + differential correspondence on the native DOM",
    },
}
