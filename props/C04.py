CFG = {
    "id": "C04",
    "lean_theorems": "LeptosModel.Theorems.C04",
    "lean_exe": "lm_c04",
    "hooks": True,
    "theorems": [
    ],
    "harness_pkg": "hx-c04",
    "harness_bin": "c04",
    "n": {"quick": 20000, "thorough": 400000},
    "trivial_tags": ["plain"],
    "rule": "",
    "trusted": [],
    "modelled": [],
    "assumptions": [],
    "manifest": {
        "category": "proof",
        "text": "",
        "design_ref": "DESIGN.md §7 C04",
        "note": "",
        "technique": "Lean 4 proof (invariant over all histories and schedules, structural induction over the view) + differential correspondence on the native DOM",
    },
}
