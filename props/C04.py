CFG = {
    "id": "C04",
    "lean_theorems": "LeptosModel.Theorems.C04",
    "lean_exe": "lm_c04",
    "hooks": True,
    "theorems": [
        "Leptos.RView.C04_settles_full",
        "Leptos.RView.C04_settles_memo",
        "Leptos.RView.C04_settles_show",
        "Leptos.RView.C04_settles",
        "Leptos.RView.C04_settles_leaves",
        "Leptos.RView.C04_settles_for",
        "Leptos.RView.C04_for_rows_are_keys",
        "Leptos.RView.C04_for_keeps_rows",
        "Leptos.RView.C04_enumerate_index",
        "Leptos.RView.C04_errb_settles",
        "Leptos.RView.InvE.run",
        "Leptos.RView.InvE.settled",
        "Leptos.RView.InvDM.startE",
        "Leptos.RView.rerunOK_eb",
        "Leptos.RView.rerunIn_leafR",
        "Leptos.RView.build_specR",
        "Leptos.RView.CountE.start",
        "Leptos.RView.build_count",
        "Leptos.RView.rerun_count",
        "Leptos.RView.rerunIn_count",
        "Leptos.RView.effLoop_count",
        "Leptos.RView.leaves_settled",
        "Leptos.RView.runEffBody_sg",
        "Leptos.RView.upd_sg",
        "Leptos.RView.C04_errb_effect_toggles",
        "Leptos.RView.C04_res_balance",
        "Leptos.RView.C04_dropped_error_unregisters",
        "Leptos.RView.C04_errb_render",
        "Leptos.RView.bump_val",
        "Leptos.SView.C04_suspense_loaded",
        "Leptos.SView.C04_transition_once",
        "Leptos.SView.C04_suspense_pending",
        "Leptos.SView.eval_agree",
        "Leptos.SView.run_ok",
        "Leptos.RView.C04_untouched_nodes",
        "Leptos.RView.C04_show_no_rerender_same_branch",
        "Leptos.RView.C04_disposed_stays_empty",
        "Leptos.RView.C04_set_touches_nothing",
        # the lemmas the three property theorems stand on
        "Leptos.RView.InvD.run",
        "Leptos.RView.InvC.settled",
        "Leptos.RView.InvC.poll",
        "Leptos.RView.InvC.run",
        "Leptos.RView.InvC.dead",
        "Leptos.RView.rerunIn_spec",
        "Leptos.RView.rerunZombies_spec",
        "Leptos.RView.rebuild_spec",
        "Leptos.RView.replace_spec",
        "Leptos.RView.Inv1.run",
        "Leptos.RView.Inv0.settled",
        "Leptos.RView.poll_res",
        "Leptos.RView.build_spec",
        "Leptos.RView.newEff_spec",
        "Leptos.RView.runEffBody_sig",
        "Leptos.RView.evalE_sig",
        "Leptos.RView.setSignal_eff",
        "Leptos.RView.Good.serialize_eq",
        "Leptos.RView.Quiet.steps",
        "Leptos.RView.QuietC.steps",
        "Leptos.RView.poll_frame",
        "Leptos.RView.forRows_eq",
        "Leptos.RView.buildFor_kok",
        "Leptos.RView.rerunFor_kok",
        "Leptos.RView.rerunIn_nodes",
        "Leptos.RView.show_poll_same",
        "Leptos.RView.memo_recompute",
        "Leptos.RView.step_disposed",
        # the stack behind C04_settles_full (signals and memos, Show): reactive core's TopC + state tree
        "Leptos.RView.InvDM.run",
        "Leptos.RView.InvCM.settled",
        "Leptos.RView.InvCM.poll",
        "Leptos.RView.pollAliveM",
        "Leptos.RView.loopM",
        "Leptos.RView.iterM",
        "Leptos.RView.InvCM.run",
        "Leptos.RView.InvCM.dead",
        "Leptos.RView.InvCM.of_rerun",
        "Leptos.RView.InvCM.of_zrerun",
        "Leptos.RView.rerunIn_specM",
        "Leptos.RView.rerunZombies_specM",
        "Leptos.RView.rebuild_specM",
        "Leptos.RView.replace_specM",
        "Leptos.RView.build_specM",
        "Leptos.RView.newEffM_spec'",
        "Leptos.RView.dropAllM",
        "Leptos.RView.setSigM",
        "Leptos.RView.GoodM.serialize_eq",
        "Leptos.RView.EM.cur_idle",
        "Leptos.RView.upd_sk",
        "Leptos.RView.runEffBody_sk",
        "Leptos.Reactive.TopC.consumeG",
        "Leptos.Reactive.TopC.flagIdle",
    ],
    "harness_pkg": "hx-c04",
    "harness_bin": "c04",
    "n": {"quick": 20000, "thorough": 400000},
    "trivial_tags": ["plain"],
    "rule": "programs as data: 1-4 signals, 0-2 memos (memo-of-memo and the memo-then-its-source shape included), a view tree of depth <= 3 over "
            "{static text, (), element with static / reactive attribute / class / style, tuple, move|| text, move|| Either, <Show>, <For> over "
            "signal-selected key lists (3/4 order-preserving families, 1/4 random permutations)}; a QUARTER of the cases with COMPONENT-LOCAL STATE: "
            "component bodies that create a Memo / RwSignal of their own before returning their view (`sc`), at the top of the mounted view, inside Show / Either "
            "branches and inside the rows of a <For> whose rows are `<li>{k}{row view}</li>` built inside `children` (`forr`): row-local memos over outer signals "
            "and the key, row-local signals written later through handles the harness keeps (`setl`, every live instance), nested Show / Either inside rows over "
            "the row-local state, bodies inside those branches again; half of these lists are <ForEnumerate> (`fore`) whose rows render their `index` signal (text, attribute, "
            "inside row-local memos), with key lists that make surviving rows leave and return to their creation index; list writes that keep, drop, add and move rows in between; a QUARTER of the remaining cases with <ErrorBoundary> (`eb`, MODELLED) over views with `Result` leaves "
            "(`res c x`: `move || if c != 0 { Err } else { Ok(x) }`) that go Ok<->Err by signal: leaves that exist from the first render, leaves inside Show / Either "
            "branches that a later re-run creates (opened on failing content) or drops (closed while in error), a boundary under a Show / Either / element / next to other parts, "
            "several failing leaves per boundary, leaves in the rows of a <For> (`forr`: rows added and removed while in error), nested boundaries, every polling order, disposal; "
            "a SIXTH of all generated cases are S VIEWS: <Suspense> (`sus`) and <Transition> (`tra`) over `Suspend` leaves (`aw <rid>`: `move || Suspend::new(async move { resource.await })`) that read "
            "1-3 resources (`ares <expr>`: AsyncDerived over signals, dynamic dependencies included; every fetch stays pending until the op `resolve <rid>` completes the fetch in flight; some resources "
            "are loaded before the mount), boundaries NESTED in each other (the inner one flipping while the outer one shows its fallback: 2/3 of the S views start with such a pair), under Show / Either / "
            "the rows of a <For> and around them, a <Transition> at a fixed place over fixed structure; histories of 4-16 writes / completions (reloads that overlap, complete in either order, are "
            "superseded while in flight), a disposal in an eighth; every op runs the executor to idle and the observable is the DOM without ids (`sdom=`); oracle on the real code: a FRESH mount with "
            "resources in the same state (loaded with the same value / pending for ever), for views with a <Transition> the model only; HALF of the S views without a Transition have POLL-GRANULAR histories: "
            "bursts of `pset` / `presolve` / `popen` (write / complete / open WITHOUT running the executor; only the resources' own tasks run) and `poll i` (one poll of the i-th ready task of the view, any order), "
            "then `idle`; `lw <expr>` leaves = `move || Suspend::new(async { gates[v mod 4].wait().await })`: a Suspend over a plain future picked by a signal (loads superseded before they complete, completing "
            "in any order), observed at idle points where every live `lw` leaf selects an opened gate; reactive attributes (`ad`) and styles (`ay`) are OPTIONAL values everywhere (`None` at 0: Some->None "
            "across an outer re-render of the same shape); "
            "a tenth of the other cases with the older <Suspense> shape (over an "
            "AsyncDerived of signals, executor run to idle between writes) or the old <ErrorBoundary>-over-Either shape at the top of the view (implementation-side oracle only, "
            "the model prints `skip`); histories of 3-15 writes with `poll i` (1-3 polls of the i-th ready task) or `idle` or nothing in between, a sixth "
            "with a disposal in the middle; plus EXHAUSTIVE schedules: 12 small programs x every poll sequence of length <= 3 over ready indices 0..2 "
            "(40 schedules, applied after each of 3 rounds of writes, forwards and backwards) = 480 cases, the same for 4 small programs with row-local / "
            "branch-local memos = 160 cases, 3 error-boundary programs (leaf created by a Show, rows in error, nested boundary) = 120 cases; the REAL leptos Show/For/Either/closures "
            "mounted with mount_to_renderer into the native DOM on the harness executor; observable at EVERY op line = ready list + the whole DOM with "
            "node ids (renumbered by first appearance) and mutation counters; distinct = distinct op lines of a case; non-trivial = the view has a dynamic part",
    "trusted": [
        "hooks/native_dom.patch: tachys::renderer::native_dom (in-memory DOM, mutation counters) standing in for the browser DOM",
        "hx_common::sched (controlled executor) standing in for wasm-bindgen-futures' microtask queue: every interleaving of task polls is a schedule",
        "AnyView / Vec<AnyAttribute> type erasure used to realise view programs given as data (rebuild delegates to the typed rebuild when the TypeId matches, which it always does here)",
        "the canonicaliser compares `class` as a token set, `style` as a declaration map and attributes as a map (a removed class leaves class=\"\", attribute order depends on history)",
    ],
    "modelled": [
        "impl Render for F: ReactiveFunction (RenderEffect::new(|prev| rebuild-or-build), F::rebuild = build new + insert_before_this + unmount old)",
        "reactive attribute / class (&str, F) / style (&str, F): build, rebuild (RenderEffect::new_with_value over the taken state)",
        "RenderEffect::new_with_value_erased (first run synchronous, then spawn; task loop; value Arc kept alive by the task until it ends)",
        "Either::{build, rebuild}, leptos Show (ArcMemo over the boolean + Either), leptos For (keyed(..) = Leptos.Keyed.rebuild), String / () / HtmlElement / tuple build and rebuild",
        "leptos ForEnumerate: per-row `ArcRwSignal::new(index)` read through an arena `ReadSignal` under the row's owner, `set_index` called by keyed() for the surviving rows "
        "that changed position (Model: View.forRows en=true, rowStep / setIx over Leptos.Keyed's log.builds / log.setIndex; theorem C04_enumerate_index)",
        "mount_to_renderer / UnmountHandle drop",
        "component-local state and its owners: `Memo::new` / `RwSignal::new` in a component body register the value with the CURRENT owner (the render effect whose run "
        "constructs the view; the row's owner `parent.with(Owner::new)` of leptos For, held by OwnedView; the mount owner); `Owner::with_cleanup` on every effect re-run and "
        "`Drop for OwnerInner` dispose them, children first (Model: View.scope / View.forRows, killAll in rebuild / dropState; rows kept by the keyed diff keep their state)",
        "leptos ErrorBoundary (component body: errors signal, errors_empty memo, hook installed while the children are constructed and built, OwnedView; ErrorBoundaryView::build: children "
        "built first, then the boundary's own RenderEffect over errors_empty, which only toggles between the kept children and a freshly built fallback; rebuild = build + replace) and "
        "impl Render for Result<T, E> (build / rebuild Ok<->Err: throw, clear, placeholder <-> value node; ResultState::hook; Drop for ResultState when the task that held the state ends) with the "
        "thread-local throw_error hook that impl Render for F captures at build and installs on every re-run (Model: View.eb / View.res, St.hook, RState.errb / res / hooked / errTok, bump, "
        "underHook, clearTok). The model has the semantics of the code since ffdfcd9 / 6685c08 (an error is unregistered through the hook its state was built under; ids are unique, so the register is its size): "
        "F-C04-3 / F-C04-4 in props/C04.known. Abstraction: the errors map is its size. PROVED: C04_errb_settles — for every program (signals and memos) whose view is a boundary over static structure with dynamic text / "
        "reactive attributes, classes, styles / Result leaves (every leaf over signals and memos) and EVERY history (writes to the program's signals, polls of any ready task in any order, idle runs): at every "
        "idle point the DOM is the fresh render (fallback iff some Result is Err for the current values). Proof: register + memo = two more definitions; `bump` = a signal write in the middle of a re-run "
        "under which the reactive core's TopC invariant is kept (setSigM); the register = number of leaves in error through every build, write and poll (RViewMCount/CountB; the reactive operations never write a "
        "signal: RViewSigVal); at idle every effect stored its from-scratch value. Also: C04_errb_effect_toggles, C04_res_balance, C04_dropped_error_unregisters, C04_errb_render + kernel-checked histories. "
        "Boundaries over branches / rows (leaves created and dropped in error, zombies holding registrations), nested boundaries and boundaries below re-rendered regions: CORRESPONDENCE ONLY",
        "leptos Suspense / Transition over AsyncDerived resources AT IDLE POINTS (Model/SView.lean, a specification-level model: what the DOM shows once the executor has nothing left to run, "
        "as a function of the signals, the state of every resource — fetch in flight / value of the last fetch that settled / written again meanwhile / signals tracked so far (an AsyncDerived "
        "never clears its sources) — and, per <Transition>, whether its first pending episode is over (SuspenseBoundary<true>: `nth_run < 2`)): a boundary shows its fallback iff a live Suspend "
        "below it (not below a boundary of its own) awaits a loading resource; a Transition only during its first such episode, afterwards every leaf keeps what it last resolved to. The poll-by-poll "
        "behaviour of AsyncDerived / Suspend / EitherKeepAlive is NOT modelled here (C10 models the derived; the harness's fresh-mount oracle checks the rest on the real code). Proved about this model "
        "(Proofs/SViewLoaded.lean): C04_suspense_loaded (every history of writes and completions — overlapping, superseded, any order —: whenever no fetch is in flight the DOM has no fallback in it and every "
        "leaf shows what its fetcher gives for the CURRENT signals; invariant ResOK + eval_agree: a write to a signal a fetch did not read changes neither its value nor its reads), C04_transition_once (a "
        "Transition's first pending episode, once over, is over for good), C04_suspense_pending; that the real code shows what the model says is correspondence + the fresh-mount oracle; class restrictions in `assumptions`",
        "not exercised: OwnedView contexts, hydration",
    ],
    "assumptions": [
        "expressions of dynamic parts are pure functions of signals and memos (tracked reads only, no writes): the harness interprets them inside real closures",
        "attribute sources of one element have pairwise different names; key lists of a <For> are duplicate-free",
        "generated views with component-local state stay in the class where the real code cannot read a disposed value and where the model's disposal order is the real one: "
        "state is read at the effect level of the body that created it; an effect expression that reads component-local state reads no program node; each component-local memo "
        "has one reader among effect expressions and Show conditions; a `setl` stands between two `idle`; lists sit in the region of the mounted view only and such a view is not "
        "disposed mid-history (leptos For captures `Owner::current()`, which keeps that owner alive until the list's task has ended). Outside this class the real code can PANIC "
        "(F-C04-2, props/C04.known; the model predicts it: class read-disposed); the untouched-nodes oracle is not applied to these views (fresh-render oracle at every idle point is)",
        "error boundaries: two defects found in this class are repaired in /repo (ffdfcd9 F-C04-3, 6685c08 F-C04-4; regression cases corpus/C04/F-C04-{3,4}-*.ops; the generator does not avoid "
        "them). Views with boundaries carry no component-local state (`sc`) in generated cases",
        "poll-granular S histories: the resources' own tasks run as soon as they are woken (the idle-level model of the resources assumes it); inside one burst of un-run operations no write follows a "
        "completion (F-C04-7: a re-rendered Suspend forwards its sources only after `Executor::tick()` and misses a reload that happens within that tick — real defect, repair hooks/fix-c04-7.patch; the "
        "restriction is one constant in gen.rs and goes when the repair is committed); `lw` leaves sit where no enclosing effect re-renders or drops them (F-C04-6: a leaf nested in an inner effect of a "
        "re-rendered region re-runs as a zombie and keeps the boundary in its fallback; same root as F-C04-2); no Transition in poll-granular histories (which pending episode its effect sees depends on the order)",
        "S views (suspense): resources read signals only; a Suspend leaf lives exactly as long as its boundary (no branch / row between a boundary and its leaves — a leaf that goes away while its boundary "
        "stays makes the boundary show its fallback during the resource's NEXT fetch although nothing below it reads the resource any more: F-C04-5, props/C04.known, corpus/C04/F-C04-5-*.ops.pending); "
        "a <Transition> sits at a fixed place over fixed structure; no component-local state and no error boundaries in S views; the executor runs to idle after every op (partial polling of async "
        "deriveds and Suspend tasks is C10's subject)",
        "C04_settles_full is a THEOREM: for every well-formed program of the grammar (signals and memos; static structure, dynamic leaves, "
        "`move || Either`, <Show>, <For>, nested arbitrarily, every dynamic part over signals AND memos) and every history (writes, polls in any order, "
        "idle, disposal) the DOM at an idle point is the fresh render; it stands on the reactive core's state invariant TopC (C01/C02/C09 proofs) with "
        "the dropped render effects as dead set. C04_settles / _leaves / _for / _memo / _show are its earlier stages and instances. "
        "C04_untouched_nodes is proved for the class without Show and over signals only (a <For> counting as ONE dynamic part; per-row identity: "
        "C04_for_keeps_rows); for Show / memo-reading parts the untouched-nodes statement is covered by correspondence only",
        "C04_show_no_rerender_same_branch is proved for every state satisfying the explicit local pre-state ShowPre (what a write to a signal of the condition produces), "
        "with a kernel-checked reachable instance; it is not (yet) chained through an invariant over all reachable states of programs containing Show",
    ],
    "manifest": {
        "category": "proof",
        "text": "",
        "design_ref": "DESIGN.md §7 C04",
        "note": "",
        "technique": "Lean 4 proof (invariant over all histories and schedules, structural induction over the view) + differential correspondence on the native DOM",
    },
}
