CFG = {
    "id": "C17",
    "lean_theorems": "LeptosModel.Theorems.C17",
    "lean_exe": "lm_c17",
    "theorems": [
        "Leptos.Action.inv_run",
        "Leptos.Action.C17_pending_iff_unfinished",
        "Leptos.Action.C17_idle_unfinished_untouched",
        "Leptos.Action.C17_pending_iff_untouched_at_idle",
        "Leptos.Action.C17_version_counts_completions",
        "Leptos.Action.C17_value_is_last_completed",
        "Leptos.Action.C17_value_after_completion",
        "Leptos.Action.C17_input_cleared_when_idle",
        "Leptos.Action.C17_input_latest_while_pending",
        "Leptos.Action.C17_abort_before_ready_never_writes",
        "Leptos.Action.C17_visible_abort_wins",
        "Leptos.Action.C17_abortFirst_meaning",
        "Leptos.Action.C17_abort_race_witness",
        "Leptos.Action.C17_abort_before_ready_never_writes_old_false",
        "Leptos.Action.stepOld_abort_first",
        "Leptos.Action.M.inv_run",
        "Leptos.Action.C17_multi_independent",
        "Leptos.Action.C17_multi_records",
        "Leptos.Action.C17_multi_version",
        "Leptos.Action.C17_suppressed_dispatch_noop",
        "Leptos.Action.C17_disposed_handle_inert",
        "Leptos.Action.C17_dispose_transparent",
        "Leptos.Action.C17_disposed_no_new_dispatch",
        "Leptos.Action.C17_multi_suppressed_disposed_noop",
        "Leptos.Action.C17_reentrant_dispatch_in_completion",
        "Leptos.Action.C17_eager_ready_dispatch",
        "Leptos.Action.runIdle_is_run",
        "Leptos.Action.M.runIdle_is_run",
    ],
    "harness_pkg": "hx-c17",
    "harness_bin": "c17",
    "n": {"quick": 3000, "thorough": 150000},
    "exhaustive": {"quick": False, "thorough": False},
    "trivial_tags": ["plain", "init-value", "arc", "arc-local", "arc-unsync", "arena", "arena-local", "arena-unsync",
                     "arena-unsync-local", "server-arc", "server-arena", "server-arc-xpath", "server-arena-xpath",
                     "multi-arc", "multi-arena", "server-multi-arc", "server-multi-arena"],
    "rule": "a case is one history of dispatch/abort/drop-handle/ready/poll/clear ops on one real action run on the harness-owned "
            "executor. Exhaustive small scope (independent of the seed, on every run): for 1, 2 and 3 overlapping dispatches every "
            "assignment of a script (complete | abort | abort-then-ready | ready-then-abort | drop-handle-then-ready | never) to each "
            "dispatch x every interleaving of the scripts' events x four polling modes (each event processed at once; nothing polled "
            "until the end, FIFO; nothing polled until the end, LIFO; tasks parked first then polled one by one - in the last three a poll "
            "may find the abort message and the result together and the abort arm must win), 4 overlapping dispatches with complete|abort scripts in every order and mode, `clear` at every position for 1-2 dispatches, the analogous enumeration for multi-actions (cancel / "
            "dispatch_sync); disposal of the handle / clean-up of its owner at every position and suppression of resource loading switched on/off "
            "around every event (1-3 dispatches, with clear / dispatch_sync), - rotating over ArcAction / Action (new, new_local, new_unsync, "
            "new_unsync_local) / leptos_server ArcServerAction / ServerAction (with and without a ServerActionError context, for the same and for "
            "another path) x dispatch / dispatch_local (mixed within a case) x Ok / Err results, and ArcMultiAction / MultiAction / "
            "ArcServerMultiAction / ServerMultiAction; two executors (deferred: spawn queues the task; EAGER: spawn polls it once inline, before "
            "dispatch() returns) with futures that are already resolved at their first poll (1-3 dispatches, every script and interleaving, with "
            "disposal / suppression); re-entrant dispatch: ImmediateEffects on version() / value() with budgets (1,0) (0,1) (2,0) (1,1) (0,2) that "
            "dispatch again from inside the completion step or inside clear, under both executors (1-3 dispatches, every script and "
            "interleaving, with clear / disposal / suppression), the re-dispatched tasks resolved too; every submission record is read through "
            "its three views (ArcSubmission, Submission::from, Submission::from_local) and cancelled through a rotating one, arena actions are "
            "also read through Action::from(server_action) / a copy of the handle; "
            "then n seeded random histories (up to 8 dispatches, up to 4 overlapping). The whole scope is not declared exhaustive "
            "because the random part is sampled. distinct = distinct op sequence; non-trivial = the case has at least one tag other "
            "than its kind / `plain` (overlap, abort-before-ready, abort-after-ready, race-abort-first, race-ready-first, drop-handle, eager-spawn, ready-at-first-poll, reentrant-on-version, reentrant-on-value, suppressed-dispatch, dispose-*, dispatch-after-dispose, clear-after-dispose, dispatch-local,  clear*, out-of-order, "
            "cancel*, dsync, multi)",
    "trusted": [
        "futures-channel oneshot (Sender::send / drop wake the receiver's task; a receiver whose sender was dropped without a value "
        "is_terminated, so select_biased! skips it) and futures::select_biased! (polls its non-terminated arms in source order) - modelled, and "
        "validated by the differential run; a regression to the unbiased select! is detected by the harness's own future "
        "(it completes although the abort arm was ready) on the corpus cases abort-first-<kind> and every exhaustive race case",
        "reactive_graph signals (ArcRwSignal update/get_untracked, Memo over in_flight) and the arena (ArenaItem) - exercised, not modelled beyond read/write",
        "hx-c17's esched.rs (copy of hx_common::sched, the controlled executor, plus the eager mode) and any_spawner's custom-executor hook",
        "reactive_graph ImmediateEffect (runs synchronously inside the signal write it observes) - used as the synchronous observer, not modelled beyond that",
    ],
    "modelled": ["ArcAction::dispatch / dispatch_local (identical bodies; both used, also mixed on one action), ActionAbortHandle::abort / drop, "
                 "ArcAction::clear, pending/version/value/input; is_suppressing_resource_load() (dispatch is a no-op)",
                 "ArcMultiAction::dispatch / dispatch_sync, ArcSubmission::cancel, submissions/version",
                 "Action / MultiAction / Submission (arena wrappers, every constructor) - same model, plus disposal of the handle (explicit or by "
                 "clean-up of the owner) while dispatches are in flight: dispatch panics before touching anything (MultiAction: silently nothing), "
                 "clear does nothing, the tasks run on and are observed through signals obtained earlier under a surviving owner",
                 "leptos_server ArcServerAction / ServerAction / ArcServerMultiAction / ServerMultiAction driven through a hand-made ServerFn and a "
                 "staged Client (the request completes when the harness says so, with Ok or a ServerFnError in its wire encoding): Deref "
                 "forwarding, run_on_client as the action function, initial value from a ServerActionError context (decode_err) - same model",
                 "executor kinds: deferred and eager spawn; futures resolved before their first poll; re-entrant dispatch from synchronous observers "
                 "of version()/value() inside the completion step (atomic w.r.t. in_flight: one update before the observers run) and inside clear",
                 "every view of a submission (ArcSubmission, Submission<SyncStorage> via From, Submission<LocalStorage> via FromLocal): read and cancel; "
                 "Action::from(ServerAction). There is no Action::from(ArcAction) / into_arc at this commit",
                 "NOT covered: observers of pending() (a Memo) and RenderEffect/Effect observers (they run as executor tasks, not synchronously); "
                 "two threads polling at once (C19's domain); disposal of the observers' own owner (nothing is left to observe); the server half of the server function "
                 "(C13); ServerActionError produced by a real integration (the harness builds it with ServerFnUrlError::to_url)"],
    "assumptions": ["one thread; the dispatched futures have no side effects other than producing their value",
                    "`dispatched` is never written by the code (is_latest is always true) - the model keeps the field and proves it irrelevant"],
    "manifest": {
        "category": "proof",
        "text": "Lean 4 invariant proofs over arbitrary event lists (all histories of dispatch/abort/drop/ready/clear, all polling orders) "
                "for pending / version / value / input, for 'a dispatch aborted before its future completed never writes' (full, after the repair "
                "of F-C17-1: select_biased! with the abort arm first; the old unbiased select! is kept as pollTaskOld with the kernel-checked "
                "abort-race witness as a regression theorem) and for the independence of multi-action records; tied to the code by a differential run of the real ArcAction/Action/ArcMultiAction/MultiAction "
                "on a controlled executor against the compiled model, exhaustive for <= 3 overlapping dispatches",
        "design_ref": "DESIGN.md §7 C17",
        "note": "model hand-written, faithfulness checked by correspondence",
        "technique": "Lean 4 proof (state-machine invariants) + regression witness for the repaired defect + differential correspondence under all schedules",
    },
}
