import os

CFG = {
    "id": "C07",
    "lean_theorems": "LeptosModel.Theorems.C07",
    "lean_exe": "lm_c07",
    "theorems": [
    ],
    "harness_pkg": "hx-c07",
    "harness_bin": "c07",
    "n": {"quick": 1500, "thorough": 40000},
    "exhaustive": {"quick": True, "thorough": True},
    "trivial_tags": ["plain"],
    "rule": "",
    "trusted": [],
    "modelled": [],
    "assumptions": [],
    "manifest": {},
}


def _merge_proposed_known(core):
    """known_findings.txt is owned by the lead; until the proposed C07 lines (props/C07.known, same format) are moved
    there they are read from here as well.  Nothing is written."""
    import re
    if getattr(core, "_c07_known_merged", False):
        return
    orig = core.load_known

    def load_known(pid):
        known, fixed = orig(pid)
        path = os.path.join(core.VERIF, "props", "C07.known")
        if pid == "C07" and os.path.exists(path):
            for line in open(path):
                m = re.match(r"known:\s+property=(\S+)\s+class=(\S+)\s+(.*)", line.strip())
                if m and m.group(1) == pid:
                    known.setdefault(m.group(2), m.group(3))
        return known, fixed

    core.load_known = load_known
    core._c07_known_merged = True


def replay(path):
    from vlib import core
    _merge_proposed_known(core)
    return core.replay(CFG, path)


def run(tier, seed):
    from vlib import core
    _merge_proposed_known(core)
    return core.run_check(CFG, tier, seed)
