CFG = {
    "id": "C07",
    "lean_theorems": "LeptosModel.Theorems.C07",
    "lean_exe": "lm_c07",
    "theorems": [
        # in-order streaming: all programs without ErrorBoundary sub-builders, all schedules
        "Leptos.Stream.C07_in_order",
        "Leptos.Stream.C07_in_order_total",
        "Leptos.Stream.C07_in_order_prefix",
        "Leptos.Stream.C07_in_order_views",
        # out-of-order streaming: all OooWf programs with clean strings, all schedules
        "Leptos.Stream.C07_out_of_order",
        "Leptos.Stream.C07_out_of_order_total",
        "Leptos.Stream.C07_out_of_order_views",
        "Leptos.Stream.C07_fallback_until_ready_doc",
        "Leptos.Stream.C07_fallback_until_ready_static",
        # all programs, both modes
        "Leptos.Stream.C07_terminates",
        "Leptos.Stream.C07_no_dup_no_drop",
        "Leptos.Stream.C07_fallback_until_ready",
        # views render to programs in the classes the stream theorems quantify over
        "Leptos.Stream.C07_views_wellformed",
        "Leptos.Stream.C07_marker_ids",
        # refutations / witnesses (kernel-evaluated)
        "Leptos.Stream.C07_eb_inorder_witness",
        "Leptos.Stream.C07_eb_ooo_witness",
        "Leptos.Stream.C07_nested_suspend_witness",
        "Leptos.Stream.C07_none_inline_witness",
        "Leptos.Stream.C07_api_misuse_witness",
        "Leptos.Stream.C07_late_read_witness",
        "Leptos.Stream.C07_late_read_loaded_witness",
        "Leptos.Stream.C07_suspend_nonce_witness",
        # the lemmas the theorems rest on
        "Leptos.Stream.pollStep_inOrd",
        "Leptos.Stream.pollStep_mu",
        "Leptos.Stream.pollNext_not_stuck",
        "Leptos.Stream.pollNext_progress",
        "Leptos.Stream.drain_terminates",
        "Leptos.Stream.exec_bdoc",
        "Leptos.Stream.compile_inOrd",
        "Leptos.Stream.compile_oooWf",
        "Leptos.Stream.OooWf_of_bool",
        "Leptos.Stream.exec_ids",
        "Leptos.Stream.occ_in_closed",
        "Leptos.Stream.splitFirst_skip",
        "Leptos.Stream.occ_unique",
        "Leptos.Stream.find_hole_items",
        "Leptos.Stream.applyScripts_items",
        "Leptos.Stream.exec_segs",
        "Leptos.Stream.resolve_sem",
        "Leptos.Stream.pollStep_ooo",
        "Leptos.Stream.ORel_start",
        "Leptos.Stream.ORel_done",
        "Leptos.Stream.compile_clean",
        "Leptos.Stream.compile_suspense",
        "Leptos.Stream.noLateL_direct_guards",
        "Leptos.Stream.stripMarkers_segs",
        "Leptos.Stream.OInv.resolved",
    ],
    "harness_pkg": "hx-c07",
    "harness_bin": "c07",
    "n": {"quick": 8000, "thorough": 200000},
    "exhaustive": {"quick": True, "thorough": True},
    "trivial_tags": ["plain"],
    "rule": "two levels, one op grammar. (A) builder level: builder programs (push_sync, push_async, push_fallback, "
            "push_async_out_of_order(_with_nonce) with Some/None views, next_id, new(clone_id)+append, finish, take_chunks) run "
            "against the real StreamBuilder through its public API, futures = oneshot receivers, the real Stream polled by hand "
            "with a no-op waker; (B) view level: view trees as data (elements incl. <textarea> and a `title` attribute, text incl. strings that need escaping, tuples, Vec, Suspend::new(async{rx.await; view}), "
            "<Suspense>/<Transition> with fallback, <Await>, <ErrorBoundary>, server resources under a boundary: OnceResource / "
            "Resource / AsyncDerived read synchronously (`move || res.get().map(..)`, also in the output of a Suspend / of another read) or awaited in a Suspend, LocalResource "
            "read synchronously or awaited (first thing, or after another future: free mode only) by a boundary's children "
            "=> the fallback stays and the stream ends; tachys Island / IslandChildren; <Await blocking>, <Transition set_pending>; "
            "nesting <= 3, <= 6 futures, some futures completed before rendering; modes io/ooo + b (the _branching streams) + n (leptos "
            "`nonce` feature, provide_nonce())) built with the real leptos components under an Owner with an SsrSharedContext and rendered with "
            "to_html_stream_in_order()/to_html_stream_out_of_order(); executor = hx_common::sched (run ops choose the task order, "
            "the executor is drained before every stream poll). Exhaustive small scope: 9 view shapes (three of them also in the branching / nonce modes) and 3 builder shapes with "
            "2-4 futures x both modes x ALL completion permutations x ALL poll interleavings with 0..2 polls between completions "
            "(0..1 for 4 futures; 0..3 / 0..2 in the thorough tier); then seeded random views / view-shaped programs / arbitrary "
            "API programs (chunk comparison only) with random grouped schedules. Observable: every poll's result (exact chunk "
            "bytes / pending / done / panic) and the final document (concatenation, or the Rust twin of applyScripts for "
            "out-of-order). Implementation-side oracle, independent of the model: final document == synchronous to_html() of the "
            "same view with every asynchronous part replaced by its resolved content; stream terminated; per poll: no token "
            "twice, no content token displayed before all futures on its path completed, fallback displayed while its boundary "
            "is visible and not ready, no empty chunk. A case is trivial (`plain`) when it contains no future.",
    "trusted": [
        "futures::channel::oneshot, futures::future::Shared, futures::select! (modelled: a future is ready iff all its base futures completed)",
        "reactive_graph effects/owners, leptos_server OnceResource, any_spawner (modelled only through `tick`: a Suspense boundary / "
        "resource future needs one drained executor turn after its creation)",
        "tachys element/text/tuple/Vec HTML printing (the model takes the pushed strings as given: `<tag>`, text, `</tag>`, `<!>`)",
        "the browser: the inline script is modelled on strings (last matching marker comments, first template with the id, "
        "range = substring, inert <template>/<script> elements dropped); Lean applyScripts and its Rust twin written independently",
    ],
    "modelled": ["StreamBuilder::{new, push_sync, push_async, take_chunks, append, finish, push_fallback, next_id, clone_id, "
                 "write_chunk_marker, push_async_out_of_order(_with_nonce)}, OooChunk::{push_start, push_end_with_nonce}, "
                 "impl Stream::poll_next (every branch)",
                 "Suspend::to_html_async_with_buf (now_or_never, SuspenseContext check, next_id, fallback `()`), "
                 "SuspenseBoundary::to_html_async_with_buf (Suspense, Transition, Await), ErrorBoundaryView::to_html_async_with_buf, "
                 "RenderHtml::to_html_stream_in_order/out_of_order"],
    "assumptions": [
        "text next to text (round-5 seed 1): elements whose children are text nodes and Vecs / tuples / islands that END in text, each "
        "followed by a text sibling, generated next to pending Suspends and inside content that resolves later; the driver places the "
        "`<!>` separators by tachys' Position rules (Driver/C07 markTexts) and the document oracle compares byte for byte, markers "
        "included. After a Suspend the position is a guess that depends on readiness: the static case — in-order, a Suspend outside every "
        "asynchronous node, pending at render time, content ending in text, text sibling next — is generated (a tenth of the in-order "
        "view cases) and reproduced by the driver (markTexts frames `s`/`r`): known class suspend-position (F-C07-11 = F-C05-6 under "
        "C07's oracle: `a<!>donez` vs `a<!>done<!>z`). Bare text directly after / first inside a boundary, a resource read or a "
        "Suspend nested in asynchronous content (readiness decided at a later poll) and the out-of-order twin (position left "
        "unchanged) are not generated",
        "text atoms, <textarea> text and `title` attribute values include strings that need escaping (`<`, `&`, `>`, a double quote, "
        "`</textarea>`, a leading line feed, the stream's own marker / template / script syntax), also after a still-pending "
        "sibling and inside content that resolves later (round-4 seed 3); the driver prints them with Model/Html (C06's printer: "
        "escapeText, escapeAttr, elemBody for <textarea>). A <textarea> has exactly one text child in the grammar; with an "
        "asynchronous child its text is not escaped (F-C07-10, known class textarea-async-child, harness-only demonstration "
        "corpus/C07/F-C07-10-textarea-async-child.ops.pending). Builder-level strings (level A) stay free of marker syntax",
        "server resources that are read synchronously are created before the view is built (as a component body does), one per "
        "(kind, future); a resource created and awaited inside the output of a Suspend under a boundary needs one more executor "
        "turn: same document, generated in free mode only (final document compared). A resource read synchronously for the first "
        "time while its boundary resolves its children is not waited for (F-C07-6, known class sync-read-late; model: compileA / "
        "noLate): all completion orders x poll interleavings for three shapes; in the random schedules such a resource completes "
        "before everything else or after the stream has ended (in between, the code evaluates the read when the output that "
        "contains it is first polled, the model when the boundary resolves)",
        "branching streams (modes iob/ooob): branch marker comments are compared by position, a run of markers as one `<!--b-->` "
        "(ids are `{:?}` of a TypeId / Either indices); the harness checks ids and nesting on the real text and compares the "
        "document without markers with the resolved render. Observed, not failed by any oracle: which markers are emitted depends on "
        "the mode (AnyView marks itself on the synchronous and the in-order path only; SuspenseBoundary's Either markers only "
        "where the boundary renders in place) and, in-order, on whether a top-level Suspend was ready at first render (`0` of its Option)",
        "a provided nonce (modes ...n) is shown as NONCE; F-C07-8 (top-level Suspend chunk without nonce) and F-C07-9 (nonce "
        "written unescaped, builder API only) are known classes",
        "<Await blocking=true> (every Await on an even future) and <Transition set_pending> (every Transition) leave the stream "
        "unchanged; oracles at the end: no Transition still pending, every deferred future ready. integrations/utils from_app "
        "(ready_chunks(32), await_deferred before the first chunk, meta injection, resource data scripts) is not driven; "
        "HashedStylesheet / AutoReload / HydrationScripts are synchronous view! elements (leptos/src/hydration/mod.rs): no "
        "stream behaviour of their own",
        "a LocalResource awaited after another future resolves its boundary at a poll that depends on futures::select!'s random "
        "order: compared on the final document only (free mode); in out-of-order mode that chunk has replace = false, which the "
        "OooWf theorems do not cover (oooViewOk)",
        "the executor is drained between stream polls on the view level (stream polls while tasks are still runnable are not explored)",
        "u16 overflow of next_id (65535 boundaries in one builder) is not modelled; extra_attrs is outside the view grammar; "
        "islands = tachys Island / IslandChildren wrappers (what #[island] expands to), not the macro",
        "F-C07-2..5 are repaired by hooks/fix-c07-{2,3,4,5}.patch (fix: commits in /repo); the model follows the repaired code, the "
        "old behaviour is kept as Builder.appendOld / inPlaceBufOld / compileOld with kernel-checked regression witnesses",
        "out-of-order theorems assume text hygiene (cleanOps: no marker/template/script syntax inside pushed strings, every `<` "
        "closed inside its string) and no nonce; nothing is left OPEN (the static fallback form is "
        "C07_fallback_until_ready_static, over the inductive PartialDoc)",
    ],
    "manifest": {
        "category": "proof",
        "text": "Lean 4 theorems over all builder programs (chunk trees with futures, unbounded depth) and all completion schedules "
                "(List (List FId): any permutation, grouping and interleaving with polls): the in-order stream is always a prefix of, "
                "and at its end equal to, the fully resolved document, never panics (C07_in_order, _total, _prefix, _views); every "
                "stream in either mode ends within a computed number of polls once all futures completed and poll_next's recursion "
                "is bounded by a computed measure (C07_terminates); no empty chunk (C07_no_dup_no_drop); a not-ready future leaves "
                "the pushed text untouched (C07_fallback_until_ready, step level); views compile to "
                "programs in the proved class (C07_views_wellformed, every view of the grammar incl. ErrorBoundary). Out-of-order "
                "document equality is PROVED for all OooWf programs with clean strings and all schedules, at the end of the stream "
                "(C07_out_of_order, _total, _views: applyScripts(concat) = resolved document; no panic) and at every moment "
                "(C07_fallback_until_ready_doc: the holes of the client's document are exactly the unresolved futures; "
                "C07_fallback_until_ready_static: marker comments ignored, the client's document is a PartialDoc of the program over "
                "the completed futures — each out-of-order future shows its fallback or, only if completed, its content), via a string "
                "layer (substring search on tag-closed pieces), a client layer (inline scripts = hole substitution) and a step "
                "invariant of poll_next. Four defects found and reproduced on the real code "
                "(ErrorBoundary in-order mis-ordering and out-of-order duplicate marker ids, nested Suspend under Suspense dropped, "
                "None-view in-place path deletes the fallback) were repaired by four fix: commits; the pre-repair behaviour is kept "
                "as *Old definitions with kernel-checked regression witnesses; the reversed splice (F-C07-1) is API-misuse only. Tied to the "
                "code by a differential run of the real StreamBuilder/Suspense/ErrorBoundary against the compiled model at builder "
                "and view level, exhaustive over completion orders x poll interleavings for small shapes.",
        "design_ref": "DESIGN.md §7 C07",
        "note": "model hand-written; out-of-order theorems under a text-hygiene hypothesis",
        "technique": "Lean 4 proof (step invariants + termination measure over all schedules) + refutation witnesses + differential correspondence",
    },
}
