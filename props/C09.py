CFG = {
    "id": "C09",
    "lean_theorems": "LeptosModel.Theorems.C09",
    "lean_exe": "lm_c09",
    "theorems": [
        "Leptos.Reactive.C09_effect_double_run_witness",
        "Leptos.Reactive.C09_run_justified_full_old_false",
        "Leptos.Reactive.C09_memo_run_justified",
    ],
    "harness_pkg": "hx-c01",
    "harness_bin": "c09",
    "n": {"quick": 3000, "thorough": 60000},
    "rule": "seeded generator of programs (signals, memos, 0-2 effects per stage, effects read >= 2 nodes in a chosen order) x histories of "
            "5-30 set/read/poll/idle ops; observable = how often each body ran per op; oracle = every invocation is justified (first run, "
            "or a tracked input of the previous run was written / recomputed to an unequal value since); trivial = tag `plain` only",
    "trusted": ["the harness counts invocations inside the real closures; versions (writes / changed recomputations) are kept by the harness"],
    "modelled": ["MemoInner::update_if_necessary (changed flag, Check resolution, skip-current-observer rule)", "EffectInner::{mark_dirty,mark_check,update_if_necessary}",
                 "Effect::new task loop", "channel.rs Sender/Receiver"],
    "assumptions": ["Effect::new only (watch / RenderEffect / ImmediateEffect share EffectInner but are not separately driven yet)"],
    "manifest": {
        "category": "proof",
        "text": "PROVED for memos: C09_memo_run_justified - for every well-formed effect-free program with tracked reads and every history no memo body ever "
                "runs without a tracked input having a new version (invariant InvR + big-step lemma upd_ok, shared with C01). For effects the statement was FALSE of the "
                "code as found (kernel-checked witness C09_effect_double_run_witness: m1=s, m2=s+m1, effect reads m2 then m1; one write, two runs; replayed on the real "
                "Effect) and the defect was REPAIRED by /repo commit 4084efd; the witness is kept as a regression theorem about the pre-repair model (runOld) and the "
                "statement for the repaired effect scheduler (C09_run_justified_full) is OPEN: no counterexample in the correspondence runs, proof in progress. "
                "The model is tied to reactive_graph by differential correspondence of per-op run counts on generated programs, histories and polling orders; "
                "every real invocation is checked against the justification oracle.",
        "design_ref": "DESIGN.md §7 C09",
        "note": "hand-written model validated by correspondence; theorem for memos proved; theorem for (repaired) effects open",
        "technique": "Lean 4 proof (memos) + refutation witness (effects) + differential correspondence",
    },
}
