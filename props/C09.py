CFG = {
    "id": "C09",
    "lean_theorems": "LeptosModel.Theorems.C09",
    "lean_exe": "lm_c09",
    "theorems": [
        "Leptos.Reactive.C09_effect_double_run_witness",
        "Leptos.Reactive.C09_run_justified_full_old_false",
        "Leptos.Reactive.C09_run_justified_full",
        "Leptos.Reactive.C09_memo_at_most_once",
        "Leptos.Reactive.C09_run_justified",
        "Leptos.Reactive.C09_memo_run_justified",
        "Leptos.Reactive.C09_effect_at_most_once_per_change",
    ],
    "harness_pkg": "hx-c01",
    "harness_bin": "c09",
    "n": {"quick": 3000, "thorough": 60000},
    "rule": "seeded generator of programs (signals, memos, 0-2 effects per stage, effects read >= 2 nodes in a chosen order) x histories of "
            "5-30 set/read/poll/idle ops; observable = how often each body ran per op; oracle = every invocation is justified (first run, "
            "or a tracked input of the previous run was written / recomputed to an unequal value since); trivial = tag `plain` only. "
            "API surface (tags): `acc` (half of the cases; these read untracked twice as often) = accessor variety as in C01 incl. the five "
            "untracked accessors, `ctor`, `split`, `memoc` (leaf memos with a coarse comparator: their own runs depend on their sources only); "
            "`selector` (a sixth of the cases) = reactive_graph::computed::Selector with 1-4 keys, readers of every effect constructor / memos, "
            "created before and after the selection moves; gated double reads (s, memo(s), s) for duplicate-edge bookkeeping; "
            "watch kinds `weff/wieff/wseff/wsieff h<sig>` = Effect::watch / watch_sync whose HANDLER reads (with .get()) a signal the dependency "
            "function does not read (`whandler`): a write to it must not re-invoke anything; `memoh` asymmetric comparator leaves; comparator / "
            "prev-argument instrumentation as in C01; `imm` (an eighth) = ImmediateEffect::new over signals and memos over signals; `slice`, "
            "`mapped`, `maybe`, `dropped`, `scope`, `disposew`, `setun`, `memof`, `oncl`, `rieff` (RenderEffect::new_isomorphic) as in C01 / C02; "
            "`selc` = Selector::new_with_fn with a non-equality comparator (as in C02); `onclr` = the on_cleanup callbacks of every effect constructor read a signal (a write to a cleanup-only signal must not re-invoke the body)",
    "trusted": ["the harness counts invocations inside the real closures; versions (writes / changed recomputations) are kept by the harness",
                "lean/LeptosModel/Model/ReactiveDriver.lean desugars `sel K e` into K flag signals + one render effect, `memoc` into `memo`, `acc` into nothing (header comment)"],
    "modelled": ["MemoInner::update_if_necessary (changed flag, Check resolution, skip-current-observer rule)", "EffectInner::{mark_dirty,mark_check,update_if_necessary}",
                 "Effect::new task loop", "channel.rs Sender/Receiver",
                 "by correspondence only: accessor / constructor / handle-family variety, Selector (as per-key flag signals written by a render effect)"],
    "assumptions": ["Effect::new, new_sync, new_isomorphic, watch, watch_sync, RenderEffect::new, RenderEffect::new_isomorphic, Selector::new and ImmediateEffect::new are driven; Selector::new_with_fn / remove / clear, ImmediateEffect::new_mut / new_scoped are not",
                    "ImmediateEffect bodies are restricted to: no write, no untracked read, directly read nodes = signals or memos over signals with pairwise disjoint signal ancestors (one run per change there). Outside that class the unchanged code runs the effect - and through longer memo chains a memo body - twice per change (hooks/imm-glitch-demo); immediate-effect cases contain no writing effects, selectors or pause/dispose ops",
                    "a selector run's key bookkeeping (the harness keeps `selected(j) == (j == last source value)` as a versioned input) justifies the runs of its readers"],
    "manifest": {
        "category": "proof",
        "text": "PROVED: C09_run_justified_full - for every well-formed program of signals, memos and effects (tracked AND untracked reads), every history (writes incl. equal values, reads, "
                "polls in any order, pause/resume/dispose) no memo or effect body ever runs unless it is its first run or a tracked input of its previous run has a new "
                "version (signal written / memo recomputed to an unequal value): invariant InvR + big-step lemma upd_ok + effect lemmas (Proofs/Reactive*.lean, no sorry, "
                "axioms propext/Classical.choice/Quot.sound). The statement was FALSE of the code as found (kernel-checked witness C09_effect_double_run_witness, replayed on "
                "the real Effect); the defect was REPAIRED by /repo commit 4084efd and the theorem is about the repaired scheduler; the witness stays as a regression theorem "
                "about the pre-repair model (runOld). The model is tied to reactive_graph by differential "
                "correspondence of per-op run counts on generated programs, histories and polling orders; every real invocation is checked against the justification oracle. Also proved: C09_memo_at_most_once and C09_effect_at_most_once_per_change (log level: between two runs of the same memo or effect, the earlier run made a tracked read of some x and a set/changed event of x lies between that read and the later run). Covered by the correspondence in addition: every accessor and constructor family, custom comparators (argument contract), watch/watch_sync handlers whose reads must not be tracked, Selector, ImmediateEffect (glitch-free shape).",
        "design_ref": "DESIGN.md §7 C09",
        "note": "hand-written model validated by correspondence; full theorem proved",
        "technique": "Lean 4 proof (invariant + induction over histories and schedules) + regression witness + differential correspondence",
    },
}
