CFG = {
    "id": "C16",
    "lean_theorems": "LeptosModel.Theorems.C16",
    "lean_exe": "lm_c16",
    "theorems": [
        "Leptos.Store.C16_notify_iff_related",
        "Leptos.Store.C16_notify_closed_form",
        "Leptos.Store.C16_root_first",
        "Leptos.Store.C16_keys_stable_of_wf",
        "Leptos.Store.C16_keys_stable",
        "Leptos.Store.C16_segment_collision_witness",
        "Leptos.Store.C16_keys_stable_old_false",
        "Leptos.Store.C16_keys_stable_old_partial",
        "Leptos.Store.C16_keys_boundary_old",
        "Leptos.Store.C16_wake_order_partial",
        "Leptos.Store.C16_wake_order_all_pairs_false",
        "Leptos.Store.C16_write_wakes_iff_related",
        "Leptos.Store.C16_run_subscribes",
        "Leptos.Store.C16_sees_written_value",
        "Leptos.Store.C16_map_reader_subscribes",
        "Leptos.Store.C16_trigger_map_unique",
        "Leptos.Store.C16_segment_collision_machine_regression",
        "Leptos.Store.C16_index_write_wakes_cousin_witness",
        "Leptos.Store.C16_keyed_field_misses_root_witness",
        "Leptos.Store.C16_at_keyed_misses_parent_witness",
        "Leptos.Store.C16_at_index_misses_parent_witness",
        "Leptos.Store.C16_patch_keyed_by_index_witness",
        "Leptos.Store.C16_stale_keys_panic_witness",
        "Leptos.Store.C16_removed_key_reader_not_dropped_witness",
        "Leptos.Store.C16_option_map_woken_by_ancestor_write",
        "Leptos.Store.C16_iter_unkeyed_misses_ancestor_witness",
        "Leptos.Store.C16_subscription_order_below_written_field",
        "Leptos.Store.C16_erasure_transparent_set",
        "Leptos.Store.C16_erasure_transparent_patch",
        "Leptos.Store.C16_erasure_transparent_reader",
        "Leptos.Store.C16_handle_transparent",
        "Leptos.Store.C16_handle_transparent_plain",
        "Leptos.Store.C16_hnew_plain",
        "Leptos.Store.C16_root_handle_write_misses_descendants_witness",
        "Leptos.Store.C16_enum_variant_fields_share_segment_witness",
        "Leptos.Store.C16_patch_after_skipped_field_witness",
        "Leptos.Store.mem_notifySet",
        "Leptos.Store.mem_trackSet",
        "Leptos.Store.updateEntries_wf",
        "Leptos.Store.stable_of_wf",
        "Leptos.Store.reach_wf",
        "Leptos.Store.wf_new",
        "Leptos.Store.get_set_append",
        "Leptos.Store.get_set_same",
        "Leptos.Store.get_set_prefix",
        "Leptos.Store.get_set_unrelated",
        "Leptos.Store.walk_plainChain",
        "Leptos.Store.walkH_plain",
        "Leptos.Store.runEff_plain",
        "Leptos.Store.notifyAll_noImm",
        "Leptos.Store.writeVia_fldIdx",
        "Leptos.Store.trackAndRead_subs",
        "Leptos.Store.subsSet_keys",
    ],
    "harness_pkg": "hx-c16",
    "harness_bin": "c16",
    "n": {"quick": 9000, "thorough": 300000},
    "exhaustive": {"quick": False, "thorough": False},
    "trivial_tags": ["plain"],
    "rule": "a case is one history on one real store of type Root, held through one of the store handles as a mode of the case (the arena Store from Store::new in half the cases, an ArcStore cloned for every use in a quarter, a Store converted from an ArcStore in a quarter; the model treats the handle family as transparent), of the fixed #[derive(Store, Patch)] family (nested structs to depth 3, "
            "Option fields at depth 1 and 2, Vec field, keyed Vec of structs at depth 1 and 2, a Box field behind DerefedField with a "
            "custom #[patch] closure; shapes with attributes: #[store(skip)] first / in the middle / last, a tuple struct, an enum with a struct-like, a tuple and a unit variant). Readers are Effects on the controlled executor or ImmediateEffects (wake order), and read in every "
            "public way: .get / .read / .with / .track+read_untracked, OptionStoreExt::map / invert / unwrap, Field and ArcField handles "
            "(the accessor erased at any position of the chain when the reader is created), DerefedField, AtIndex, AtKeyed, iteration "
            "(for over a keyed field, iter_unkeyed) reading every item, enum variant_field() accessors (held, or called inside the reader). Ops: .set/.update/.write() and patch, each also through a Field / ArcField handle made of the accessor at any position of the chain (made for that operation, or long-lived: `hnew`, then chains starting with h<id>), keyed push/remove/swap/reverse, "
            "poll/idle. Generated: every (write chain, read chain) pair of the family's chains with a random way of reading (all pairs when "
            "n >= 2*pairs, else a seeded sample of n/2), then seeded histories in six flavours (plain fields; keyed starting with <=1 key; "
            "keyed starting with >=2 keys; unkeyed list; mixed; option cycles: both Option fields go Some->None->Some through set and patch "
            "at every ancestor level under every reader kind; attribute shapes: every field of one shape watched, patches at the shape / its parent / the root that change one or two fields; long-lived handles: handles of plain fields, list elements and keyed items used while the keyed collections are reordered and grow) and two `race` cases (k OS threads doing the first tracked access to fresh paths together, then a write: every memo must recompute). Observable per op: the woken effect ids and the run log (reader id : value "
            "seen). distinct = distinct op list; every case writes at least once",
    "trusted": [
        "reactive_graph Effect / ImmediateEffect / ArcTrigger (modelled: ordered SubscriberSet taken on notify, woken flag, run = clear sources + retrack)",
        "hx_common::sched controlled executor (ready list = woken live tasks in spawn order)",
        "FxHashMap iteration order inside FieldKeys::update is abstracted: the theorems quantify over every order; the generator "
        "changes the key set of one keyed field by at most one added and one removed key between two update_keys calls, so the run is order-independent",
    ],
    "modelled": ["StoreField::triggers_for_path", "Subfield::{track_field,writer}", "ArcStore/Store::{writer,try_write,track}",
                 "AtIndex::{writer,track}", "KeyedSubfield::{writer,track_field,update_keys,into_iter}", "KeyedSubfieldWriteGuard::drop",
                 "AtKeyed::{path,reader,writer}", "FieldKeys::{new,update,next_key}", "KeyMap::with_field_keys",
                 "Patch::patch / PatchField for primitives, Option, Vec and #[derive(Patch)] structs", "OptionStoreExt::unwrap"],
    "assumptions": ["handles of keyed items are used only while their key stays in the collection (afterwards their frozen path is stale: outside 'keeps following that item'); KeyedSubfield has no From impl into Field / ArcField, so a keyed field cannot be erased itself (items and everything around it can); the bool variant accessors of enums are not exercised",
                    "thread interleavings are outside the property's quantifier (effect schedules); the one-trigger-per-path invariant of TriggerMap that everything rests on is by construction in the model (a trigger is its path, C16_trigger_map_unique) and stress-tested on the real code by the bounded `race` op, which cannot fail on correct code but may miss a race on a loaded or single-core machine",
                    "single thread otherwise; no nested keyed collections; key function = first field of the item"],
    "manifest": {
        "category": "proof",
        "text": "Lean 4 theorems over all paths of unbounded depth (struct fields, Option, indexed and keyed fields): a write "
                "notifies a reader iff the two paths are prefix-related, the notification list is ordered root first, a notified "
                "reader reads the written value; FieldKeys segments stay stable and distinct for every initial key list, every "
                "history and every hash order (full, after repairs fix-c16-1/2/3 in /repo; the old code is kept as ...Old "
                "definitions with kernel-checked regression witnesses); kernel-checked witnesses for three remaining defects of "
                "Patch / key-table refresh / removed keys (known findings F-C16-4/5/6); tied to the code by a differential run of "
                "the real reactive_stores against the compiled model",
        "design_ref": "DESIGN.md §7 C16",
        "note": "model hand-written, faithfulness checked by correspondence on generated histories; reactive_graph effects and the executor trusted as modelled",
        "technique": "Lean 4 proof (induction over paths / update histories, invariant) + refutation witnesses + differential correspondence",
    },
}
