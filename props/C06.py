CFG = {
    "id": "C06",
    "lean_theorems": "LeptosModel.Theorems.C06",
    "lean_exe": "lm_c06",
    "extract": ["EscapeTables", "Elements"],
    "theorems": [
        # strings in text / attribute positions (induction over the string)
        "Leptos.Html.C06_text_roundtrip",
        "Leptos.Html.C06_text_roundtrip_in",
        "Leptos.Html.C06_attr_roundtrip",
        # whole views (induction over the view tree)
        "Leptos.Html.C06_structure_preserved",
        "Leptos.Html.C06_structure_preserved_partial",
        # the same over the extended embedding: typed text / primitive children, tuples, arrays, StaticVec,
        # Fragment, Vec, Option, Either, ()
        "Leptos.Html.C06_view_structure_preserved",
        "Leptos.Html.C06_view_structure_preserved_partial",
        "Leptos.Html.C06_view_raw_text_child_witness",
        # hand-written attributes: islands (data-props), the whole first chunk of leptos_meta
        # <textarea> as RCDATA: repaired printer (fix-c06-3/4) for every string; regression witnesses for the old one
        "Leptos.Html.C06_textarea_child",
        "Leptos.Html.C06_textarea_old_witness",
        "Leptos.Html.C06_textarea_lf_old_witness",
        "Leptos.Html.run_textareaBody",
        # leptos components that hand `escape` through: <Show>, <ErrorBoundary> (+ fallback, messages), <For>, <Suspense>/<Transition>, <Await>
        "Leptos.Html.C06_wrappers_transparent",
        "Leptos.Html.C06_prim_unescaped_witness",
        "Leptos.Html.C06_island_props",
        "Leptos.Html.C06_doc_attrs",
        "Leptos.Html.C06_doc",
        "Leptos.Html.C06_doc_placement_fixed",
        "Leptos.Html.C06_body_attrs_witness",
        "Leptos.Html.C06_doc_placement_full_false",
        "Leptos.Html.C06_head",
        "Leptos.Html.C06_title_fixed",
        # refutations of the full statements (kernel-evaluated witnesses)
        "Leptos.Html.C06_raw_text_child_witness",
        "Leptos.Html.C06_raw_text_child_witness_others",
        "Leptos.Html.C06_nul_witness",
        "Leptos.Html.C06_cr_witness",
        "Leptos.Html.C06_structure_preserved_full_false",
        "Leptos.Html.C06_head_full_false",
        # regression witnesses for the repaired F-C06-2 (old code = headHtmlOld)
        "Leptos.Html.C06_title_old_witness",
        "Leptos.Html.C06_head_old_full_false",
        # tables regenerated from the source on every run
        "Leptos.Html.C06_table_text",
        "Leptos.Html.C06_table_attr",
        "Leptos.Html.C06_table_text_decodes",
        "Leptos.Html.C06_table_attr_decodes",
        "Leptos.Html.C06_table_elements",
        "Leptos.Html.C06_table_elements_complete",
        "Leptos.Html.C06_table_parser_agrees",
        "Leptos.Html.C06_table_macro_lists",
        # the lemmas the view theorem rests on
        "Leptos.Html.run_escapeText",
        "Leptos.Html.run_escapeAttr",
        "Leptos.Html.run_startTag",
        "Leptos.Html.run_node",
        "Leptos.Html.run_vnode",
        "Leptos.Html.vwf_of_shape_kids",
        "Leptos.Html.wf_of_shape_kids",
        "Leptos.Html.genericOK_of_kind",
    ],
    "harness_pkg": "hx-c06",
    "harness_bin": "c06",
    "n": {"quick": 6000, "thorough": 300000},
    "rule": "small-scope part: every atom of the hostile alphabet (< > & \" ' / = ` NUL CR U+00A0 <!-- --> ]]> <![CDATA[ "
            "</script </title> </textarea> &amp; &#x3c; &lt multi-byte, controls, noncharacters) in every kind of string position "
            "(text child, adjacent texts, attribute, boolean+value, class/class toggle, style/style pair, title element, "
            "children of textarea/script/style/noscript, custom element, document title, meta name/content/charset) AND through every "
            "value type of that position: text children &str String Arc<str> Cow (owned/borrowed) Oco closure; attribute values "
            "&str String &String Arc<str> Oco closure char and Option<..> Some/None of them, typed attribute fns; class String &str Arc Cow Oco "
            "closure Option, (name,bool), (name, closure); style String &str Arc Oco closure Option; style pairs with value &str String Arc "
            "Oco closure Option; every child container with direct string items: Vec / [T;N] / StaticVec / tuple x String &str Arc Cow Oco, "
            "Option / Either::Left / Either::Right x String &str Arc, None, Fragment, Vec<Option<String>>, Vec<Vec<String>>, mixed nestings, "
            "containers at top level and inside raw-text elements; single characters as `char` child, in Vec<char>/Option<char>/[char;N], "
            "as attribute value char / Option<char> / typed fn; every primitive type (u8..u128 usize i8..i128 isize f32 f64 bool IpAddr "
            "Ipv4Addr Ipv6Addr SocketAddr NonZero*) as child, in a Vec, and as attribute value plain/Some/None; "
            "islands (Island::open_tag data-component / data-props with the atom raw and inside a JSON object, IslandChildren, nested, "
            "with text siblings); the whole first chunk through the real inject_meta_context: Title text x formatter (prefix / suffix / both "
            "/ outer formatter + inner texts), every attribute of Link (16) Script (12) Style (5) Stylesheet, Script/Style content, Meta, "
            "attributes of every kind and value type on <Html/> and <Body/>; "
            "leptos wrapper components around the atom, each through to_html(), the in-order stream and the out-of-order stream with its "
            "scripts applied as the browser does: <Show> children / fallback, <ErrorBoundary> with Ok / Err children (the atom as error message; "
            "fallback = messages bare, text + messages, element holding them in text and attribute; under a <Show>), <For> rows bare and in an "
            "element, <Suspense>/<Transition> fallback and Suspend children (ready at once / after 1-2 ticks), <Await>, nestings; random wrapper "
            "trees (depth 3) in all three modes; for these the observable is the parsed document modulo sibling markers (comments dropped, adjacent "
            "text merged), for the out-of-order stream both the first paint and the settled document; "
            "round 5: every VARIANT of the enum value types (Cow Owned / Borrowed, Oco Owned / Borrowed / Counted, TextProp from literal / "
            "String / closure) as text child, attribute value (plain and Option), class, style, style:name=value, also on <Html/>/<Body/>; "
            "atoms made of character references only (&lt; &gt; &#38; `5 &lt; 6 &amp; so on`, no < > quote or line feed) and url() / "
            "query-string / quote style values; the style attribute as one merged string (atom in `style=` next to a url() in `style:x=` and "
            "the reverse, url(atom), class starting with `url(`); <textarea> (String / Oco::Borrowed / closure / Vec child, leading LF), <title> "
            "and an element with every attribute kind directly in the in-order and out-of-order streams, textareas in <Suspense> children / "
            "fallback / <Show>; random wrapper trees now contain textareas with arbitrary strings; "
            "then seeded random view trees to depth 4 over 24 container tags + custom elements + 12 void + 5 raw-text/RCDATA "
            "elements with 0-3 attributes of 8 kinds (random value type per position) per element, children = typed strings, primitives, "
            "containers (random kind x item type, nested), (), elements; strings drawn from the hostile alphabet / arbitrary scalar "
            "values / benign words; and head ops (title + 0-3 <Meta/> through the real leptos_meta SSR path). distinct = distinct "
            "op line; a case is trivial (`plain`) when none of its strings contains a markup character, entity-like text, "
            "NUL/CR, non-ASCII, the empty string or an adjacent-text marker",
    "trusted": [
        "html-escape 0.2.13: the encode loop is modelled (escapeWith), its two row tables are extracted from the vendored source on every run",
        "the HTML standard (WHATWG tokenizer + 'in body' tree construction) as transcribed twice, independently: Leptos.Html.parse (Lean, "
        "one-character state machine) and hx_c06::html (Rust, index-based with look-ahead); both return 'outside the subset' instead of guessing",
        "extract.py (tables EscapeTables, Elements)",
        "Rust std str::trim (Unicode White_Space) used by tachys for the class/style value and by the oracle",
    ],
    "modelled": ["tachys sync to_html() for every string type (&str String Arc<str> Cow Oco, closures), primitives (view/primitives.rs: Display, unescaped), "
                 "HtmlElement, tuples, [T;N], StaticVec, Fragment, Vec (trailing marker), Option/Either/() , AnyView; "
                 "attributes_to_html (plain values of every AttributeValue type incl. Option, bool, class, style, inner_html)",
                 "leptos_meta ServerMetaContextOutput::inject_meta_context: TitleContext::as_string (text x formatter), registered Meta/Link/Style/Script/"
                 "Stylesheet tags, <Html/>/<Body/> attribute strings and the string searches that place them",
                 "tachys Island / IslandChildren (hand-written tags and attributes, position passed through)",
                 "leptos <Show>, <ErrorBoundary>, <For>, <Suspense>, <Transition>, <Await> as transparent for escaping (resolve: first paint / settled document); "
                 "their sibling markers and chunking are C05/C07's models, compared away by normList here — except the one marker rule that decides "
                 "whether two data strings touch: a <Suspense>/<Await> that is pending in the in-order stream leaves position = NextChild behind it "
                 "(VNode.resetPos, resolveInOrder), so its last child and the next sibling are adjacent in the document; with a raw `char` child "
                 "(primEscaped := false) that is F-C06-7, which the model prints as is",
                 "html_escape::encode_text / encode_double_quoted_attribute"],
    "assumptions": [
        "view shapes: element nesting that the HTML tree builder accepts without implied end tags (no p-closing element inside p, no a in a, "
        "no button in button, no heading directly in a heading); attribute *names* and tag names are program text, not data "
        "(tachys does not validate or escape them); attribute names pairwise distinct per element",
        "elements outside the parser table (tables, select/option, li/dl, pre, iframe, template, svg/math) are not covered by the theorems or the generator",
        "the empty string renders as one space (strings.rs): structureOf states this marker rule instead of hiding it",
        "streaming: the chunk mechanics are C07's; C06 renders wrapper components through both streams and checks the first paint and the settled document; "
        "macro-inlined static HTML is C18",
        "wrapper shapes not generated: <Suspense>/<Await> inside another <Suspense> or inside an <ErrorBoundary> fallback (the fallback is rendered "
        "synchronously even in a stream, so a <Suspense> in it keeps showing its own fallback), more than one failing child per boundary (the order "
        "of the messages is unspecified), errors thrown inside a Suspend",
        "raw-text elements: string children of <textarea> are RCDATA text and are repaired by hooks/fix-c06-3.patch (+ fix-c06-4 for a leading "
        "line feed): rendered without markers, then entity-escaped, DOM unchanged for every input that was rendered correctly before, hydration "
        "untouched (children of such elements are not hydrated). Flipping ESCAPE_CHILDREN for textarea instead is NOT safe: it would print the "
        "`' '` placeholder for an empty string and `<!>` for None/()/Vec into the form field and start hydrating its children. "
        "<script>/<style>: no semantics-preserving escaping exists (character references are not decoded there; `<\\/` is only valid inside JS/CSS "
        "string literals, and `<!--` has its own script-data states), so their string children stay raw by contract like inner_html (F-C06-1, known); "
        "<noscript>: its children are markup for script-less clients (elements must stay unescaped), only its string leaves would need escaping, which "
        "the single `escape` flag (it also switches the child markers) cannot express without an API change — left known. "
        "Several string children of one <textarea> are still joined by a literal `<!>` (a property of the view shape, F-C18-2; class rcdata-marker)",
        "primitive children (char, numbers, bool, ..) are printed raw by the real code (F-C06-7, class prim-unescaped): the structure theorem covers a "
        "`char` child only when it is inert (not one of & < >; vwfNode .prim) while primEscaped = false, and every `char` once hooks/fix-c06-5.patch "
        "is applied and the flag is flipped (the proofs build for both values); in the to_html / out-of-order paths the `<!>` marker keeps a raw "
        "`<` apart from the following text, which then parses as text (incorrectly-opened-comment / invalid-first-character are handled by the parser), "
        "in the in-order stream after a pending <Suspense> nothing does — the oracle failure is reported under the known class only when the model "
        "reproduces the same parsed document",
    ],
    "manifest": {
        "category": "proof",
        "text": "Lean 4 theorems over all Unicode strings (unbounded List Char) and all view trees: escaped text and attribute values "
                "tokenise back to exactly the original string; for every view of ordinary/void/custom elements, child-less raw-text elements "
                "and <title> with plain/boolean/class/style attributes the emitted HTML parses (WHATWG subset, 'none' outside it) to exactly "
                "the view's structure; the full statement is refuted by kernel-evaluated witnesses (raw-text children, document title, NUL, CR "
                "= known findings F-C06-1..4) and the partial theorem excludes exactly those decidable classes; tied to the code by a "
                "byte-for-byte differential run of the real tachys to_html / leptos_meta inject_meta_context against the compiled model, "
                "with an independent Rust tokenizer+tree builder as implementation-side oracle",
        "design_ref": "DESIGN.md §6.4, §7 C06",
        "note": "model hand-written (tables extracted from source and re-checked by decide on every run); HTML parser is a documented subset of the standard",
        "technique": "Lean 4 proof (induction over strings and view trees, tokenizer state invariants) + refutation witnesses + differential correspondence",
    },
}
