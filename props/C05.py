CFG = {
    "id": "C05",
    "lean_theorems": "LeptosModel.Theorems.C05",
    "lean_exe": "lm_c05",
    "hooks": True,
    "theorems": [
    ],
    "harness_pkg": "hx-c05",
    "harness_bin": "c05",
    "n": {"quick": 12000, "thorough": 400000},
    "trivial_tags": ["plain"],
    "rule": "",
    "trusted": [],
    "modelled": [],
    "assumptions": [],
    "manifest": {
        "category": "proof",
        "text": "",
        "design_ref": "DESIGN.md §6.3, §6.4, §7 C05",
        "note": "",
        "technique": "",
    },
}
