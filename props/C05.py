CFG = {
    "id": "C05",
    "lean_theorems": "LeptosModel.Theorems.C05",
    "lean_exe": "lm_c05",
    "hooks": True,
    "theorems": [
        # the browser reads the SSR string as the expected node sequence (all views of the grammar)
        "Leptos.Hydrate.C05_parse_print",
        # the walk finds every node, creates none, binds the existing nodes in order (all views, every DOM holding domOf v)
        "Leptos.Hydrate.C05_hydrate_succeeds",
        "Leptos.Hydrate.C05_load_realises",
        "Leptos.Hydrate.C05_hydrate_parsed",
        # the hydrated state is a client-built state up to node identity (any DOM, any cursor)
        "Leptos.Hydrate.C05_state_eq_build_state_mod_ids",
        # the writes of the repaired hydrate do not disturb the walk; the DOM after hydration shows what a client-built DOM shows,
        # comments aside, for all views incl. the empty string
        "Leptos.Hydrate.C05_walk_commutes_with_writes",
        "Leptos.Hydrate.C05_initial_dom_like_csr",
        "Leptos.Hydrate.C05_initial_dom_like_csr_partial",
        # hydrated-then-rebuilt = client-built-then-rebuilt, comments aside (all pairs of one view type over the structural grammar,
        # static string attributes, no child-less non-void element in A)
        "Leptos.Hydrate.C05_then_like_csr",
        # the same with String / Option<String> / bool attribute values (distinct names) changing freely between A and B;
        # attribute lists compared as maps (C03's relation AttrsEq for this fragment)
        "Leptos.Hydrate.C05_then_like_csr_kv",
        # regression witnesses of the repaired defects F-C05-1 / F-C05-3 (kernel-evaluated: old code fails, current code passes)
        "Leptos.Hydrate.C05_empty_text_witness",
        "Leptos.Hydrate.C05_empty_text_witness_mid",
        "Leptos.Hydrate.C05_then_like_csr_old_false",
        "Leptos.Hydrate.C05_initial_dom_old_witness",
        "Leptos.Hydrate.C05_fragment_parent_witness",
        "Leptos.Hydrate.C05_keyed_position_witness",
        "Leptos.Hydrate.C05_result_err_position_witness",
        # InertElement: its hydrate moves cursor and position like the element it was rendered from
        "Leptos.Hydrate.C05_inert_walk",
        "Leptos.Hydrate.C05_inert_walk_error",
        # F-C05-2 (outside the grammar of the theorems): raw-text elements keep no child state
        "Leptos.Hydrate.C05_raw_text_child_witness",
        # Suspend parts and the streamed forms: for every completion schedule the in-order stream / the out-of-order stream after its
        # scripts / the resolved form is the HTML of the client's view when every position guess of a pending Suspend is right (Agree),
        # and hydrating it adopts every node (through C07_in_order / C07_out_of_order); F-C05-6 = a wrong guess
        "Leptos.Hydrate.C05_resolved",
        "Leptos.Hydrate.C05_stream_in_order",
        "Leptos.Hydrate.C05_stream_out_of_order",
        "Leptos.Hydrate.C05_stream_html",
        "Leptos.Hydrate.C05_stream_hydrates",
        "Leptos.Hydrate.C05_stream_ready",
        "Leptos.Hydrate.C05_suspend_position_witness_in_order",
        "Leptos.Hydrate.C05_suspend_position_witness_out_of_order",
        "Leptos.Hydrate.C05_suspend_position_agree",
        "Leptos.Hydrate.compile_spec",
        "Leptos.Hydrate.compileB_spec",
        "Leptos.Hydrate.C05_nested_suspend_witness",
        "Leptos.Hydrate.C05_boundary_witness",
        "Leptos.Hydrate.C05_error_boundary_position_witness",
        "Leptos.Hydrate.pending_spec",
        "Leptos.Hydrate.compile_inOrd",
        "Leptos.Hydrate.compile_oooWf",
        "Leptos.Hydrate.compile_doc",
        "Leptos.Hydrate.agree_of_ready",
        "Leptos.Hydrate.html_clientOf",
        "Leptos.Hydrate.stream_polls",
        # the lemmas the view theorems rest on
        "Leptos.Hydrate.run_view",
        "Leptos.Hydrate.run_list",
        "Leptos.Hydrate.hyd_view",
        "Leptos.Hydrate.hyd_list",
        "Leptos.Hydrate.shape_hyd",
        "Leptos.Hydrate.real_of_realB",
        "Leptos.Hydrate.realises_of_realisesB",
        "Leptos.Hydrate.wfH_of_wfV",
        "Leptos.Hydrate.isVoid_agree",
        "Leptos.Hydrate.loadRoot_realises",
        "Leptos.Hydrate.load_spec",
        "Leptos.Hydrate.loadL_spec",
        "Leptos.Hydrate.setAttrs_spec",
        "Leptos.Hydrate.nodupAttrs_dom",
        "Leptos.Hydrate.hydrated_side",
        "Leptos.Hydrate.csr_side",
        "Leptos.Hydrate.hydrated_side_gen",
        "Leptos.Hydrate.csr_side_gen",
        "Leptos.Hydrate.then_like_csr_kv",
        "Leptos.Hydrate.fragStatic",
        "Leptos.Hydrate.fragKV",
        "Leptos.Hydrate.rebuildAttrs_erase",
        "Leptos.Hydrate.buildAttrs_erase",
        "Leptos.Hydrate.Rep.mono",
        "Leptos.Hydrate.sim_stripL",
        "Leptos.Hydrate.erase_rebuild",
        "Leptos.Hydrate.erase_build",
        "Leptos.Hydrate.erase_replaceState",
        "Leptos.Hydrate.erase_mount",
        "Leptos.Hydrate.erase_insertNode",
        "Leptos.Hydrate.hyd_rep",
        "Leptos.Hydrate.hyd_shape",
        "Leptos.Hydrate.settle_get",
        "Leptos.Hydrate.serList_erase",
        "Leptos.Hydrate.depth_le_owned",
        "Leptos.Hydrate.nodup_bounded",
        "Leptos.Hydrate.loadRoot_facts",
        "Leptos.Hydrate.initial_view",
        "Leptos.Hydrate.initialA_view",
        "Leptos.Hydrate.hydrate_congr",
        "Leptos.Hydrate.settle_sameShape",
        "Leptos.Hydrate.attrs_like_csr",
        "Leptos.Hydrate.sibling_next",
        "Leptos.Hydrate.next_node",
    ],
    "harness_pkg": "hx-c05",
    "harness_bin": "c05",
    "n": {"quick": 12000, "thorough": 400000},
    "trivial_tags": ["plain"],
    "rule": "forced coverage first: 43 hand-written (A, B) pairs, one per shape DESIGN §7 C05 names (adjacent strings top-level and in an "
            "element; the empty string first / middle / last / alone, kept and changed; text after an element and element after text; "
            "Option none<->some between strings and in an element; Either switch, same branch, unit branch; Vec empty / of elements / of strings "
            "followed by a sibling, grow, shrink, clear, fill, Vec after a string, Vec of Vec, Vec of Option; nested tuples (fragments); `()` "
            "alone and between strings; void elements; a child-less container; an element whose children follow a dynamic node; String / bool / "
            "Option<String> attributes; a <style> with an unchanged string child; an AnyView whose type changes on rebuild; "
            "InertElement first / middle / last / only child, at top level, nested, followed by an element of the shape of its first "
            "descendant; keyed lists (element items; string items; empty between strings; first child); Result Err between strings and Ok -> Err; "
            "u32 / Arc<str> / Cow<str>; EitherOf3 switch; array; OwnedView; closure (also as first child)); then n seeded random cases: A = 1..3 sibling views of depth 1..4 (1 node in 5 one of the "
            "other RenderHtml implementors: InertElement over a random static subtree, keyed list with element or string items, Result, u32, Arc<str>, "
            "Cow<str>, EitherOf3, array, OwnedView, closure) "
            "over 16 container tags (incl. a custom element) + 4 void tags in a nesting the HTML tree builder accepts, strings from 20 atoms "
            "(markup characters, entity-like text, `<!>`, `-->`, non-ASCII, white space) with the empty string at 1/6, attribute kinds fixed per tag (with RAW_TEXT_CASES = true in the "
            "harness, off until class raw-text-child is listed: 1 container in 40 is a <textarea>/<style> with one string child); "
            "B = A with every dynamic choice re-drawn (strings changed or kept, Option toggled, Either switched, Vec cleared / halved / extended, "
            "1/25 of the nodes replaced by a different view); 1 case in 5 is a `shyd` op: 1 node in 3 of A wrapped in a Suspend on its own future (a keyed list may get suspending items), "
            "server form drawn from in-order stream / out-of-order stream (inline scripts applied) / resolve().await.to_html() / to_html(), each future "
            "ready at render time with 1/4, the others completed before a random poll of 0..4 (any order, also reversed against document order) or at the end; "
            "forced Suspend coverage before the random cases: 12 containers (top level, element, Vec, tuple, array, Option, Either, Result, EitherOf3, OwnedView, closure, "
            "Vec inside an element) x sibling before (none / string / element) x sibling after x 7 shapes of the resolved view x pending / ready x every server form; two Suspends "
            "in 7 completion orders x 5 containers x 4 value shapes; keyed lists with suspending items in all 6 completion orders x 3 positions x 3 forms; "
            "a Suspend inside the value of a Suspend (7 value shapes incl. two inner ones and keyed suspending items) x 3 containers x sibling before x sibling after x 7 completion "
            "orders (outer before inner, inner before outer, together, either ready at render time, rest) x 3 forms; Fragment items that suspend (op `sfrag`); "
            "the leptos wrapper components: <ErrorBoundary> (Ok children) / <Show when=true|false> / <ErrorBoundary> inside <Show> x 8 shapes of the children x sibling before x sibling after x "
            "top level / inside an element, <For> empty / 3 items x sibling before x sibling after, <Suspense> / <Transition> x 5 containers x sibling before x sibling after x 7 shapes x both "
            "stream forms, 1 random node in 40 an <ErrorBoundary> / <Show> / <For>, 1 random `shyd` case in 3 with a boundary around a top-level view (until hooks/fix-c05-5.patch is in /repo, "
            "EB_WRITE_BACK_FIXED = false: no <ErrorBoundary> whose children change the after-a-string state of the position); "
            "the `each` source of a keyed list: 9 iterator kinds (Vec, array, range-map, filter, from_fn, flat_map, chain, once-chain, Option: exact size hints and "
            "size hints with lower bound 0) x 0 / 1 / 3 items x 4 positions x element / string items, and 2 keyed lists in 3 of the random cases; (with SUSPEND_POSITION_CASES = false in the harness, until class suspend-position is listed, inputs whose "
            "pending Suspend leaves another Position than the server guesses are skipped); "
            "1 case in 14 is a `frag` op (an element with children pre.., Fragment(items A), post.., rebuilt with items B; 1 in 3 of those with suspending items); 1 in 12 a `mis` op (A hydrated against the DOM of another view: the walk's "
            "error paths). distinct = distinct op line; a case is trivial (`plain`) when it has no tag (no adjacent strings, no empty string, no "
            "dynamic node, no void/child-less element, no attribute, no change on rebuild)",
    "trusted": [
        "hooks/native_dom.patch: tachys::renderer::native_dom (in-memory DOM: first_child / next_sibling / parent, kind casts, insertBefore / "
        "remove / set_data / set_attribute, nodes_created, the hydration-error log) standing in for the browser DOM",
        "the HTML standard (WHATWG tokenizer + 'in body' tree construction) as transcribed twice, independently: Leptos.Html.parse (Lean) and "
        "hx_c06::html (Rust, included by path); both return 'outside the subset' instead of guessing; they are compared on every SSR string of the run",
        "Model/Dom.lean + Model/View.lean (C03): build / mount / rebuild of the same views, used for the rebuild after hydration and for the "
        "client-built twin; their faithfulness is checked here by the same byte-for-byte comparison (after= / csr= fields)",
        "type erasure: every nested view of the harness is an AnyView (into_any()), attributes are Vec<AnyAttribute>; AnyView / AnyAttribute "
        "forward to the typed impls (any_view.rs, any_attribute.rs), which is what the model assumes (`.any` is transparent)",
    ],
    "modelled": [
        "Suspend (tachys/src/reactive_graph/suspense.rs): to_html_with_buf, to_html_async_with_buf::<false|true> (now_or_never, next_id, push_async / push_fallback + "
        "push_async_out_of_order, the Position each branch leaves), resolve, hydrate / build (= the value's), rebuild (a task); Keyed / Vec / tuple / array / StaticVec "
        "to_html_async_with_buf and resolve (items in list order)",
        "the leptos wrapper components (hx-c05 builds them with view!): <ErrorBoundary> with Ok children, <Show>, <For> = AnyViews that a rebuild always replaces, "
        "transparent for to_html / hydrate / build (ErrorBoundaryView as repaired by hooks/fix-c05-5.patch; `htmlEbOld` = before); <Suspense> / <Transition> with children without "
        "asynchronous parts (fallback ()): hydrate / build = the children + one detached fallback node, to_html_async_with_buf = the two branches of a pending Suspend on a "
        "future that needs one executor turn (Stream.Fut.tick; the harness drains the executor between polls)",
        "expressed through the constructor they share to_html / hydrate / rebuild with (lean/Driver/C05.lean): InertElement (= the static element it was "
        "rendered from; C05_inert_walk), keyed (= Vec of the item views), Result (= Option), u32 / Arc<str> / Cow<str> (= String), EitherOf3, "
        "[T; N] (= tuple), OwnedView (transparent), closures (an AnyView that is always replaced on rebuild)",
        "HtmlElement::to_html_with_buf / to_html_async_with_buf for <textarea> as repaired by 7006223 / 01b809d: the children print without markers, the text is passed "
        "through encode_text and a leading line feed is doubled (Hydrate.kidsBody = C06's Html.textareaBody with both repairs on; async path: only when the children pushed no asynchronous chunk, Hydrate.kidsOps)",
        "RenderHtml::to_html_with_buf + the Position it leaves for String/&str, (), HtmlElement, tuples, Option, Either, Vec, AnyView "
        "(view/strings.rs, tuples.rs, iterators.rs, either.rs, any_view.rs, html/element/mod.rs)",
        "RenderHtml::hydrate::<true> for the same types; hydration.rs Cursor::{child, sibling, parent, next_placeholder}; "
        "view/mod.rs Position / PositionState; failed_to_cast_{text,marker,element} as observable errors",
        "Attribute::hydrate::<true> for Attr<K, String | Option<String> | bool> (state = value, element untouched)",
        "Render::{build, rebuild}, Mountable::{mount, unmount, insert_before_this} of the same types through Model/View.lean (C03)",
    ],
    "assumptions": [
        "Suspend parts: a Suspend on a base future is carried as `.any (suspTy fid) (.osome v)` (for to_html / hydrate / build / rebuild with its data present it is "
        "Option::Some(v)); the server side is Model/Hydrate.compile (to_html_async_with_buf with the Position threaded) run by C07's stream machine (Model/Stream.lean: "
        "startStream / Run.poll / applyScripts); futures are oneshot channels the harness completes between polls; a Suspend inside the value of a pending Suspend is covered (Hydrate.compileB: "
        "continuation style, its readiness decided by the stream machine when the outer future resolves; the harness nests one level); "
        "Suspend inside <Suspense> (C07) and nonces are not covered; the out-of-order theorem assumes C07's string hygiene (cleanOps: no marker / <template / <script text in strings)",
        "inside the class suspend-position two string states can share one text node, which makes the order and the condition of every write observable: there the generator uses String "
        "instead of Arc<str> (Arc<str>::rebuild writes whenever the pointer differs, the model when the string differs) and no InertElement (its failed cast is a bare unwrap()); "
        "Cow<'static, str> is decoded as String (RenderHtml::Owned = String: an AnyView made of it is a String view with the same TypeId)",
        "Suspend::rebuild runs in a spawned task: the harness runs the tasks to idle (hx_common::sched, FIFO) after each rebuild, the model rebuilds in two phases (syncPart, then the values)",
        "grammar: ordinary containers and void elements of the parser table, nested as the HTML tree builder accepts without implied end tags "
        "(C06's assumption); strings free of NUL/CR (F-C06-3/4); plain / boolean / optional attributes with distinct tokenizable names "
        "(class and style values are normalised differently by SSR and by the DOM: C03/C06); tuples of at most 6 components in the harness",
        "not covered: Keyed, StaticVec / Fragment elsewhere than as a child of an element (nested tuples are), InertElement and view! templates (FROM_SERVER = false), islands, "
        "inner_html; raw-text elements with children are modelled and exercised but outside the theorems' grammar (F-C05-2), "
        "<pre>/<textarea> leading-newline and table/select foster-parenting rules of the HTML parser (outside the parser subset)",
        "C05_hydrate_succeeds quantifies over every DOM that holds domOf v (predicate Realises); C05_load_realises proves that the loader of the "
        "harness (one node per parsed node, in document order) produces such a DOM; the driver re-evaluates both on every case (model self-check)",
        "C05_then_like_csr is proved for static string attributes with distinct names (the attribute fragment for which C03 proves rebuild: "
        "it rests on C03's rebuild_spec / build_mount_spec) and for A without child-less non-void elements; C05_then_like_csr_kv proves the same for "
        "String / Option<String> / bool attribute values with distinct names, attribute lists compared as maps (C03's AttrsEq: a removed and re-set attribute is appended, "
        "so list order is not an invariant); for child-less non-void elements in A the statement (C05_then_like_csr_stmt) stays OPEN and is evaluated on every generated pair "
        "by the model and by the real code (where attribute lists are compared exactly)",
        "the repaired hydrate writes during the walk; the model performs the walk first and the writes afterwards (settle), justified by "
        "C05_walk_commutes_with_writes; that the DOM after settle serialises to domA is evaluated by the driver on every case",
        "not built by the harness (stated, correspondence does not cover them): Doctype (outside the HTML parser subset), Static<..> (nightly only), "
        "ViewTemplate and templates (FROM_SERVER = false), Island / IslandChildren, EitherKeepAlive, "
        "AnyViewWithAttrs, and the other views of the leptos / leptos_router / leptos_meta crates (Unsuspend, routes, meta tags, <Await>, <ForEnumerate>, <AnimatedShow>); "
        "<ErrorBoundary> is exercised with Ok children only (the error path needs the errors serialized through a shared context); a <Suspense> / <Transition> holds no Suspend / resource "
        "(C07) and is not nested; sync to_html() / resolve() of a boundary print its fallback by design and are not hydrated; "
        "a keyed list with string items is rebuilt only by changes at its end (a moved text node leaves its `<!>` separator behind, which the "
        "unkeyed model rebuild does not reproduce comment for comment)",
        "StaticVec / Fragment is modelled only as one child of an element (children pre.., Fragment(items), post..): F-C05-3 and its repair",
    ],
    "manifest": {
        "category": "proof",
        "text": "Lean 4 theorems over all view trees of the modelled combinator grammar (strings incl. the empty string, (), ordinary and void "
                "elements with plain/boolean/optional attributes, nested tuples, Option, Either, Vec, AnyView; structural induction, no size "
                "bound): the HTML parser reads the SSR string as exactly the expected node sequence incl. the <!> markers and the ' ' of an "
                "empty string; on every DOM holding that sequence the cursor walk of hydrate::<true> reaches no failed_to_cast branch, creates "
                "no node and returns exactly the state that adopts the existing nodes front to back (kinds and text data as retained); whenever "
                "the walk succeeds the state equals a client-built state up to node identity; the DOM after "
                "hydration shows, comments aside, exactly what a client-side build shows (same elements, attributes, text). Two defects found by this "
                "property were repaired in /repo (F-C05-1: the adopted ' ' of an empty string is now reset to ''; F-C05-3: an empty StaticVec "
                "hydrated as first child recorded the grandparent as its parent); their pre-repair behaviour is kept as *Old definitions with "
                "kernel-evaluated regression witnesses. Five defects found by this property were repaired in "
                "/repo (F-C05-1, -3, -4, -5 and the position handling of keyed lists); C05_then_like_csr: after hydration a rebuild with any "
                "value of the same type shows, comments aside, exactly what the client-built twin shows (all structural combinators incl. branch "
                "switches, Vec grow/shrink and AnyView type changes; static string attributes exactly, String / Option<String> / bool attribute values compared as maps) — proved by showing that erasing the inert "
                "<!> separators commutes with every DOM primitive and with rebuild, that the erased hydrated world is a mounted representation "
                "in the sense of C03, and by C03's rebuild theorem on both sides. Raw-text elements keep no child state (F-C05-2, known finding). Tied to the code by a byte-for-byte differential run: real to_html (+ both stream "
                "forms) -> independent Rust HTML parser -> native DOM -> real hydrate::<true> (outcome / error kind, nodes created) -> real "
                "rebuild, against a client-built twin; the Lean parser is compared with the Rust parser on every SSR string.",
        "design_ref": "DESIGN.md §6.3, §6.4, §7 C05, §8 F-C05-1",
        "note": "model hand-written; streamed forms through C07's stream machine with positions added here; post-hydration rebuild equivalence proved for static "
                "string attributes (rests on C03's rebuild_spec), tested beyond",
        "technique": "Lean 4 proof (induction over view trees; tokenizer lemmas of C06; cursor/sibling invariants over the DOM model) + "
                     "kernel-evaluated refutation witness + differential correspondence on the native DOM",
    },
}
