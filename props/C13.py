CFG = {
    "id": "C13",
    "lean_theorems": "LeptosModel.Theorems.C13",
    "lean_exe": "lm_c13",
    "extract": ["ErrorKinds", "ServerFnPath"],
    "theorems": [
        # error wire format (tables extracted from server_fn/src/error.rs)
        "Leptos.ServerFn.C13_error_roundtrip",
        "Leptos.ServerFn.C13_error_roundtrip_bytes",
        "Leptos.ServerFn.C13_sfeCodec_lawful",
        "Leptos.ServerFn.table_encode_decode",
        "Leptos.ServerFn.table_decode_encode",
        "Leptos.ServerFn.table_prefixes_distinct",
        "Leptos.ServerFn.table_prefixes_sep_free",
        "Leptos.ServerFn.table_covers_enum",
        "Leptos.ServerFn.splitOnce_append",
        "Leptos.ServerFn.fromUtf8_utf8Encode",
        # totality of the decoders
        "Leptos.ServerFn.C13_decode_total",
        "Leptos.ServerFn.C13_decode_fallbacks",
        "Leptos.ServerFn.C13_de_cases",
        "Leptos.ServerFn.C13_decode_err_url_total",
        "Leptos.ServerFn.C13_server_total",
        "Leptos.ServerFn.C13_client_total",
        # URL-embedded form
        "Leptos.ServerFn.C13_b64_roundtrip",
        "Leptos.ServerFn.C13_pairs_roundtrip",
        "Leptos.ServerFn.C13_url_error_roundtrip",
        "Leptos.ServerFn.C13_decode_err_url_roundtrip",
        "Leptos.ServerFn.C13_to_url_roundtrip",
        "Leptos.ServerFn.C13_to_url_relative",
        "Leptos.ServerFn.C13_strip_removes_error_info",
        # pipeline
        "Leptos.ServerFn.C13_pipeline_refines_direct_partial",
        "Leptos.ServerFn.C13_pipeline_refines_direct",
        "Leptos.ServerFn.C13_table_methods_agree",
        "Leptos.ServerFn.C13_table_slots_agree",
        # regression witnesses for the repaired F-C13-1 (old table)
        "Leptos.ServerFn.C13_patchurl_witness",
        "Leptos.ServerFn.C13_pipeline_refines_direct_old_false",
        "Leptos.ServerFn.C13_table_slot_mismatch_old",
        "Leptos.ServerFn.C13_status_rule",
        "Leptos.ServerFn.hexCodec_roundtrip",
        # streaming text: any chunking of any text (decode_text_chunks), generic back end
        "Leptos.ServerFn.C13_text_stream",
        "Leptos.ServerFn.C13_text_stream_generic",
        "Leptos.ServerFn.prefix_analysis",
        "Leptos.ServerFn.C13_rechunk_flatten",
        # streamed responses: item sequences with Err items at any position
        "Leptos.ServerFn.C13_text_out_roundtrip",
        "Leptos.ServerFn.C13_text_out_first_error",
        "Leptos.ServerFn.C13_text_decode_keeps_errors",
        "Leptos.ServerFn.C13_text_out_wire_complete",
        "Leptos.ServerFn.C13_bytes_out_roundtrip",
        "Leptos.ServerFn.C13_bytes_out_error_value",
        "Leptos.ServerFn.de_wellFormed",
        # the registered path (table extracted from server_fn_macro::server_fn_url)
        "Leptos.ServerFn.C13_path_with_endpoint",
        "Leptos.ServerFn.C13_path_without_endpoint",
        "Leptos.ServerFn.C13_path_endpoint_slashes",
        "Leptos.ServerFn.C13_path_names_distinct",
        # the non-JS <form> fallback (form-redirects)
        "Leptos.ServerFn.to_url_bytes_roundtrip",
        "Leptos.ServerFn.C13_form_fallback_error_partial",
        "Leptos.ServerFn.C13_form_no_referer_witness",
        "Leptos.ServerFn.C13_form_fallback_error_full_false",
        "Leptos.ServerFn.C13_form_fallback_ok",
        "Leptos.ServerFn.C13_form_fallback_outcome",
        "Leptos.ServerFn.runServerFull_fst",
        "Leptos.ServerFn.runServerFull_snd",
        # middleware, functions without arguments
        "Leptos.ServerFn.C13_middleware_identity",
        "Leptos.ServerFn.C13_middleware_block",
        "Leptos.ServerFn.C13_noargs",
        # websocket protocol
        "Leptos.ServerFn.C13_ws_exchange",
        "Leptos.ServerFn.C13_ws_conversation",
        "Leptos.ServerFn.C13_ws_send_transmits",
        # deeply nested values: the model's recursive codec is total on encoder output at every depth
        "Leptos.ServerFn.C13_deep_values_roundtrip",
        "Leptos.ServerFn.nestCodec_lawful",
        "Leptos.ServerFn.C13_pipeline_deep_values",
        "Leptos.ServerFn.chain_depth",
        # body placement (trivial in the model = the specification; exercised on the implementation side)
        "Leptos.ServerFn.C13_body_placement",
        "Leptos.ServerFn.C13_decode_placement_independent",
        # regression witnesses for the repaired F-C13-2 (old per-chunk decoder)
        "Leptos.ServerFn.C13_text_stream_witness",
        "Leptos.ServerFn.C13_text_stream_old_false",
    ],
    "harness_pkg": "hx-c13",
    "harness_bin": "c13",
    "n": {"quick": 60000, "thorough": 1500000},
    "rule": "one op per case, seeded generator. (a) error wire format: every ServerFnError variant x hostile messages "
            "(separator, CR/LF, NUL, quotes, arbitrary scalars) through the real ser()/de(), hostile byte strings (near-miss "
            "prefixes, missing separator, ill-formed UTF-8) through de(), ServerFnUrlError::to_url/decode_err/strip_error_info over "
            "bases with and without query/fragment/stale error pairs, hostile base64; observable = bytes/strings, compared with the "
            "model byte for byte. (b) pipeline: #[server] functions over every codec pair available offline (Json, GetUrl, PostUrl, "
            "DeleteUrl, PatchUrl, PutUrl, Cbor, MsgPack, Postcard, Rkyv, SerdeLite, Patch/Put variants, mixed pairs, a custom error "
            "type, streaming text/bytes as input, and as OUTPUT with Err items at every position of the item sequence: first, middle, "
            "last, several, only errors) called through a loop-back Client -> generic http::Request<Bytes> -> run_on_server; "
            "observable = canonicalised Ok/Err, oracle = equals the direct call; canned responses for the status rule, hand-built "
            "requests for the server half; the #[server] macro's options as they reach the wire (endpoint, prefix, name / automatic name, "
            "default path with hash, input x output for all 66 + 10 codec pairs that build offline, #[server(default)] and "
            "#[server(rename)] arguments, no arguments, ten arguments, a hand-written generic ServerFn impl), the registered path of "
            "every function against the derivation extracted from server_fn_macro, the non-JS <form> fallback (Accept: text/html + "
            "Referer with/without query, fragment, stale error pairs, or absent) for every error variant x three error encodings "
            "(ServerFnErrorEncoding, JSON, binary CBOR), #[middleware] layers (pass-through; a layer that answers itself); BODY PLACEMENT as a "
            "transport dimension: request and response bodies delivered in their own allocation or as a sub-slice of a larger buffer at "
            "every offset 0..15 from a 16-byte boundary, for Rkyv, Cbor, MsgPack, Postcard (and mixed pairs) over a value type with "
            "out-of-line u64 / f64 / u128 / Box<i128> data under a 4-aligned root; the Websocket<JsonEncoding, JsonEncoding> protocol in "
            "interactive (wait for answer k before sending k+1) and batch conversations, Ok and Err items, observable = answers seen "
            "(or `hang`), oracle = the direct conversation; DEEPLY NESTED values (a recursive comment thread at depths 0..300, widths 1..3) "
            "through Json, SerdeLite, Cbor, MsgPack, Postcard up to the depth each third-party decoder accepts at this commit. (c) TESTING (not proof): truncated / bit-flipped / extended request and response bodies "
            "under catch_unwind for every codec, oracle = an Ok or an Err of the declared type, never a panic. "
            "distinct = distinct op line; every op carries at least one generated string or byte string (non-trivial)",
    "trusted": [
        "third-party serialisers (serde_json, serde_qs, ciborium, rmp-serde, postcard, rkyv, serde-lite): not modelled; the pipeline "
        "theorem assumes only dec(enc a) = ok a, and that law is validated differentially on the generated values "
        "(it fails for serde_qs on empty sequences and Some(\"\"): classes urlenc-empty-vec / urlenc-some-empty)",
        "base64 0.22 URL_SAFE engine and form_urlencoded (modelled: b64Encode/b64Decode incl. error precedence, formEnc/appendPair; "
        "parsing reuses Model/Url.formParse)",
        "url crate: Url::parse normalisation of the base URL (the model splits an already normalised URL at '?' and '#')",
        "core::str UTF-8 validation and <str as Debug> (modelled; the printable/grapheme-extend tables of core::unicode are "
        "approximated for scalars >= U+0080, generators put only checked scalars into {:?} positions)",
        "http crate (Request/Response/Uri) and the harness' loop-back Client/transport (LoopReq mirrors request/reqwest.rs)",
        "extract.py (regex extraction of the encode/decode arms of ServerFnErrorEncoding and of the concatcp! arguments of server_fn_url)",
        "xxhash-rust (the hash suffix of a default path is recomputed by the harness with the same crate and compared, not modelled)",
    ],
    "modelled": [
        "ServerFnErrorEncoding::{encode, decode}", "FromServerFnError::{ser, de}", "ServerFnError::from_server_fn_error",
        "ServerFnUrlError::{to_url, decode_err, strip_error_info}", "Http::{run_client, run_server}", "ServerFn::run_on_server",
        "Res::error_response (generic)", "Req for http::Request<Bytes> (as_query, try_into_string, try_into_bytes, try_into_stream)",
        "IntoReq/FromReq of GetUrl, PostUrl, DeleteUrl, PatchUrl, PutUrl, Post<C>, Patch<C>, Put<C>",
        "IntoRes/FromRes of StreamingText (TextStream) and Streaming (ByteStream), TryRes::try_from_stream (generic): every item relayed, "
        "an Err item as ser() bytes, decoded with E::de",
        "ServerFnCall::server_fn_url (server_fn_macro: ServerFn::PATH)", "ServerFn::run_on_server with form-redirects (Accept: text/html)",
        "Res::redirect (generic)", "middleware::{Layer, Service, BoxedService} composition as in get_server_fn_service",
        "Websocket::{run_client, run_server} (item encode/decode, SinkExt::send = feed + flush)",
        "decode_text_chunks (FromReq/FromRes of StreamingText: incomplete UTF-8 tail carried to the next chunk)",
    ],
    "assumptions": [
        "server_fn feature `multipart` (MultipartFormData) is excluded: its dependency `multer` is not in the offline registry",
        "browser / reqwest / axum / actix back ends are not exercised: the client half is the harness' LoopReq/LoopRes "
        "(same constructor semantics as request/reqwest.rs), the server half is the generic http::Request<Bytes> back end",
        "deep nesting: serde_json (Json, SerdeLite) refuses more than 128 levels (thread depth > 62), ciborium more than 256 (depth > 126) "
        "while their encoders have no limit (proposed known class deep-nesting, F-C13-6); generated depths stay within these limits; "
        "Rkyv and the URL encodings (serde_qs depth 5) are not exercised with recursive values",
        "websocket protocol: exercised over an in-memory duplex (futures mpsc) on one LocalPool with a client write half that only "
        "transmits on flush / close / more than 8 queued frames; real sockets (tungstenite, gloo-net, axum/actix upgrades) are not",
        "a failed item of a streamed response travels as the Display text of the throw_error::Error the generic Body::Async carries "
        "(= ServerFnErrorWrapper = ser() for text error encoders); error types with a *binary* Encoder are not exercised on that path",
        "custom error payloads: the round trip of WrappedServerError(E) is stated under E's own Display/FromStr round trip",
        "base URLs given to to_url / strip_error_info are already in the url crate's normal form",
    ],
    "manifest": {
        "category": "proof",
        "text": "Lean 4 theorems: decode(encode e) = e for every variant of the table extracted from error.rs and every message "
                "(text and UTF-8 wire level); base64url decode(encode bs) = bs by induction over all byte strings; form-urlencoded "
                "append/parse round trip and the URL-embedded error round trip after any earlier query; all modelled decoders are total "
                "and map every failure to a declared error variant; for lawful codecs client(transport(server)) = direct call for Ok and "
                "Err on every input encoding of the library (full, after the repair of F-C13-1: PatchUrl/PutUrl read the body); a text "
                "stream cut into chunks at arbitrary byte positions is reassembled to exactly the text sent (full, after the repair of "
                "F-C13-2); kernel-checked regression witnesses for both old behaviours; tied to the "
                "code by a differential run of the real server_fn crate against the compiled model",
        "design_ref": "DESIGN.md §7 C13",
        "note": "codec internals (serde etc.) trusted, their round-trip law validated differentially; corruption runs are testing",
        "technique": "Lean 4 proof (induction, table facts by decide over the extracted source table) + refutation witnesses + "
                     "differential correspondence + catch_unwind corruption testing",
    },
}
