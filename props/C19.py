CFG = {
    "id": "C19",
    "hooks": True,
    "lean_theorems": "LeptosModel.Theorems.C19",
    "lean_exe": "lm_c19",
    "theorems": [
        "Leptos.Park.Chan.C19_channel_no_lost_wake",
        "Leptos.Park.Chan.C19_channel_notify_consumed",
        "Leptos.Park.Chan.C19_channel_one_shot",
        "Leptos.Park.Chan.C19_linearizable_outcomes",
        "Leptos.Park.Await.C19_await_no_lost_wake",
        "Leptos.Park.Await.C19_await_parked_in_wakers",
        "Leptos.Park.Await.C19_await_no_lost_wake_reloads",
        "Leptos.Park.Await.C19_await_ready_after_store",
        "Leptos.Park.Await.C19_await_lost_wake_witness",
        "Leptos.Park.Await.C19_await_lost_wake_witness_value",
        "Leptos.Park.Await.C19_await_no_lost_wake_old_full_false",
        "Leptos.Park.Await.C19_await_no_lost_wake_partial",
        "Leptos.Park.Memo.C19_memo_lock_order",
        "Leptos.Park.Memo.micro_blocked_needs",
        "Leptos.Park.Memo.C19_memo_guard_deadlock_witness",
        "Leptos.Park.Memo.C19_memo_read_panic_witness",
        "Leptos.Park.Memo.C19_memo_stale_witness",
        "Leptos.Park.Memo.C19_memo_sequential_outcomes_full_false",
        "Leptos.Park.Graph.C19_graph_abba_deadlock_witness",
        "Leptos.Park.Graph.C19_graph_clear_releases_own_lock",
        "Leptos.Park.Graph.C19_graph_check_sees_cross_thread_dirty",
        "Leptos.Park.Graph.C19_graph_torn_read_witness",
        "Leptos.Park.Graph.C19_derived_needs_rerun_atomic",
        "Leptos.Park.Graph.C19_derived_dirty_during_check",
        "Leptos.Park.Graph.C19_effect_check_keeps_mark",
        "Leptos.Park.Graph.C19_effect_dirty_during_check",
        "Leptos.Park.Graph.C19_graph_no_lock_across_notify",
        "Leptos.Park.Graph.C19_graph_deadlock_free",
        "Leptos.Park.Graph.holdsOk_exec",
        "Leptos.Park.Imm.C19_imm_memo_hang_witness",
        "Leptos.Park.Notify.C19_notify_not_stuck",
        "Leptos.Park.Notify.C19_notify_stuck_witness",
        "Leptos.Park.AwaitW.C19_await_writer_lost_wake_witness",
        "Leptos.Park.AwaitW.C19_await_writer_no_lost_wake_full_false",
        "Leptos.Park.AwaitW.C19_await_writer_ready_partial",
        "Leptos.Park.Sig.C19_sig_read_during_write_witness",
        "Leptos.Park.Sig.C19_sig_read_total_full_false",
    ],
    "harness_pkg": "hx-c19",
    "harness_bin": "c19",
    "n": {"quick": 13500, "thorough": 110000},
    "exhaustive": {"quick": False, "thorough": False},
    "trivial_tags": ["plain"],
    "rule": "a case = one scenario + one interleaving (list of thread ids) replayed on real OS threads driven in lock-step through the "
            "yield points of hooks/yield_points.patch; EXHAUSTIVE over the instrumented segments for: await (ready/value/ref) 1 awaiter x producer "
            "(C(7,3)=35 each), await ready 2 awaiters x producer (4200), channel 1 sender (15 + 126) and 2 senders (420), memo get||get (924), "
            "get||set, set;get||get (<=400 sampled in quick, all 1716 in thorough), get||hold;set;drop (<=400 / 3003), 5 signal read/write pairs, notify_subs||notify_subs (126) and update||await (3 x 10); "
            "memo GRAPHS (diamond zero/plus1/sum of seed r2-3, coarse/base, chains, 2-level sums: Check arm with several sources, mark_dirty/mark_check propagation, "
            "every reactivity lock acquisition a micro-step) under ~2000 seeded random schedules over 12 shapes x programs (20000 in thorough), gated at the memo:* points "
            "incl. memo:cleared/memo:unlocked and at sources:clearing; 3-thread notify_subs (250 / 3000 random); single-thread ImmediateEffect on a memo / chain / diamond (42 programs); "
            "the await path across RELOADS with 2-3 awaiters and late re-polls (`awaitr`, 900 / 12000 random schedules over 6 configurations, all three future kinds); "
            "an async derived over a memo source + a directly read signal, its task pre-empted inside needs_rerun's source check at the memo:* points while other threads "
            "write either signal / read the memos (`derived`, 800 / 12000 random schedules over 8 shapes x programs, final value = from-scratch); the same for an `Effect::new` task "
            "(`effect`, 800 / 12000, last logged value = from-scratch); bounded real-thread STRESS ops, labelled testing, for which the model answers the constant expected "
            "outcome: `stress subs` (two threads re-run memos on one signal next to an idle third subscriber, every round all three must be notified; 5 x 60000 + 100000 rounds, "
            "20 x 200000 thorough) and `stress writes` (2-3 threads incrementing through each of the 8 write-handle families, no increment lost; 16 x 30000 / 200000); thorough adds "
            "await value/ref with 2 awaiters (2 x 4200) and channel 2x2 notifies (34650); the rest are seeded random schedules over larger configurations "
            "(up to 3 awaiters / 3 senders / 2 memo threads with 1-3 ops) and a few free-running effect stress runs (testing only, watchdog); "
            "distinct = distinct op line; every case is non-trivial (tags = scenario family)",
    "trusted": [
        "sequential consistency of the modelled atomics: the real `loading`/`set` are AtomicBool with Ordering::Relaxed, the rest is lock-protected; "
        "weak-memory reorderings are outside the model (named limitation, Model/Park.lean header)",
        "futures::task::AtomicWaker register/wake modelled as atomic steps; async-lock RwLock and event-listener notify(1)/propagate-on-drop modelled from observed behaviour",
        "lock-step engine of harness/hx-c19 (condvar turns; a thread is 'blocked' when it sleeps in a futex that is not the engine's, per /proc/self/task/<tid>/{stat,syscall}); "
        "hx_common::sched as the executor of the producer thread; std::sync::RwLock (futex) fairness is irrelevant with at most one blocked thread per lock",
        "the hook itself (reactive_graph::verif_hooks, add-only, cfg(leptos_verif)): yield points only call the installed callback",
    ],
    "modelled": [
        "AsyncDerivedReadyFuture/AsyncDerivedFuture/AsyncDerivedRefFuture::poll", "ArcAsyncDerived::set_inner_value/notify_subs",
        "channel::Sender::notify / Receiver::poll_next (+ task loop)", "MemoInner::update_if_necessary, ArcMemo::try_read_untracked, mark_dirty",
        "ArcRwSignal get/set/write guard (Plain::try_new = try_read)",
        "memo graphs: needs_update Check arm, clear_sources/SourceSet::clear_sources, Track::track, inner_2, mark_dirty/mark_check/mark_subscribers_check with their locks",
        "ArcAsyncDerived::notify_subs state save/restore (Notifying)", "the async derived's task loop (rx.next, ArcAsyncDerivedInner::needs_rerun, fetcher run) with mark_dirty/mark_check from other threads", "reloads (loading.store(true), next fetcher) on the await path", "AsyncDerived{,Ref}Future::poll (false, Pending) arm vs Write::try_write (blocking_write)",
    ],
    "assumptions": [
        "one step = the code between two yield points; interleavings inside a step (e.g. inside ArcRwSignal::set) are not enumerated — the free-running stress covers them only as testing",
        "memo/signal lock-step scenarios have two threads (with three, two threads blocked on one lock would race for it for real)",
        "graph scenarios: one signal, up to 5 memos, memo i reads only the signal and memos < i; deadlock-freedom of the repaired memo-graph machine is PROVED for all interleavings "
        "(C19_graph_deadlock_free, from `init`, i.e. lazily-dirty memos; a clean start is a program prefix of gets); ImmediateEffect is only modelled at the level hang / last value seen; owner disposal and arena access (owner/arena.rs) across threads are not driven",
    ],
    "manifest": {
        "category": "proof",
        "text": "Lean 4 theorems over ALL interleavings (induction over the schedule, invariants) of the atomic-step model Model/Park: the notification channel "
                "loses no notification for any number of senders/notifies/polls (C19_channel_no_lost_wake, _notify_consumed, _one_shot) and its one-shot outcomes are "
                "linearizable up to spurious wake-ups; the memo update's lock graph is reactivity->value only, the user function runs lock-free and no interleaving of any "
                "number of get/set threads deadlocks (C19_memo_lock_order), with the documented ReadGuard exception exhibited as a deadlock witness; the await path's "
                "no-lost-wake-up statement holds for ALL interleavings, any number of awaiters and all three future kinds (C19_await_no_lost_wake) after the repair of F-C19-1 "
                "(fix: re-check `loading` after registering the waker); the pre-repair code is kept as `initOld` with the kernel-checked 7-entry witness as regression theorem "
                "and its old partial theorem. Refutation witnesses found by the replay and left as known findings: concurrent memo get panics (F-C19-2), write lost during recomputation "
                "(F-C19-3), signal read during write panics (F-C19-4). Every witness replays on the real code: two or three real OS threads are driven in lock-step through "
                "named yield points (hook, cfg(leptos_verif)) and their outcomes compared with the compiled model on every enumerated interleaving. Partial: sequential "
                "consistency is assumed (real atomics are Relaxed), AtomicWaker/async-lock trusted.",
        "design_ref": "DESIGN.md §7 C19",
        "note": "model hand-written at hook granularity, validated by exhaustive schedule replay; randomized multi-thread stress is supporting evidence only (testing)",
        "technique": "Lean 4 proof (invariants over all schedules) + refutation witnesses (decide) + exhaustive lock-step schedule replay on real threads",
    },
}
