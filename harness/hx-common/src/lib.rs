//! Shared by all correspondence harnesses: one PRNG, hex transport, op-file IO.
pub mod sched;
use std::fmt::Write as _;
use std::io::{BufRead, Write};

/// SplitMix64: every random choice of a run derives from one seed.
#[derive(Clone)]
pub struct Rng(pub u64);
impl Rng {
    pub fn new(seed: u64) -> Self {
        Rng(seed.wrapping_mul(0x9E3779B97F4A7C15) ^ 0xD1B54A32D192ED03)
    }
    pub fn next(&mut self) -> u64 {
        self.0 = self.0.wrapping_add(0x9E3779B97F4A7C15);
        let mut z = self.0;
        z = (z ^ (z >> 30)).wrapping_mul(0xBF58476D1CE4E5B9);
        z = (z ^ (z >> 27)).wrapping_mul(0x94D049BB133111EB);
        z ^ (z >> 31)
    }
    pub fn below(&mut self, n: usize) -> usize {
        if n == 0 { 0 } else { (self.next() % n as u64) as usize }
    }
    pub fn range(&mut self, lo: usize, hi: usize) -> usize {
        lo + self.below(hi - lo + 1)
    }
    pub fn chance(&mut self, num: usize, den: usize) -> bool {
        self.below(den) < num
    }
    pub fn pick<'a, T>(&mut self, xs: &'a [T]) -> &'a T {
        &xs[self.below(xs.len())]
    }
}

pub fn hex(bytes: &[u8]) -> String {
    if bytes.is_empty() {
        return "-".into();
    }
    let mut s = String::with_capacity(bytes.len() * 2);
    for b in bytes {
        write!(s, "{:02x}", b).unwrap();
    }
    s
}

pub fn unhex(s: &str) -> Option<Vec<u8>> {
    if s == "-" {
        return Some(vec![]);
    }
    if s.len() % 2 != 0 {
        return None;
    }
    (0..s.len())
        .step_by(2)
        .map(|i| u8::from_str_radix(s.get(i..i + 2)?, 16).ok())
        .collect()
}

pub fn unhex_str(s: &str) -> Option<String> {
    String::from_utf8(unhex(s)?).ok()
}

/// Reads an ops file, calls `f(line)` for every line, writes one output line per input line.
///
/// A watchdog thread turns a hang inside the real code (deadlock, livelock) into an observable
/// outcome instead of a stuck check: if one op line makes no progress for `HX_LINE_TIMEOUT_S`
/// seconds (default 60) the watchdog writes `hang ## fail hang` for that line, `skipped` for the
/// rest of the file, and ends the process.
pub fn run_ops(
    ops_path: &str,
    out_path: &str,
    mut f: impl FnMut(&str) -> String,
) -> std::io::Result<()> {
    use std::sync::atomic::{AtomicU64, Ordering};
    use std::sync::{Arc, Mutex};
    let lines: Vec<String> = std::io::BufReader::new(std::fs::File::open(ops_path)?)
        .lines()
        .collect::<Result<_, _>>()?;
    let total = lines.len() as u64;
    let out = Arc::new(Mutex::new(std::io::BufWriter::new(std::fs::File::create(out_path)?)));
    let done = Arc::new(AtomicU64::new(0));
    let limit: u64 = std::env::var("HX_LINE_TIMEOUT_S").ok().and_then(|v| v.parse().ok()).unwrap_or(60);
    {
        let out = out.clone();
        let done = done.clone();
        std::thread::spawn(move || {
            let mut last = 0u64;
            let mut since = std::time::Instant::now();
            loop {
                std::thread::sleep(std::time::Duration::from_millis(250));
                let d = done.load(Ordering::SeqCst);
                if d >= total {
                    return;
                }
                if d != last {
                    last = d;
                    since = std::time::Instant::now();
                } else if since.elapsed().as_secs() >= limit {
                    if let Ok(mut w) = out.lock() {
                        let _ = writeln!(w, "hang ## fail hang");
                        for _ in d + 1..total {
                            let _ = writeln!(w, "skipped");
                        }
                        let _ = w.flush();
                    }
                    std::process::exit(3);
                }
            }
        });
    }
    for line in &lines {
        let o = f(line.trim());
        debug_assert!(!o.contains('\n'));
        writeln!(out.lock().unwrap(), "{}", o)?;
        done.fetch_add(1, Ordering::SeqCst);
    }
    let r = out.lock().unwrap().flush();
    r
}

/// Silences the default panic message (cases are run under `catch_unwind`).
pub fn quiet_panics() {
    std::panic::set_hook(Box::new(|_| {}));
}

/// Standard CLI: `gen <seed> <n> <ops.txt>` | `run <ops.txt> <impl.out>`.
pub enum Cmd {
    Gen { seed: u64, n: usize, ops: String, tier: String },
    Run { ops: String, out: String },
}
pub fn parse_cli() -> Cmd {
    let a: Vec<String> = std::env::args().collect();
    match a.get(1).map(|s| s.as_str()) {
        Some("gen") if a.len() >= 5 => Cmd::Gen {
            seed: a[2].parse().expect("seed"),
            n: a[3].parse().expect("n"),
            ops: a[4].clone(),
            tier: a.get(5).cloned().unwrap_or_else(|| "quick".into()),
        },
        Some("run") if a.len() >= 4 => Cmd::Run { ops: a[2].clone(), out: a[3].clone() },
        _ => {
            eprintln!("usage: {} gen <seed> <n> <ops.txt> [tier] | run <ops.txt> <impl.out>", a[0]);
            std::process::exit(2)
        }
    }
}
