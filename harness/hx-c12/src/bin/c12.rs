//! C12 correspondence harness: the real `hydration_context::SsrSharedContext` (and, for the id
//! counters, the real `HydrateSharedContext`) from /repo's working tree.
//!
//! Op grammar (strings travel as hex of their UTF-8 bytes, `-` = empty; state is per case):
//!   case <n>
//!   ctx new|islands          SsrSharedContext::new() / new_islands()                  -> ok
//!   hyd 0|1                  set_is_hydrating                                         -> ok
//!   id                       next_id() (an error boundary / error id)                 -> id <n>
//!   write <kind> <carrier> <value> [<enc>]
//!                            a value handed to the shared context. kind = the (type, codec) pair:
//!                              str   String, FromToStringCodec          jstr  String, JsonSerdeCodec
//!                              json  serde_json::Value, JsonSerdeCodec (value = the JSON text)
//!                              slite String, SerdeLite<JsonSerdeCodec>  mini  String, MiniserdeCodec
//!                              bytes Vec<u8>, a custom binary codec     rkyvs String / rkyvi i64, RkyvCodec
//!                            (slite mini rkyv*: <enc> = the codec's output, which the model does not compute;
//!                            the harness checks the real encoder reproduces it). carrier:
//!                              d   by hand, as resource.rs does: id = next_id(); if get_is_hydrating() { write_async(id, fut) }
//!                              ar  ArcResource   r  Resource   ao  ArcOnceResource   o  OnceResource, each through the constructor
//!                                  leptos_server names for the codec (new_str, new, new_serde_lite, new_miniserde, new_rkyv;
//!                                  new_with_options for the custom codec); arb rb aob ob = its `*_blocking` twin
//!                              sv  SharedValue::new_str / new / … (ready at once)
//!                              svn arn rn = sv ar r whose initialiser / fetcher synchronously creates an inner
//!                                  SharedValue<String> (value "inner-of-<hex>") before returning: depth-2 creation;
//!                                  the output then ends `inner=<id>` and the inner value is write k + 1
//!                            created under an Owner whose shared context forwards to the real SsrSharedContext
//!                            and records next_id / write_async                         -> w <k> <id> <registered 0|1> enc=<encoded string> ## verdict
//!   err <b> <e> <msg>        register_error(boundary b, error id e, Error whose Display is msg) -> ok
//!   seal <b>                 seal_errors                                              -> ok
//!   inc <id>                 set_incomplete_chunk                                     -> ok
//!   start                    pending_data()                                           -> ok | skip
//!   complete <k>             write k's load finishes (oneshot), the executor runs until idle -> ok | skip
//!   consume                  the other server exit: `consume_buffers()` (custom hydration contexts) -> ok | skip
//!   cpoll                    poll that future once: `pending` | done <id:s,..> ## verdict (every value once, under
//!                            its id, decoding to the server's value)
//!   hydrate                  the client: the carriers of the flag-on creations are created again, in order, under a
//!                            shared context = real HydrateSharedContext for ids/flags + read_data from what the browser
//!                            twin evaluated out of the REAL script text (or the consume_buffers pairs)
//!                                                                                     -> hydrate <k>:<ok|wrong|none>,.. fetches=<n> ## verdict
//!                            (ok = the carrier starts with the server's value; fetches = client-side loads that ran)
//!   client post|csr <kind> <carrier> <value> [<enc>]
//!                            one more carrier on the client at another moment: `post` = on the hydrated page after
//!                            hydration_complete() (its data still readable), `csr` = under the real CsrSharedContext
//!                                                                                     -> client <m> ids=<drawn> st=<..> fetches=<n> ## verdict
//!                            (oracle: it looks at nothing that was transferred, starts empty, runs its own loader)
//!   poll                     poll_next once with a no-op waker                        ->
//!        chunk <wrapped> tok=<ok|pos|none> danger=<0|1> reads=<id:s,..|-> errs=<b:e:s,..|-> [inc=<ids>] ## verdict
//!      | chunk <wrapped> tok=.. danger=.. syntax-error ## verdict | pending | end ## verdict | skip
//!        <wrapped> = `<script>` + chunk + `</script>` as integrations/utils build_response does
//!   ids new|islands <prog>   prog over c (next_id) t f (set_is_hydrating true/false): real server
//!                            counter on the whole program, real client counter on the creations made
//!                            while the flag is on (c=) and on the whole program (c2=)
//!                                                                                     -> s=.. c=.. c2=.. ## verdict
//!   jsonenc <s>              JSON codec end to end for the string value <s>: real JsonSerdeCodec::encode,
//!                            real data site, browser twin, real JsonSerdeCodec::decode        -> <json> <read|none> ## verdict
//!   js <src>                 browser twins only: value of the string literal <src>            -> <s> | syntax-error
//!   tok <text>               browser twins only: tokenizer + scanner on arbitrary text       -> tok=.. danger=..
//!   lit d|e <s>              one-value session: the `__RESOLVED_RESOURCES[0] = …;` (d) or
//!                            `__SERIALIZED_ERRORS.push([0, 0, …]);` (e) chunk for <s>
//!                                                                                     -> <wrapped> tok=.. danger=.. <read|none|syntax-error> ## verdict
//!
//! The verdicts are the property's oracle on the REAL chunk text, computed by an independent
//! twin of what a browser does (`mod js`: ECMAScript string-literal decoding + a small parser for
//! array/assignment/push statements; `mod html`: the WHATWG script-data tokenizer states):
//!  (i) every id reads back exactly the written string (JSON codec: the same serde_json value),
//!  (ii) no chunk can end the script element / start markup, (iii) each value exactly once.
use futures::{channel::oneshot, Stream};
use hx_common::*;
use hydration_context::{
    HydrateSharedContext, PinnedFuture, PinnedStream, SerializedDataId, SharedContext, SsrSharedContext,
};
use leptos_server::codee::{
    binary::RkyvCodec,
    string::{FromToStringCodec, JsonSerdeCodec, MiniserdeCodec},
    Decoder, Encoder, SerdeLite,
};
use leptos_server::{
    ArcOnceResource, ArcResource, FromEncodedStr, IntoEncodedString, OnceResource, Resource, SharedValue,
};
use reactive_graph::{owner::Owner, traits::ReadUntracked};
use std::any::Any;
use std::borrow::Borrow;
use std::collections::HashMap;
use std::fmt::Debug;
use std::future::Future;
use std::pin::Pin;
use std::sync::{
    atomic::{AtomicUsize, Ordering},
    Arc, Mutex,
};
use std::task::{Context, Poll};
use throw_error::{Error, ErrorId};

// ------------------------------------------------------------------ browser twin: JS

mod js {
    //! ECMA-262 (sloppy mode script): tokens `ident number "string" = [ ] ( ) , ; .`;
    //! statements `ident = expr ;` | `ident [ number ] = expr ;` | `ident . push ( expr ) ;`,
    //! expr = number | string | array literal (trailing comma allowed).
    use std::collections::HashMap;

    #[derive(Clone, Debug, PartialEq)]
    pub enum Tok {
        Ident(String),
        Num(u128),
        Str(Vec<u32>),
        P(char),
    }

    fn hexv(c: u32) -> Option<u32> {
        char::from_u32(c)?.to_digit(16)
    }
    fn is_oct(c: u32) -> bool {
        (0x30..=0x37).contains(&c)
    }

    /// src[i] is the opening `"`; returns the UTF-16 code units of the value and the index after
    /// the closing quote. None = SyntaxError.
    pub fn string_literal(src: &[u32], mut i: usize) -> Option<(Vec<u32>, usize)> {
        debug_assert_eq!(src[i], 0x22);
        i += 1;
        let mut out: Vec<u32> = vec![];
        let push_cp = |out: &mut Vec<u32>, cp: u32| {
            if cp >= 0x10000 {
                let v = cp - 0x10000;
                out.push(0xD800 + (v >> 10));
                out.push(0xDC00 + (v & 0x3FF));
            } else {
                out.push(cp)
            }
        };
        loop {
            let c = *src.get(i)?;
            i += 1;
            match c {
                0x22 => return Some((out, i)),
                0x0A | 0x0D => return None, // LineTerminator (U+2028/2029 are allowed since ES2019)
                0x5C => {
                    let e = *src.get(i)?;
                    i += 1;
                    match e {
                        0x6E => out.push(0x0A),
                        0x72 => out.push(0x0D),
                        0x74 => out.push(0x09),
                        0x62 => out.push(0x08),
                        0x66 => out.push(0x0C),
                        0x76 => out.push(0x0B),
                        // LineContinuation
                        0x0D => {
                            if src.get(i) == Some(&0x0A) {
                                i += 1
                            }
                        }
                        0x0A | 0x2028 | 0x2029 => {}
                        0x78 => {
                            let a = hexv(*src.get(i)?)?;
                            let b = hexv(*src.get(i + 1)?)?;
                            i += 2;
                            out.push(a * 16 + b)
                        }
                        0x75 => {
                            if src.get(i) == Some(&0x7B) {
                                i += 1;
                                let mut v: u32 = 0;
                                let mut n = 0;
                                loop {
                                    let d = *src.get(i)?;
                                    i += 1;
                                    if d == 0x7D {
                                        break;
                                    }
                                    v = v.checked_mul(16)?.checked_add(hexv(d)?)?;
                                    if v > 0x10FFFF {
                                        return None;
                                    }
                                    n += 1;
                                }
                                if n == 0 {
                                    return None;
                                }
                                push_cp(&mut out, v)
                            } else {
                                let mut v = 0;
                                for _ in 0..4 {
                                    v = v * 16 + hexv(*src.get(i)?)?;
                                    i += 1;
                                }
                                out.push(v)
                            }
                        }
                        // `\0` [lookahead not a decimal digit], LegacyOctalEscapeSequence (Annex B.1.2)
                        0x30..=0x37 => {
                            let mut v = e - 0x30;
                            let max_more = if e <= 0x33 { 2 } else { 1 };
                            let mut k = 0;
                            while k < max_more {
                                match src.get(i) {
                                    Some(&d) if is_oct(d) => {
                                        v = v * 8 + (d - 0x30);
                                        i += 1;
                                        k += 1
                                    }
                                    _ => break,
                                }
                            }
                            out.push(v)
                        }
                        // NonOctalDecimalEscapeSequence (8, 9) and every other NonEscapeCharacter
                        other => push_cp(&mut out, other),
                    }
                }
                other => push_cp(&mut out, other),
            }
        }
    }

    /// UTF-16 code units -> scalar values (what `JsValue::as_string` yields for well-formed input;
    /// a lone surrogate is kept as its code unit so that it never compares equal to a Rust string)
    pub fn utf16_to_cps(u: &[u32]) -> Vec<u32> {
        let mut out = vec![];
        let mut i = 0;
        while i < u.len() {
            let c = u[i];
            if (0xD800..0xDC00).contains(&c) && i + 1 < u.len() && (0xDC00..0xE000).contains(&u[i + 1]) {
                out.push(0x10000 + ((c - 0xD800) << 10) + (u[i + 1] - 0xDC00));
                i += 2
            } else {
                out.push(c);
                i += 1
            }
        }
        out
    }

    pub fn lex(src: &[u32]) -> Option<Vec<Tok>> {
        let mut i = 0;
        let mut toks = vec![];
        while i < src.len() {
            let c = src[i];
            let ch = char::from_u32(c)?;
            if ch == ' ' || ch == '\t' || ch == '\n' || ch == '\r' {
                i += 1
            } else if ch == '"' {
                let (s, j) = string_literal(src, i)?;
                toks.push(Tok::Str(utf16_to_cps(&s)));
                i = j
            } else if ch.is_ascii_digit() {
                let mut v: u128 = 0;
                let st = i;
                while i < src.len() && (0x30..=0x39).contains(&src[i]) {
                    v = v.checked_mul(10)?.checked_add((src[i] - 0x30) as u128)?;
                    i += 1
                }
                // a leading zero followed by digits is a legacy octal literal: not what we print
                if i - st > 1 && src[st] == 0x30 {
                    return None;
                }
                toks.push(Tok::Num(v))
            } else if ch == '_' || ch == '$' || ch.is_ascii_alphabetic() {
                let mut s = String::new();
                while i < src.len() {
                    let d = char::from_u32(src[i])?;
                    if d == '_' || d == '$' || d.is_ascii_alphanumeric() {
                        s.push(d);
                        i += 1
                    } else {
                        break;
                    }
                }
                toks.push(Tok::Ident(s))
            } else if "=[](),;.".contains(ch) {
                toks.push(Tok::P(ch));
                i += 1
            } else {
                return None; // `:` `<` … : not an expression we can be in
            }
        }
        Some(toks)
    }

    #[derive(Clone, Debug, PartialEq)]
    pub enum V {
        Num(u128),
        Str(Vec<u32>),
        Arr(Vec<V>),
    }

    #[derive(Clone, Default)]
    pub struct State {
        pub globals: HashMap<String, Vec<V>>,
        /// every `__RESOLVED_RESOURCES[i] = "…"` in execution order
        pub assign_log: Vec<(u128, Vec<u32>)>,
    }

    struct Parser<'a> {
        t: &'a [Tok],
        i: usize,
    }
    impl<'a> Parser<'a> {
        fn peek(&self) -> Option<&Tok> {
            self.t.get(self.i)
        }
        fn next(&mut self) -> Option<Tok> {
            let t = self.t.get(self.i)?.clone();
            self.i += 1;
            Some(t)
        }
        fn eat(&mut self, c: char) -> Option<()> {
            if self.next()? == Tok::P(c) {
                Some(())
            } else {
                None
            }
        }
        fn expr(&mut self) -> Option<V> {
            match self.next()? {
                Tok::Num(n) => Some(V::Num(n)),
                Tok::Str(s) => Some(V::Str(s)),
                Tok::P('[') => {
                    let mut items = vec![];
                    loop {
                        if self.peek()? == &Tok::P(']') {
                            self.i += 1;
                            return Some(V::Arr(items));
                        }
                        items.push(self.expr()?);
                        match self.next()? {
                            Tok::P(',') => {}
                            Tok::P(']') => return Some(V::Arr(items)),
                            _ => return None,
                        }
                    }
                }
                _ => None,
            }
        }
    }

    enum Stmt {
        Set(String, V),
        SetIdx(String, u128, V),
        Push(String, V),
    }

    /// Parse the whole script first (a SyntaxError anywhere means nothing runs), then execute.
    pub fn run_script(src: &[u32], st: &State) -> Option<State> {
        let toks = lex(src)?;
        let mut p = Parser { t: &toks, i: 0 };
        let mut stmts = vec![];
        while p.peek().is_some() {
            let Tok::Ident(name) = p.next()? else { return None };
            match p.next()? {
                Tok::P('=') => {
                    let v = p.expr()?;
                    p.eat(';')?;
                    stmts.push(Stmt::Set(name, v))
                }
                Tok::P('[') => {
                    let Tok::Num(n) = p.next()? else { return None };
                    p.eat(']')?;
                    p.eat('=')?;
                    let v = p.expr()?;
                    p.eat(';')?;
                    stmts.push(Stmt::SetIdx(name, n, v))
                }
                Tok::P('.') => {
                    if p.next()? != Tok::Ident("push".into()) {
                        return None;
                    }
                    p.eat('(')?;
                    let v = p.expr()?;
                    p.eat(')')?;
                    p.eat(';')?;
                    stmts.push(Stmt::Push(name, v))
                }
                _ => return None,
            }
        }
        let mut st = st.clone();
        for s in stmts {
            match s {
                Stmt::Set(name, V::Arr(items)) => {
                    st.globals.insert(name, items);
                }
                Stmt::Set(..) => return None,
                Stmt::SetIdx(name, n, v) => {
                    st.globals.entry(name.clone()).or_default();
                    if name == "__RESOLVED_RESOURCES" {
                        let V::Str(s) = v else { return None };
                        st.assign_log.push((n, s))
                    }
                }
                Stmt::Push(name, v) => st.globals.entry(name).or_default().push(v),
            }
        }
        Some(st)
    }
}

// ------------------------------------------------------------------ browser twin: HTML

mod html {
    //! WHATWG HTML §13.2.5: the tokenizer states reachable inside a `script` element.
    #[derive(Clone, Copy, PartialEq, Debug)]
    enum S {
        Data,
        Lt,
        EndOpen,
        EndName,
        EscStart,
        EscStartDash,
        Esc,
        EscDash,
        EscDashDash,
        EscLt,
        EscEndOpen,
        EscEndName,
        DblStart,
        Dbl,
        DblDash,
        DblDashDash,
        DblLt,
        DblEnd,
    }

    fn ws_slash_gt(c: u32) -> bool {
        matches!(c, 0x09 | 0x0A | 0x0C | 0x0D | 0x20 | 0x2F | 0x3E)
    }
    fn alpha(c: u32) -> bool {
        (0x41..=0x5A).contains(&c) || (0x61..=0x7A).contains(&c)
    }
    fn lower(c: u32) -> u32 {
        if (0x41..=0x5A).contains(&c) {
            c + 0x20
        } else {
            c
        }
    }
    const SCRIPT: [u32; 6] = [0x73, 0x63, 0x72, 0x69, 0x70, 0x74];

    /// number of characters consumed when an appropriate `</script` end tag is recognised
    pub fn script_close(text: &[u32]) -> Option<usize> {
        let mut s = S::Data;
        let mut buf: Vec<u32> = vec![];
        let mut i = 0;
        while i < text.len() {
            let c = text[i];
            // `continue` without advancing = "reconsume in …"
            match s {
                S::Data => {
                    if c == 0x3C {
                        s = S::Lt
                    }
                }
                S::Lt => match c {
                    0x2F => {
                        buf.clear();
                        s = S::EndOpen
                    }
                    0x21 => s = S::EscStart,
                    _ => {
                        s = S::Data;
                        continue;
                    }
                },
                S::EndOpen => {
                    s = if alpha(c) { S::EndName } else { S::Data };
                    buf.clear();
                    continue;
                }
                S::EndName => {
                    if alpha(c) {
                        buf.push(lower(c))
                    } else if ws_slash_gt(c) && buf == SCRIPT {
                        return Some(i + 1);
                    } else {
                        s = S::Data;
                        continue;
                    }
                }
                S::EscStart => {
                    if c == 0x2D {
                        s = S::EscStartDash
                    } else {
                        s = S::Data;
                        continue;
                    }
                }
                S::EscStartDash => {
                    if c == 0x2D {
                        s = S::EscDashDash
                    } else {
                        s = S::Data;
                        continue;
                    }
                }
                S::Esc => match c {
                    0x2D => s = S::EscDash,
                    0x3C => s = S::EscLt,
                    _ => {}
                },
                S::EscDash => match c {
                    0x2D => s = S::EscDashDash,
                    0x3C => s = S::EscLt,
                    _ => s = S::Esc,
                },
                S::EscDashDash => match c {
                    0x2D => {}
                    0x3C => s = S::EscLt,
                    0x3E => s = S::Data,
                    _ => s = S::Esc,
                },
                S::EscLt => {
                    if c == 0x2F {
                        buf.clear();
                        s = S::EscEndOpen
                    } else if alpha(c) {
                        buf.clear();
                        s = S::DblStart;
                        continue;
                    } else {
                        s = S::Esc;
                        continue;
                    }
                }
                S::EscEndOpen => {
                    s = if alpha(c) { S::EscEndName } else { S::Esc };
                    buf.clear();
                    continue;
                }
                S::EscEndName => {
                    if alpha(c) {
                        buf.push(lower(c))
                    } else if ws_slash_gt(c) && buf == SCRIPT {
                        return Some(i + 1);
                    } else {
                        s = S::Esc;
                        continue;
                    }
                }
                S::DblStart => {
                    if ws_slash_gt(c) {
                        s = if buf == SCRIPT { S::Dbl } else { S::Esc }
                    } else if alpha(c) {
                        buf.push(lower(c))
                    } else {
                        s = S::Esc;
                        continue;
                    }
                }
                S::Dbl => match c {
                    0x2D => s = S::DblDash,
                    0x3C => s = S::DblLt,
                    _ => {}
                },
                S::DblDash => match c {
                    0x2D => s = S::DblDashDash,
                    0x3C => s = S::DblLt,
                    _ => s = S::Dbl,
                },
                S::DblDashDash => match c {
                    0x2D => {}
                    0x3C => s = S::DblLt,
                    0x3E => s = S::Data,
                    _ => s = S::Dbl,
                },
                S::DblLt => {
                    if c == 0x2F {
                        buf.clear();
                        s = S::DblEnd
                    } else {
                        s = S::Dbl;
                        continue;
                    }
                }
                S::DblEnd => {
                    if ws_slash_gt(c) {
                        s = if buf == SCRIPT { S::Esc } else { S::Dbl }
                    } else if alpha(c) {
                        buf.push(lower(c))
                    } else {
                        s = S::Dbl;
                        continue;
                    }
                }
            }
            i += 1;
        }
        None
    }

    /// `</script`, `<script` (ASCII case-insensitive) or `<!--` occurs in the text
    pub fn has_danger(text: &str) -> bool {
        let l = text.to_ascii_lowercase();
        l.contains("</script") || l.contains("<script") || l.contains("<!--")
    }
}

// ------------------------------------------------------------------ input classes

fn nul_oct(s: &str) -> bool {
    let b = s.as_bytes();
    b.windows(2).any(|w| w[0] == 0 && (b'0'..=b'7').contains(&w[1]))
}

fn cps(s: &str) -> Vec<u32> {
    s.chars().map(|c| c as u32).collect()
}
fn hex_cps(v: &[u32]) -> String {
    // lone surrogates cannot be UTF-8 encoded: show them as U+FFFD (never equal to a Rust string anyway)
    let s: String = v.iter().map(|&c| char::from_u32(c).unwrap_or('\u{FFFD}')).collect();
    hex(s.as_bytes())
}

// ------------------------------------------------------------------ the case state

#[derive(Debug)]
struct Msg(String);
impl std::fmt::Display for Msg {
    fn fmt(&self, f: &mut std::fmt::Formatter<'_>) -> std::fmt::Result {
        f.write_str(&self.0)
    }
}
impl std::error::Error for Msg {}

// ------------------------------------------------------------------ codecs and value kinds

/// A user-defined binary codec (`Encoded = Vec<u8>`): the value *is* the bytes.
struct RawBytes;
impl Encoder<Vec<u8>> for RawBytes {
    type Error = ();
    type Encoded = Vec<u8>;
    fn encode(val: &Vec<u8>) -> Result<Vec<u8>, ()> {
        Ok(val.clone())
    }
}
impl Decoder<Vec<u8>> for RawBytes {
    type Error = ();
    type Encoded = [u8];
    fn decode(val: &[u8]) -> Result<Vec<u8>, ()> {
        Ok(val.to_vec())
    }
}

/// value kinds = (Rust type, codec) pairs leptos_server offers (`Resource::new_str`, `::new`,
/// `::new_serde_lite`, `::new_miniserde`, `::new_rkyv`, a custom binary codec)
#[derive(Clone, Copy, PartialEq, Debug)]
enum Kind {
    Str,   // String, FromToStringCodec
    JStr,  // String, JsonSerdeCodec
    Json,  // serde_json::Value, JsonSerdeCodec (the op carries the JSON text)
    SLite, // String, SerdeLite<JsonSerdeCodec>
    Mini,  // String, MiniserdeCodec
    Bytes, // Vec<u8>, RawBytes        (base64)
    RkyvS, // String, RkyvCodec        (base64 of the archive)
    RkyvI, // i64, RkyvCodec
}
impl Kind {
    fn parse(s: &str) -> Option<Kind> {
        Some(match s {
            "str" => Kind::Str,
            "jstr" => Kind::JStr,
            "json" => Kind::Json,
            "slite" => Kind::SLite,
            "mini" => Kind::Mini,
            "bytes" => Kind::Bytes,
            "rkyvs" => Kind::RkyvS,
            "rkyvi" => Kind::RkyvI,
            _ => return None,
        })
    }
    /// kinds whose op carries the expected encoded form as a second payload (not modelled in Lean)
    fn has_aux(self) -> bool {
        matches!(self, Kind::SLite | Kind::Mini | Kind::RkyvS | Kind::RkyvI)
    }
}

/// how the value reaches the shared context
#[derive(Clone, Copy, PartialEq, Debug)]
enum Variant {
    Direct,  // next_id + write_async by hand, as resource.rs does
    ArcRes,  // ArcResource::new_with_options
    Res,     // Resource::new_with_options
    ArcOnce, // ArcOnceResource::new_with_options
    Once,    // OnceResource::new_with_options
    Shared,  // SharedValue::new_with_encoding
}
impl Variant {
    /// (carrier, blocking): a trailing `b` selects the `*_blocking` constructor
    fn parse(s: &str) -> Option<(Variant, bool)> {
        Some(match s {
            "d" => (Variant::Direct, false),
            "ar" => (Variant::ArcRes, false),
            "arb" => (Variant::ArcRes, true),
            "r" => (Variant::Res, false),
            "rb" => (Variant::Res, true),
            "ao" => (Variant::ArcOnce, false),
            "aob" => (Variant::ArcOnce, true),
            "o" => (Variant::Once, false),
            "ob" => (Variant::Once, true),
            "sv" => (Variant::Shared, false),
            _ => return None,
        })
    }
}

/// the constructors leptos_server names for a codec (`new_str` / `new_str_blocking`, `new` /
/// `new_blocking`, `new_rkyv` / …): every carrier is built through them
trait Named<T: Send + Sync + 'static>: Sized {
    fn arc_res<F, Fut>(f: F, blocking: bool) -> ArcResource<T, Self>
    where
        F: Fn(()) -> Fut + Send + Sync + 'static,
        Fut: Future<Output = T> + Send + 'static;
    fn res<F, Fut>(f: F, blocking: bool) -> Resource<T, Self>
    where
        F: Fn(()) -> Fut + Send + Sync + 'static,
        Fut: Future<Output = T> + Send + 'static;
    fn arc_once<Fut>(fut: Fut, blocking: bool) -> ArcOnceResource<T, Self>
    where
        Fut: Future<Output = T> + Send + 'static;
    fn once<Fut>(fut: Fut, blocking: bool) -> OnceResource<T, Self>
    where
        Fut: Future<Output = T> + Send + 'static;
    fn shared(init: impl FnOnce() -> T) -> SharedValue<T, Self>;
}
macro_rules! named {
    ($t:ty, $ser:ty, $new:ident, $newb:ident) => {
        impl Named<$t> for $ser {
            fn arc_res<F, Fut>(f: F, blocking: bool) -> ArcResource<$t, Self>
            where
                F: Fn(()) -> Fut + Send + Sync + 'static,
                Fut: Future<Output = $t> + Send + 'static,
            {
                if blocking {
                    ArcResource::$newb(|| (), f)
                } else {
                    ArcResource::$new(|| (), f)
                }
            }
            fn res<F, Fut>(f: F, blocking: bool) -> Resource<$t, Self>
            where
                F: Fn(()) -> Fut + Send + Sync + 'static,
                Fut: Future<Output = $t> + Send + 'static,
            {
                if blocking {
                    Resource::$newb(|| (), f)
                } else {
                    Resource::$new(|| (), f)
                }
            }
            fn arc_once<Fut>(fut: Fut, blocking: bool) -> ArcOnceResource<$t, Self>
            where
                Fut: Future<Output = $t> + Send + 'static,
            {
                if blocking {
                    ArcOnceResource::$newb(fut)
                } else {
                    ArcOnceResource::$new(fut)
                }
            }
            fn once<Fut>(fut: Fut, blocking: bool) -> OnceResource<$t, Self>
            where
                Fut: Future<Output = $t> + Send + 'static,
            {
                if blocking {
                    OnceResource::$newb(fut)
                } else {
                    OnceResource::$new(fut)
                }
            }
            fn shared(init: impl FnOnce() -> $t) -> SharedValue<$t, Self> {
                SharedValue::$new(init)
            }
        }
    };
}
named!(String, FromToStringCodec, new_str, new_str_blocking);
named!(String, JsonSerdeCodec, new, new_blocking);
named!(serde_json::Value, JsonSerdeCodec, new, new_blocking);
named!(String, SerdeLite<JsonSerdeCodec>, new_serde_lite, new_serde_lite_blocking);
named!(String, MiniserdeCodec, new_miniserde, new_miniserde_blocking);
named!(String, RkyvCodec, new_rkyv, new_rkyv_blocking);
named!(i64, RkyvCodec, new_rkyv, new_rkyv_blocking);
/// a user-defined codec has no named constructor: `new_with_options` / `new_with_encoding`
impl Named<Vec<u8>> for RawBytes {
    fn arc_res<F, Fut>(f: F, blocking: bool) -> ArcResource<Vec<u8>, Self>
    where
        F: Fn(()) -> Fut + Send + Sync + 'static,
        Fut: Future<Output = Vec<u8>> + Send + 'static,
    {
        ArcResource::new_with_options(|| (), f, blocking)
    }
    fn res<F, Fut>(f: F, blocking: bool) -> Resource<Vec<u8>, Self>
    where
        F: Fn(()) -> Fut + Send + Sync + 'static,
        Fut: Future<Output = Vec<u8>> + Send + 'static,
    {
        Resource::new_with_options(|| (), f, blocking)
    }
    fn arc_once<Fut>(fut: Fut, blocking: bool) -> ArcOnceResource<Vec<u8>, Self>
    where
        Fut: Future<Output = Vec<u8>> + Send + 'static,
    {
        ArcOnceResource::new_with_options(fut, blocking)
    }
    fn once<Fut>(fut: Fut, blocking: bool) -> OnceResource<Vec<u8>, Self>
    where
        Fut: Future<Output = Vec<u8>> + Send + 'static,
    {
        OnceResource::new_with_options(fut, blocking)
    }
    fn shared(init: impl FnOnce() -> Vec<u8>) -> SharedValue<Vec<u8>, Self> {
        SharedValue::new_with_encoding(init)
    }
}

trait TV: Clone + PartialEq + Send + Sync + 'static {
    fn parse(raw: &[u8]) -> Option<Self>;
}
impl TV for String {
    fn parse(raw: &[u8]) -> Option<Self> {
        String::from_utf8(raw.to_vec()).ok()
    }
}
impl TV for Vec<u8> {
    fn parse(raw: &[u8]) -> Option<Self> {
        Some(raw.to_vec())
    }
}
impl TV for serde_json::Value {
    fn parse(raw: &[u8]) -> Option<Self> {
        serde_json::from_slice(raw).ok()
    }
}
impl TV for i64 {
    fn parse(raw: &[u8]) -> Option<Self> {
        std::str::from_utf8(raw).ok()?.parse().ok()
    }
}

macro_rules! with_kind {
    ($kind:expr, $f:ident ( $($args:expr),* )) => {
        match $kind {
            Kind::Str => $f::<String, FromToStringCodec>($($args),*),
            Kind::JStr => $f::<String, JsonSerdeCodec>($($args),*),
            Kind::Json => $f::<serde_json::Value, JsonSerdeCodec>($($args),*),
            Kind::SLite => $f::<String, SerdeLite<JsonSerdeCodec>>($($args),*),
            Kind::Mini => $f::<String, MiniserdeCodec>($($args),*),
            Kind::Bytes => $f::<Vec<u8>, RawBytes>($($args),*),
            Kind::RkyvS => $f::<String, RkyvCodec>($($args),*),
            Kind::RkyvI => $f::<i64, RkyvCodec>($($args),*),
        }
    };
}

/// server side: `Ser::encode(value).into_encoded_string()`
fn enc_of<T, Ser>(raw: &[u8]) -> Option<String>
where
    T: TV,
    Ser: Encoder<T>,
    <Ser as Encoder<T>>::Encoded: IntoEncodedString,
{
    Some(Ser::encode(&T::parse(raw)?).ok()?.into_encoded_string())
}

#[derive(Clone, Copy, PartialEq, Debug)]
enum Status {
    Ok,
    Wrong,
    None,
}
impl Status {
    fn show(self) -> &'static str {
        match self {
            Status::Ok => "ok",
            Status::Wrong => "wrong",
            Status::None => "none",
        }
    }
    fn of<T: PartialEq>(got: Option<T>, expected: &T) -> Status {
        match got {
            Some(v) if &v == expected => Status::Ok,
            Some(_) => Status::Wrong,
            None => Status::None,
        }
    }
}

/// client side: `FromEncodedStr::from_encoded_str` then `Ser::decode`, compared with the server's value
fn dec_status<T, Ser>(raw: &[u8], read: &str) -> Status
where
    T: TV,
    Ser: Decoder<T>,
    <Ser as Decoder<T>>::Encoded: FromEncodedStr,
{
    let Some(expected) = T::parse(raw) else { return Status::None };
    let got = <<Ser as Decoder<T>>::Encoded as FromEncodedStr>::from_encoded_str(read)
        .ok()
        .and_then(|e| Ser::decode(e.borrow()).ok());
    Status::of(got, &expected)
}

// ------------------------------------------------------------------ observing the shared context

#[derive(Debug, Clone, PartialEq)]
enum Ev {
    NextId(usize),
    WriteAsync(usize),
}

/// Forwards everything to the real `SsrSharedContext`; records the ids handed out and the
/// `write_async` calls, so that the harness sees what a real `Resource` did.
#[derive(Debug)]
struct Spy {
    inner: Arc<SsrSharedContext>,
    log: Mutex<Vec<Ev>>,
}
impl SharedContext for Spy {
    fn is_browser(&self) -> bool {
        self.inner.is_browser()
    }
    fn next_id(&self) -> SerializedDataId {
        let id = self.inner.next_id();
        self.log.lock().unwrap().push(Ev::NextId(id.clone().into_inner()));
        id
    }
    fn write_async(&self, id: SerializedDataId, fut: PinnedFuture<String>) {
        self.log.lock().unwrap().push(Ev::WriteAsync(id.clone().into_inner()));
        self.inner.write_async(id, fut)
    }
    fn read_data(&self, id: &SerializedDataId) -> Option<String> {
        self.inner.read_data(id)
    }
    fn await_data(&self, id: &SerializedDataId) -> Option<String> {
        self.inner.await_data(id)
    }
    fn pending_data(&self) -> Option<PinnedStream<String>> {
        self.inner.pending_data()
    }
    fn during_hydration(&self) -> bool {
        self.inner.during_hydration()
    }
    fn hydration_complete(&self) {
        self.inner.hydration_complete()
    }
    fn get_is_hydrating(&self) -> bool {
        self.inner.get_is_hydrating()
    }
    fn set_is_hydrating(&self, is_hydrating: bool) {
        self.inner.set_is_hydrating(is_hydrating)
    }
    fn take_errors(&self) -> Vec<(SerializedDataId, ErrorId, Error)> {
        self.inner.take_errors()
    }
    fn errors(&self, boundary_id: &SerializedDataId) -> Vec<(ErrorId, Error)> {
        self.inner.errors(boundary_id)
    }
    fn seal_errors(&self, boundary_id: &SerializedDataId) {
        self.inner.seal_errors(boundary_id)
    }
    fn register_error(&self, error_boundary: SerializedDataId, error_id: ErrorId, error: Error) {
        self.inner.register_error(error_boundary, error_id, error)
    }
    fn defer_stream(&self, wait_for: PinnedFuture<()>) {
        self.inner.defer_stream(wait_for)
    }
    fn await_deferred(&self) -> Option<PinnedFuture<()>> {
        self.inner.await_deferred()
    }
    fn set_incomplete_chunk(&self, id: SerializedDataId) {
        self.inner.set_incomplete_chunk(id)
    }
    fn get_incomplete_chunk(&self, id: &SerializedDataId) -> bool {
        self.inner.get_incomplete_chunk(id)
    }
}

/// The browser side: ids and flags from the REAL `HydrateSharedContext` (it builds natively);
/// `read_data` = `__RESOLVED_RESOURCES[id]` as evaluated by the browser twin from the real script
/// text (or the pairs a custom context got from `consume_buffers`).
struct MockHydrate {
    real: HydrateSharedContext,
    map: HashMap<usize, String>,
}
impl Debug for MockHydrate {
    fn fmt(&self, f: &mut std::fmt::Formatter<'_>) -> std::fmt::Result {
        f.debug_struct("MockHydrate").finish()
    }
}
impl SharedContext for MockHydrate {
    fn is_browser(&self) -> bool {
        true
    }
    fn next_id(&self) -> SerializedDataId {
        self.real.next_id()
    }
    fn write_async(&self, id: SerializedDataId, fut: PinnedFuture<String>) {
        self.real.write_async(id, fut)
    }
    fn read_data(&self, id: &SerializedDataId) -> Option<String> {
        self.map.get(&id.clone().into_inner()).cloned()
    }
    fn await_data(&self, _id: &SerializedDataId) -> Option<String> {
        None
    }
    fn pending_data(&self) -> Option<PinnedStream<String>> {
        None
    }
    fn during_hydration(&self) -> bool {
        self.real.during_hydration()
    }
    fn hydration_complete(&self) {
        self.real.hydration_complete()
    }
    fn get_is_hydrating(&self) -> bool {
        self.real.get_is_hydrating()
    }
    fn set_is_hydrating(&self, is_hydrating: bool) {
        self.real.set_is_hydrating(is_hydrating)
    }
    fn take_errors(&self) -> Vec<(SerializedDataId, ErrorId, Error)> {
        vec![]
    }
    fn errors(&self, _boundary_id: &SerializedDataId) -> Vec<(ErrorId, Error)> {
        vec![]
    }
    fn seal_errors(&self, _boundary_id: &SerializedDataId) {}
    fn register_error(&self, _b: SerializedDataId, _e: ErrorId, _error: Error) {}
    fn defer_stream(&self, _wait_for: PinnedFuture<()>) {}
    fn await_deferred(&self) -> Option<PinnedFuture<()>> {
        None
    }
    fn set_incomplete_chunk(&self, _id: SerializedDataId) {}
    fn get_incomplete_chunk(&self, _id: &SerializedDataId) -> bool {
        false
    }
}

/// what a client-side shared context was asked
#[derive(Debug, Clone, PartialEq)]
enum CEv {
    NextId(usize),
    Read(usize),
}

/// Forwards everything to a client-side shared context (`MockHydrate`, or the real
/// `CsrSharedContext`) and records the ids drawn and the ids looked up.
#[derive(Debug)]
struct ClientSpy {
    inner: Arc<dyn SharedContext + Send + Sync>,
    log: Mutex<Vec<CEv>>,
}
impl SharedContext for ClientSpy {
    fn is_browser(&self) -> bool {
        self.inner.is_browser()
    }
    fn next_id(&self) -> SerializedDataId {
        let id = self.inner.next_id();
        self.log.lock().unwrap().push(CEv::NextId(id.clone().into_inner()));
        id
    }
    fn write_async(&self, id: SerializedDataId, fut: PinnedFuture<String>) {
        self.inner.write_async(id, fut)
    }
    fn read_data(&self, id: &SerializedDataId) -> Option<String> {
        self.log.lock().unwrap().push(CEv::Read(id.clone().into_inner()));
        self.inner.read_data(id)
    }
    fn await_data(&self, _id: &SerializedDataId) -> Option<String> {
        None
    }
    fn pending_data(&self) -> Option<PinnedStream<String>> {
        self.inner.pending_data()
    }
    fn during_hydration(&self) -> bool {
        self.inner.during_hydration()
    }
    fn hydration_complete(&self) {
        self.inner.hydration_complete()
    }
    fn get_is_hydrating(&self) -> bool {
        self.inner.get_is_hydrating()
    }
    fn set_is_hydrating(&self, is_hydrating: bool) {
        self.inner.set_is_hydrating(is_hydrating)
    }
    fn take_errors(&self) -> Vec<(SerializedDataId, ErrorId, Error)> {
        self.inner.take_errors()
    }
    fn errors(&self, boundary_id: &SerializedDataId) -> Vec<(ErrorId, Error)> {
        self.inner.errors(boundary_id)
    }
    fn seal_errors(&self, boundary_id: &SerializedDataId) {
        self.inner.seal_errors(boundary_id)
    }
    fn register_error(&self, b: SerializedDataId, e: ErrorId, error: Error) {
        self.inner.register_error(b, e, error)
    }
    fn defer_stream(&self, wait_for: PinnedFuture<()>) {
        self.inner.defer_stream(wait_for)
    }
    fn await_deferred(&self) -> Option<PinnedFuture<()>> {
        self.inner.await_deferred()
    }
    fn set_incomplete_chunk(&self, id: SerializedDataId) {
        self.inner.set_incomplete_chunk(id)
    }
    fn get_incomplete_chunk(&self, id: &SerializedDataId) -> bool {
        self.inner.get_incomplete_chunk(id)
    }
}

/// the hydrated page, kept for carriers created later on it
struct ClientSide {
    spy: Arc<ClientSpy>,
    ctx: Arc<dyn SharedContext + Send + Sync>,
    owner: Owner,
    keep: Vec<Box<dyn Any>>,
    fetches: Arc<AtomicUsize>,
    /// ids under which the page's data is readable
    present: Vec<usize>,
    /// F-C12-4: the page has a nesting SharedValue whose outer data arrived (initialiser skipped)
    shifted: bool,
}

// ------------------------------------------------------------------ real resources on both sides

type Completer = Box<dyn FnOnce()>;

thread_local! {
    /// set by the `write` / `hydrate` ops for a nested carrier (`svn` `arn` `rn`): the value of the
    /// inner `SharedValue` that the carrier's initialiser / fetcher creates synchronously
    static NEST: std::cell::RefCell<Option<String>> = const { std::cell::RefCell::new(None) };
}
fn nest_value() -> Option<String> {
    NEST.with(|n| n.borrow().clone())
}
fn inner_value_of(raw: &[u8]) -> String {
    format!("inner-of-{}", hex(raw))
}
/// what the nested initialiser / fetcher does first, on the server …
fn make_inner_server(v: String) {
    let _ = <FromToStringCodec as Named<String>>::shared(move || v);
}
/// … and on the client
fn make_inner_client(v: String, fetches: &Arc<AtomicUsize>) {
    let fetches = Arc::clone(fetches);
    let _ = <FromToStringCodec as Named<String>>::shared(move || {
        fetches.fetch_add(1, Ordering::SeqCst);
        v
    });
}

/// Creates the value's carrier on the server under `owner` (shared context = the spy around the
/// real `SsrSharedContext`). Returns what must be kept alive and how to complete the load.
fn server_make<T, Ser>(
    owner: &Owner,
    ctx: &Arc<Spy>,
    variant: Variant,
    blocking: bool,
    raw: &[u8],
) -> Option<(Box<dyn Any>, Option<Completer>)>
where
    T: TV,
    Ser: Encoder<T> + Decoder<T> + Named<T> + Send + 'static,
    <Ser as Encoder<T>>::Error: Debug,
    <Ser as Decoder<T>>::Error: Debug,
    <<Ser as Decoder<T>>::Encoded as FromEncodedStr>::DecodingError: Debug,
    <Ser as Encoder<T>>::Encoded: IntoEncodedString,
    <Ser as Decoder<T>>::Encoded: FromEncodedStr,
{
    let value = T::parse(raw)?;
    let (tx, rx) = oneshot::channel::<T>();
    let completer: Completer = {
        let value = value.clone();
        Box::new(move || {
            let _ = tx.send(value);
        })
    };
    // a load that finishes when the harness says so
    let load = async move {
        match rx.await {
            Ok(v) => v,
            Err(_) => futures::future::pending::<T>().await,
        }
    };
    Some(match variant {
        Variant::Direct => {
            // leptos_server/src/resource.rs `new_with_options`, by hand
            let hyd = ctx.get_is_hydrating();
            let id = ctx.next_id();
            if hyd {
                ctx.write_async(
                    id,
                    Box::pin(async move { Ser::encode(&load.await).unwrap().into_encoded_string() }),
                );
                (Box::new(()), Some(completer))
            } else {
                (Box::new(()), None)
            }
        }
        Variant::ArcRes | Variant::Res => {
            let slot = Arc::new(Mutex::new(Some(load)));
            let nest = nest_value();
            let fetcher = move |_: ()| {
                // a fetcher that synchronously creates another carrier before it returns its future
                if let Some(v) = nest.clone() {
                    make_inner_server(v);
                }
                let load = slot.lock().unwrap().take();
                async move {
                    match load {
                        Some(load) => load.await,
                        None => futures::future::pending::<T>().await,
                    }
                }
            };
            let keep: Box<dyn Any> = owner.with(|| {
                if variant == Variant::ArcRes {
                    Box::new(<Ser as Named<T>>::arc_res(fetcher, blocking)) as Box<dyn Any>
                } else {
                    Box::new(<Ser as Named<T>>::res(fetcher, blocking)) as Box<dyn Any>
                }
            });
            (keep, Some(completer))
        }
        Variant::ArcOnce | Variant::Once => {
            let keep: Box<dyn Any> = owner.with(|| {
                if variant == Variant::ArcOnce {
                    Box::new(<Ser as Named<T>>::arc_once(load, blocking)) as Box<dyn Any>
                } else {
                    Box::new(<Ser as Named<T>>::once(load, blocking)) as Box<dyn Any>
                }
            });
            (keep, Some(completer))
        }
        Variant::Shared => {
            let nest = nest_value();
            let keep: Box<dyn Any> = owner.with(|| {
                Box::new(
                    <Ser as Named<T>>::shared(move || {
                        // an initialiser that synchronously creates another carrier
                        if let Some(v) = nest {
                            make_inner_server(v);
                        }
                        value
                    })
                    .into_inner(),
                ) as Box<dyn Any>
            });
            (keep, None)
        }
    })
}

/// Creates the same carrier on the client under `owner` (shared context = `MockHydrate`) and
/// reports what it holds right after creation. `fetches` counts client-side loads / initialisers.
fn client_make<T, Ser>(
    owner: &Owner,
    ctx: &Arc<dyn SharedContext + Send + Sync>,
    variant: Variant,
    blocking: bool,
    raw: &[u8],
    fetches: &Arc<AtomicUsize>,
    keep: &mut Vec<Box<dyn Any>>,
) -> Status
where
    T: TV,
    Ser: Encoder<T> + Decoder<T> + Named<T> + Send + 'static,
    <Ser as Encoder<T>>::Error: Debug,
    <Ser as Decoder<T>>::Error: Debug,
    <<Ser as Decoder<T>>::Encoded as FromEncodedStr>::DecodingError: Debug,
    <Ser as Encoder<T>>::Encoded: IntoEncodedString,
    <Ser as Decoder<T>>::Encoded: FromEncodedStr,
{
    let Some(expected) = T::parse(raw) else { return Status::None };
    // a client-side load: counted when it is polled, and it never finishes, so that whatever the
    // resource holds can only have come from the server's data
    let refetch = {
        let fetches = Arc::clone(fetches);
        move || {
            fetches.fetch_add(1, Ordering::SeqCst);
        }
    };
    let nest = nest_value();
    let reinit = {
        let (fetches, expected, nest) = (Arc::clone(fetches), expected.clone(), nest.clone());
        move || {
            if let Some(v) = nest {
                make_inner_client(v, &fetches);
            }
            fetches.fetch_add(1, Ordering::SeqCst);
            expected
        }
    };
    let nested_fetch = {
        let fetches = Arc::clone(fetches);
        move || {
            if let Some(v) = nest.clone() {
                make_inner_client(v, &fetches);
            }
        }
    };
    owner.with(|| match variant {
        Variant::Direct => {
            let id = ctx.next_id();
            match ctx.read_data(&id) {
                Some(s) => dec_status::<T, Ser>(raw, &s),
                None => Status::None,
            }
        }
        Variant::ArcRes => {
            let r = <Ser as Named<T>>::arc_res(
                {
                    let nested_fetch = nested_fetch.clone();
                    move |_| {
                    nested_fetch();
                    // counted when the load is actually polled, not when the future is built
                    let refetch = refetch.clone();
                    async move {
                        refetch();
                        futures::future::pending::<T>().await
                    }
                    }
                },
                blocking,
            );
            let got = r.try_read_untracked().and_then(|g| (*g).clone());
            keep.push(Box::new(r));
            Status::of(got, &expected)
        }
        Variant::Res => {
            let r = <Ser as Named<T>>::res(
                {
                    let nested_fetch = nested_fetch.clone();
                    move |_| {
                    nested_fetch();
                    // counted when the load is actually polled, not when the future is built
                    let refetch = refetch.clone();
                    async move {
                        refetch();
                        futures::future::pending::<T>().await
                    }
                    }
                },
                blocking,
            );
            let got = r.try_read_untracked().and_then(|g| (*g).clone());
            Status::of(got, &expected)
        }
        Variant::ArcOnce => {
            let r = <Ser as Named<T>>::arc_once(
                async move {
                    refetch();
                    futures::future::pending::<T>().await
                },
                blocking,
            );
            let got = r.try_read_untracked().and_then(|g| (*g).clone());
            keep.push(Box::new(r));
            Status::of(got, &expected)
        }
        Variant::Once => {
            let r = <Ser as Named<T>>::once(
                async move {
                    refetch();
                    futures::future::pending::<T>().await
                },
                blocking,
            );
            let got = r.try_read_untracked().and_then(|g| (*g).clone());
            Status::of(got, &expected)
        }
        Variant::Shared => {
            let before = fetches.load(Ordering::SeqCst);
            let v = <Ser as Named<T>>::shared(reinit).into_inner();
            if fetches.load(Ordering::SeqCst) != before {
                Status::None // the initialiser ran: nothing usable arrived
            } else {
                Status::of(Some(v), &expected)
            }
        }
    })
}

// ------------------------------------------------------------------ the case state

struct W {
    id: usize,
    kind: Kind,
    variant: Variant,
    blocking: bool,
    /// its initialiser / fetcher synchronously creates an inner `SharedValue` (write k + 1)
    nested: bool,
    raw: Vec<u8>,
    /// `Ser::encode(value).into_encoded_string()` computed by the real codec
    enc: String,
    reg: bool,
    late: bool,
    consumed: bool,
    completed: bool,
    emitted: usize,
}
struct E {
    b: usize,
    e: usize,
    msg: String,
    late: bool,
    emitted: bool,
}

/// what ran on the server, in order, and whether the flag was on (the client replays the ones
/// that ran with the flag on)
enum Created {
    Write(usize, bool),
    BareId(bool),
}

type ConsumeFut = Pin<Box<dyn Future<Output = Vec<(SerializedDataId, String)>>>>;

struct Case {
    islands: bool,
    sc: Arc<SsrSharedContext>,
    spy: Arc<Spy>,
    owner: Owner,
    stream: Option<PinnedStream<String>>,
    consume: Option<ConsumeFut>,
    consume_started: bool,
    consumed_pairs: Option<Vec<(usize, String)>>,
    client: Option<ClientSide>,
    completers: Vec<Option<Completer>>,
    keep: Vec<Box<dyn Any>>,
    created: Vec<Created>,
    writes: Vec<W>,
    errs: Vec<E>,
    ever_sealed: Vec<usize>,
    incs: Vec<usize>,
    js: js::State,
    n_errs_seen: usize,
    inc_seen: Vec<u128>,
    final_seen: bool,
}

impl Case {
    fn new(islands: bool) -> Self {
        sched::install();
        sched::reset();
        let sc = Arc::new(if islands { SsrSharedContext::new_islands() } else { SsrSharedContext::new() });
        let spy = Arc::new(Spy { inner: Arc::clone(&sc), log: Mutex::new(vec![]) });
        let owner = Owner::new_root(Some(Arc::clone(&spy) as Arc<dyn SharedContext + Send + Sync>));
        Case {
            islands,
            sc,
            spy,
            owner,
            stream: None,
            consume: None,
            consume_started: false,
            consumed_pairs: None,
            client: None,
            completers: vec![],
            keep: vec![],
            created: vec![],
            writes: vec![],
            errs: vec![],
            ever_sealed: vec![],
            incs: vec![],
            js: js::State::default(),
            n_errs_seen: 0,
            inc_seen: vec![],
            final_seen: false,
        }
    }
    /// drop everything of the previous case in an order that cannot panic
    fn clear(&mut self) {
        self.stream = None;
        self.consume = None;
        self.client = None;
        self.completers.clear();
        self.keep.clear();
        sched::reset();
    }
}

fn cps_to_string(read: &[u32]) -> Option<String> {
    read.iter().map(|&c| char::from_u32(c)).collect()
}

fn same_value(kind: Kind, raw: &[u8], read: &[u32]) -> bool {
    let Some(read_s) = cps_to_string(read) else { return false };
    with_kind!(kind, dec_status(raw, &read_s)) == Status::Ok
}

fn data_class(payload: &str) -> &'static str {
    if nul_oct(payload) {
        "nul-octal"
    } else if payload.contains('<') {
        "lt-rewritten"
    } else {
        "mismatch"
    }
}

fn tok_show(chunk: &str) -> String {
    let mut t = cps(chunk);
    let n = t.len();
    t.extend(cps("</script>"));
    match html::script_close(&t) {
        Some(p) if p == n + 9 => "ok".into(),
        Some(p) => p.to_string(),
        None => "none".into(),
    }
}

fn err_tuple(v: &js::V) -> Option<(u128, u128, Vec<u32>)> {
    let js::V::Arr(items) = v else { return None };
    match items.as_slice() {
        [js::V::Num(b), js::V::Num(e), js::V::Str(m)] => Some((*b, *e, m.clone())),
        _ => None,
    }
}

fn show_list(v: Vec<String>) -> String {
    if v.is_empty() {
        "-".into()
    } else {
        v.join(",")
    }
}

/// the oracle on one chunk of the real stream
fn judge_chunk(c: &mut Case, chunk: &str) -> String {
    let wrapped = format!("<script>{chunk}</script>");
    let danger = html::has_danger(chunk);
    let tok = tok_show(chunk);
    let inert = !danger && tok == "ok";
    let markup_class = if c.errs.iter().any(|e| e.msg.contains('<')) { "error-markup" } else { "data-markup" };
    let head = format!("chunk {} tok={} danger={}", hex(wrapped.as_bytes()), tok, danger as u8);
    let Some(js2) = js::run_script(&cps(chunk), &c.js) else {
        let v = if !inert { format!("fail {markup_class}") } else { "fail js-syntax".into() };
        return format!("{head} syntax-error ## {v}");
    };
    let new_reads: Vec<(u128, Vec<u32>)> = js2.assign_log[c.js.assign_log.len()..].to_vec();
    let all_errs = js2.globals.get("__SERIALIZED_ERRORS").cloned().unwrap_or_default();
    let new_errs: Vec<js::V> = all_errs[c.n_errs_seen.min(all_errs.len())..].to_vec();
    let inc_now: Vec<u128> = js2
        .globals
        .get("__INCOMPLETE_CHUNKS")
        .map(|v| v.iter().filter_map(|x| if let js::V::Num(n) = x { Some(*n) } else { None }).collect())
        .unwrap_or_default();
    let mut obs = format!(
        "{head} reads={} errs={}",
        show_list(new_reads.iter().map(|(i, v)| format!("{i}:{}", hex_cps(v))).collect()),
        show_list(
            new_errs
                .iter()
                .map(|v| match err_tuple(v) {
                    Some((b, e, m)) => format!("{b}:{e}:{}", hex_cps(&m)),
                    None => "?".into(),
                })
                .collect()
        )
    );
    if inc_now != c.inc_seen || !inc_now.is_empty() {
        obs.push_str(&format!(" inc={}", show_list(inc_now.iter().map(|n| n.to_string()).collect())));
    }
    if js2.globals.contains_key("__INCOMPLETE_CHUNKS") && chunk.starts_with("__INCOMPLETE_CHUNKS=") {
        c.final_seen = true;
    }
    // (i) + (iii) for data
    let mut r1: Option<&'static str> = None;
    for (id, v) in &new_reads {
        let Some(w) = c.writes.iter_mut().find(|w| w.reg && w.id as u128 == *id) else {
            r1 = r1.or(Some("unknown-id"));
            break;
        };
        if w.emitted > 0 {
            r1 = r1.or(Some("emitted-twice"));
            break;
        }
        if !w.completed {
            r1 = r1.or(Some("emitted-before-complete"));
            break;
        }
        w.emitted += 1;
        if !same_value(w.kind, &w.raw, v) {
            r1 = r1.or(Some(data_class(&w.enc)));
        }
    }
    // (i) + (iii) for errors
    let mut r2: Option<&'static str> = None;
    for v in &new_errs {
        let Some((b, e, m)) = err_tuple(v) else {
            r2 = r2.or(Some("unknown-error"));
            break;
        };
        let Some(x) = c.errs.iter_mut().find(|x| x.b as u128 == b && x.e as u128 == e && !x.emitted) else {
            r2 = r2.or(Some("unknown-error"));
            break;
        };
        x.emitted = true;
        if cps(&x.msg) != m {
            r2 = r2.or(Some(if nul_oct(&x.msg) { "nul-octal" } else { "error-mismatch" }));
        }
    }
    c.n_errs_seen = all_errs.len();
    c.inc_seen = inc_now;
    c.js = js2;
    let verdict = if !inert {
        format!("fail {markup_class}")
    } else if let Some(k) = r1 {
        format!("fail {k}")
    } else if let Some(k) = r2 {
        format!("fail {k}")
    } else {
        "ok".into()
    };
    format!("{obs} ## {verdict}")
}

fn judge_end(c: &Case) -> &'static str {
    if c.writes.iter().any(|w| w.reg && !w.late && !w.consumed && w.emitted != 1) {
        "fail lost-value"
    } else if c.errs.iter().any(|x| !x.late && !x.emitted && !c.ever_sealed.contains(&x.b)) {
        "fail lost-error"
    } else if c.inc_seen != c.incs.iter().map(|&i| i as u128).collect::<Vec<_>>() {
        "fail incomplete-mismatch"
    } else {
        "ok"
    }
}

fn poll_once(st: &mut PinnedStream<String>) -> Poll<Option<String>> {
    let w = sched::noop_waker();
    let mut cx = Context::from_waker(&w);
    st.as_mut().poll_next(&mut cx)
}

fn make_error(msg: String) -> Error {
    Error::from(Msg(msg))
}

fn lit_chunk(is_data: bool, s: &str) -> Option<String> {
    let sc = SsrSharedContext::new();
    if is_data {
        let id = sc.next_id();
        let (tx, rx) = oneshot::channel::<String>();
        sc.write_async(id, Box::pin(async move { rx.await.unwrap_or_default() }));
        tx.send(s.to_string()).ok()?;
    }
    let mut st = sc.pending_data()?;
    match poll_once(&mut st) {
        Poll::Ready(Some(_)) => {}
        _ => return None,
    }
    if !is_data {
        sc.register_error(SerializedDataId::new(0), ErrorId::from(0usize), make_error(s.to_string()));
    }
    match poll_once(&mut st) {
        Poll::Ready(Some(c)) => Some(c),
        _ => None,
    }
}

fn op(c: &mut Case, tags: &HashMap<String, String>, line: &str) -> String {
    let w: Vec<&str> = line.split_whitespace().collect();
    match w.as_slice() {
        ["case", n] => {
            c.clear();
            *c = Case::new(false);
            match tags.get(*n) {
                Some(t) if !t.is_empty() => format!("case {n} tags={t}"),
                _ => format!("case {n}"),
            }
        }
        ["ctx", k @ ("new" | "islands")] => {
            c.clear();
            *c = Case::new(*k == "islands");
            "ok".into()
        }
        ["hyd", b @ ("0" | "1")] => {
            c.spy.set_is_hydrating(*b == "1");
            "ok".into()
        }
        ["id"] => {
            let hyd = c.spy.get_is_hydrating();
            c.created.push(Created::BareId(hyd));
            format!("id {}", c.spy.next_id().into_inner())
        }
        ["write", kind, variant, rest @ ..] => {
            // `svn` `arn` `rn`: the carrier's initialiser / fetcher creates an inner SharedValue first
            let (variant, nested) = match *variant {
                "svn" => ("sv", true),
                "arn" => ("ar", true),
                "rn" => ("r", true),
                v => (v, false),
            };
            let (Some(kind), Some((variant, blocking))) = (Kind::parse(kind), Variant::parse(variant)) else {
                return "bad-op".into();
            };
            let (raw, aux) = match (rest, kind.has_aux()) {
                ([h], false) => (unhex(h), None),
                ([h, x], true) => (unhex(h), unhex(x)),
                _ => return "bad-op".into(),
            };
            let Some(raw) = raw else { return "bad-op".into() };
            if kind.has_aux() && aux.is_none() {
                return "bad-op".into();
            }
            let Some(enc) = with_kind!(kind, enc_of(&raw)) else { return "bad-op".into() };
            let hyd = c.spy.get_is_hydrating();
            let log_from = c.spy.log.lock().unwrap().len();
            let inner_value = inner_value_of(&raw);
            NEST.with(|n| *n.borrow_mut() = if nested { Some(inner_value.clone()) } else { None });
            let made = with_kind!(kind, server_make(&c.owner, &c.spy, variant, blocking, &raw));
            NEST.with(|n| *n.borrow_mut() = None);
            let Some((keep, completer)) = made else {
                return "bad-op".into();
            };
            // let the resource start its load (it then waits for `complete`)
            sched::run_until_idle(10_000);
            let evs: Vec<Ev> = c.spy.log.lock().unwrap()[log_from..].to_vec();
            let ids: Vec<usize> = evs.iter().filter_map(|e| if let Ev::NextId(i) = e { Some(*i) } else { None }).collect();
            let regs: Vec<usize> = evs.iter().filter_map(|e| if let Ev::WriteAsync(i) = e { Some(*i) } else { None }).collect();
            // a nested carrier draws two ids and (flag on) registers two values, the inner one first
            let n_expected = if nested { 2 } else { 1 };
            if ids.len() != n_expected || (regs.len() != 0 && regs.len() != n_expected) || regs.iter().any(|r| !ids.contains(r)) {
                return format!("w ? ids={ids:?} writes={regs:?} ## fail id-protocol");
            }
            let reg = !regs.is_empty();
            // which id is the outer carrier's: the one registered last (its write follows the
            // initialiser / the fetcher call); without registration the ids are not used
            let (id, inner_id) = if nested {
                if reg { (regs[1], regs[0]) } else { (ids[0], ids[1]) }
            } else {
                (ids[0], 0)
            };
            let k = c.writes.len();
            c.keep.push(keep);
            c.completers.push(if reg { completer } else { None });
            c.created.push(Created::Write(k, hyd));
            c.writes.push(W {
                id,
                kind,
                variant,
                blocking,
                nested,
                raw,
                enc: enc.clone(),
                reg,
                late: c.final_seen || c.consume_started,
                consumed: false,
                // a SharedValue's future is ready at once
                completed: reg && variant == Variant::Shared,
                emitted: 0,
            });
            let mut inner_shown = String::new();
            if nested {
                c.completers.push(None);
                c.writes.push(W {
                    id: inner_id,
                    kind: Kind::Str,
                    variant: Variant::Shared,
                    blocking: false,
                    nested: false,
                    raw: inner_value.clone().into_bytes(),
                    enc: inner_value,
                    reg,
                    late: c.final_seen || c.consume_started,
                    consumed: false,
                    completed: reg,
                    emitted: 0,
                });
                inner_shown = format!(" inner={inner_id}");
            }
            // oracle: a value is handed to `write_async` exactly when the flag is on — whatever the
            // carrier, blocking or not (else the client has to load it again)
            let verdict = if hyd && !reg {
                "fail carrier-not-serialized"
            } else if !hyd && reg {
                "fail carrier-serialized-outside-hydration"
            } else {
                "ok"
            };
            format!("w {k} {id} {} enc={}{inner_shown} ## {verdict}", reg as u8, hex(enc.as_bytes()))
        }
        ["err", b, e, h] => {
            let (Ok(b), Ok(e), Some(m)) = (b.parse::<usize>(), e.parse::<usize>(), unhex_str(h)) else {
                return "bad-op".into();
            };
            c.sc.register_error(SerializedDataId::new(b), ErrorId::from(e), make_error(m.clone()));
            c.errs.push(E { b, e, msg: m, late: c.final_seen, emitted: false });
            "ok".into()
        }
        ["seal", b] => {
            let Ok(b) = b.parse::<usize>() else { return "bad-op".into() };
            c.sc.seal_errors(&SerializedDataId::new(b));
            c.ever_sealed.push(b);
            "ok".into()
        }
        ["inc", i] => {
            let Ok(i) = i.parse::<usize>() else { return "bad-op".into() };
            c.sc.set_incomplete_chunk(SerializedDataId::new(i));
            if !c.final_seen {
                c.incs.push(i);
            }
            "ok".into()
        }
        ["start"] => {
            if c.stream.is_some() {
                return "skip".into();
            }
            c.stream = c.sc.pending_data();
            "ok".into()
        }
        ["complete", k] => {
            let Ok(k) = k.parse::<usize>() else { return "bad-op".into() };
            let Some(wr) = c.writes.get_mut(k) else { return "skip".into() };
            if !wr.reg || wr.completed {
                return "skip".into();
            }
            match c.completers[k].take() {
                Some(done) => {
                    done();
                    // the resource's loading task stores the value
                    sched::run_until_idle(10_000);
                    wr.completed = true;
                    "ok".into()
                }
                None => "skip".into(),
            }
        }
        ["consume"] => {
            // the other server exit: `consume_buffers()` (custom hydration contexts)
            if c.consume.is_some() || c.consumed_pairs.is_some() {
                return "skip".into();
            }
            let sc = Arc::clone(&c.sc);
            c.consume = Some(Box::pin(async move { sc.consume_buffers().await }));
            "ok".into()
        }
        ["cpoll"] => {
            let Some(fut) = c.consume.as_mut() else { return "skip".into() };
            let w = sched::noop_waker();
            let mut cx = Context::from_waker(&w);
            if !c.consume_started {
                // the buffers are taken at the first poll: everything written so far is in
                c.consume_started = true;
                for wr in c.writes.iter_mut().filter(|wr| wr.reg && !wr.late && wr.emitted == 0) {
                    wr.consumed = true;
                }
            }
            match fut.as_mut().poll(&mut cx) {
                Poll::Pending => "pending".into(),
                Poll::Ready(pairs) => {
                    c.consume = None;
                    let pairs: Vec<(usize, String)> = pairs.into_iter().map(|(i, s)| (i.into_inner(), s)).collect();
                    let obs = format!(
                        "done {}",
                        show_list(pairs.iter().map(|(i, s)| format!("{i}:{}", hex(s.as_bytes()))).collect())
                    );
                    // oracle: every consumed value exactly once, under its id, decoding to the server's value
                    let mut verdict: Option<&'static str> = None;
                    let mut seen: Vec<usize> = vec![];
                    for (id, data) in &pairs {
                        let Some(wr) = c.writes.iter().find(|wr| wr.consumed && wr.id == *id) else {
                            verdict = verdict.or(Some("consume-unknown-id"));
                            continue;
                        };
                        if seen.contains(id) {
                            verdict = verdict.or(Some("consume-twice"));
                        }
                        seen.push(*id);
                        if !wr.completed {
                            verdict = verdict.or(Some("consume-before-complete"));
                        }
                        if with_kind!(wr.kind, dec_status(&wr.raw, data)) != Status::Ok {
                            verdict = verdict.or(Some("consume-mismatch"));
                        }
                    }
                    if c.writes.iter().any(|wr| wr.consumed && !seen.contains(&wr.id)) {
                        verdict = verdict.or(Some("consume-lost"));
                    }
                    c.consumed_pairs = Some(pairs);
                    match verdict {
                        Some(v) => format!("{obs} ## fail {v}"),
                        None => format!("{obs} ## ok"),
                    }
                }
            }
        }
        ["hydrate"] => {
            // the client: the same creations, in the same order, for the regions that ran with the
            // flag on; `read_data` answers from what the browser twin evaluated (or from the pairs)
            let map: HashMap<usize, String> = match &c.consumed_pairs {
                Some(pairs) => pairs.iter().cloned().collect(),
                None => {
                    let mut m = HashMap::new();
                    for (id, v) in &c.js.assign_log {
                        if let (Ok(id), Some(s)) = (usize::try_from(*id), cps_to_string(v)) {
                            m.insert(id, s);
                        }
                    }
                    m
                }
            };
            let present: Vec<usize> = map.keys().copied().collect();
            let real = if c.islands { HydrateSharedContext::new_islands() } else { HydrateSharedContext::new() };
            let spy = Arc::new(ClientSpy { inner: Arc::new(MockHydrate { real, map }), log: Mutex::new(vec![]) });
            let ctx: Arc<dyn SharedContext + Send + Sync> = Arc::clone(&spy) as Arc<dyn SharedContext + Send + Sync>;
            let owner = Owner::new_root(Some(Arc::clone(&ctx)));
            let fetches = Arc::new(AtomicUsize::new(0));
            let mut keep: Vec<Box<dyn Any>> = vec![];
            let mut shown = vec![];
            let mut bad = false;
            for cr in &c.created {
                match cr {
                    Created::BareId(true) => {
                        ctx.next_id();
                    }
                    Created::Write(k, true) => {
                        let wr = &c.writes[*k];
                        NEST.with(|n| *n.borrow_mut() = if wr.nested { Some(inner_value_of(&wr.raw)) } else { None });
                        let st = with_kind!(wr.kind, client_make(&owner, &ctx, wr.variant, wr.blocking, &wr.raw, &fetches, &mut keep));
                        NEST.with(|n| *n.borrow_mut() = None);
                        shown.push(format!("{k}:{}", st.show()));
                        if present.contains(&wr.id) && st != Status::Ok {
                            bad = true;
                        }
                    }
                    _ => {}
                }
            }
            // let any (wrongly) started client-side load run
            sched::run_until_idle(10_000);
            let n = fetches.load(Ordering::SeqCst);
            // the page stays (its pending loads stay parked in the executor table until the case ends)
            let shifted = c.created.iter().any(|cr| match cr {
                Created::Write(k, true) => {
                    let w = &c.writes[*k];
                    w.nested && w.variant == Variant::Shared && w.reg && present.contains(&w.id)
                }
                _ => false,
            });
            c.client = Some(ClientSide { spy, ctx, owner, keep, fetches, present, shifted });
            format!(
                "hydrate {} fetches={n} ## {}",
                show_list(shown),
                if !bad {
                    "ok"
                } else if shifted {
                    "fail nested-sharedvalue-id-shift"
                } else {
                    "fail client-value"
                }
            )
        }
        ["client", moment @ ("post" | "csr"), kind, variant, rest @ ..] => {
            // a carrier created on the client at another moment: after `hydration_complete()` on the
            // hydrated page (whose data is still readable), or on a page that was never server-rendered
            let (Some(kind), Some((variant, blocking))) = (Kind::parse(kind), Variant::parse(variant)) else {
                return "bad-op".into();
            };
            let raw = match (rest, kind.has_aux()) {
                ([h], false) => unhex(h),
                ([h, x], true) if unhex(x).is_some() => unhex(h),
                _ => return "bad-op".into(),
            };
            let Some(raw) = raw else { return "bad-op".into() };
            if with_kind!(kind, enc_of(&raw)).is_none() {
                return "bad-op".into();
            }
            let mut csr_side;
            let side: &mut ClientSide = if *moment == "post" {
                let Some(side) = c.client.as_mut() else { return "skip".into() };
                side.ctx.hydration_complete();
                side
            } else {
                let spy = Arc::new(ClientSpy {
                    inner: Arc::new(hydration_context::CsrSharedContext),
                    log: Mutex::new(vec![]),
                });
                let ctx: Arc<dyn SharedContext + Send + Sync> = Arc::clone(&spy) as Arc<dyn SharedContext + Send + Sync>;
                let owner = Owner::new_root(Some(Arc::clone(&ctx)));
                csr_side = ClientSide { spy, ctx, owner, keep: vec![], fetches: Arc::new(AtomicUsize::new(0)), present: vec![], shifted: false };
                &mut csr_side
            };
            let log_from = side.spy.log.lock().unwrap().len();
            let before = side.fetches.load(Ordering::SeqCst);
            let st = with_kind!(kind, client_make(&side.owner, &side.ctx, variant, blocking, &raw, &side.fetches, &mut side.keep));
            sched::run_until_idle(10_000);
            let loads = side.fetches.load(Ordering::SeqCst) - before;
            let evs: Vec<CEv> = side.spy.log.lock().unwrap()[log_from..].to_vec();
            let ids: Vec<String> =
                evs.iter().filter_map(|e| if let CEv::NextId(i) = e { Some(i.to_string()) } else { None }).collect();
            // oracle: nothing that was transferred for the page is looked at, the carrier starts empty
            // and (unless it is the bare next_id/read_data pair) its own loader / initialiser runs
            let read_transferred =
                evs.iter().any(|e| matches!(e, CEv::Read(i) if side.present.contains(i)));
            let verdict = if (st != Status::None || read_transferred) && side.shifted {
                "fail nested-sharedvalue-id-shift"
            } else if st != Status::None || read_transferred {
                "fail late-carrier-reads-transferred-data"
            } else if variant != Variant::Direct && loads != 1 {
                "fail late-carrier-does-not-load"
            } else {
                "ok"
            };
            format!("client {moment} ids={} st={} fetches={loads} ## {verdict}", show_list(ids), st.show())
        }
        ["poll"] => {
            let Some(st) = c.stream.as_mut() else { return "skip".into() };
            match poll_once(st) {
                Poll::Pending => "pending".into(),
                Poll::Ready(None) => format!("end ## {}", judge_end(c)),
                Poll::Ready(Some(chunk)) => judge_chunk(c, &chunk),
            }
        }
        ["ids", k @ ("new" | "islands"), prog] => {
            if !prog.chars().all(|ch| "ctf".contains(ch)) {
                return "bad-op".into();
            }
            let islands = *k == "islands";
            let s = if islands { SsrSharedContext::new_islands() } else { SsrSharedContext::new() };
            let cl = if islands { HydrateSharedContext::new_islands() } else { HydrateSharedContext::new() };
            let cl2 = if islands { HydrateSharedContext::new_islands() } else { HydrateSharedContext::new() };
            let (mut sv, mut hyd_ids, mut cv, mut cv2) = (vec![], vec![], vec![], vec![]);
            for ch in prog.chars() {
                match ch {
                    'c' => {
                        let h = s.get_is_hydrating();
                        let id = s.next_id().into_inner();
                        sv.push(format!("{}{}", if h { "h" } else { "n" }, id));
                        if h {
                            // the client only executes what the server ran with the flag on
                            hyd_ids.push(id);
                            cv.push(cl.next_id().into_inner());
                        }
                        cv2.push(cl2.next_id().into_inner());
                    }
                    t => {
                        s.set_is_hydrating(t == 't');
                        cl.set_is_hydrating(t == 't');
                        cl2.set_is_hydrating(t == 't');
                    }
                }
            }
            let v = if hyd_ids == cv { "ok" } else { "fail ids-misaligned" };
            format!(
                "s={} c={} c2={} ## {v}",
                show_list(sv),
                show_list(cv.iter().map(|x| x.to_string()).collect()),
                show_list(cv2.iter().map(|x| x.to_string()).collect())
            )
        }
        ["lit", site @ ("d" | "e"), h] => {
            let Some(s) = unhex_str(h) else { return "bad-op".into() };
            let is_data = *site == "d";
            let Some(chunk) = lit_chunk(is_data, &s) else { return "no-chunk ## fail no-chunk".into() };
            let wrapped = format!("<script>{chunk}</script>");
            let danger = html::has_danger(&chunk);
            let tok = tok_show(&chunk);
            let inert = !danger && tok == "ok";
            let markup = if is_data { "data-markup" } else { "error-markup" };
            let head = format!("{} tok={} danger={}", hex(wrapped.as_bytes()), tok, danger as u8);
            let Some(js2) = js::run_script(&cps(&chunk), &js::State::default()) else {
                let v = if !inert { format!("fail {markup}") } else { "fail js-syntax".into() };
                return format!("{head} syntax-error ## {v}");
            };
            let got: Option<Vec<u32>> = if is_data {
                js2.assign_log.first().map(|x| x.1.clone())
            } else {
                js2.globals.get("__SERIALIZED_ERRORS").and_then(|v| v.first()).and_then(err_tuple).map(|x| x.2)
            };
            let gs = got.as_ref().map(|g| hex_cps(g)).unwrap_or_else(|| "none".into());
            let v = if !inert {
                format!("fail {markup}")
            } else if got.as_deref() == Some(cps(&s).as_slice()) {
                "ok".into()
            } else if is_data {
                format!("fail {}", data_class(&s))
            } else {
                format!("fail {}", if nul_oct(&s) { "nul-octal" } else { "error-mismatch" })
            };
            format!("{head} {gs} ## {v}")
        }
        ["jsonenc", h] => {
            // the JSON codec end to end for a string value: real JsonSerdeCodec::encode, real data
            // site, browser twin, real JsonSerdeCodec::decode
            let Some(s) = unhex_str(h) else { return "bad-op".into() };
            let enc = IntoEncodedString::into_encoded_string(<JsonSerdeCodec as Encoder<String>>::encode(&s).unwrap());
            let back: Option<String> = lit_chunk(true, &enc)
                .and_then(|chunk| js::run_script(&cps(&chunk), &js::State::default()))
                .and_then(|st| st.assign_log.first().map(|x| js::utf16_to_cps(&x.1)))
                .and_then(|v| v.iter().map(|&c| char::from_u32(c)).collect::<Option<String>>())
                .and_then(|read| {
                    <JsonSerdeCodec as Decoder<String>>::decode(<str as FromEncodedStr>::from_encoded_str(&read).ok()?).ok()
                });
            let v = if back.as_deref() == Some(s.as_str()) { "ok".to_string() } else { format!("fail {}", data_class(&enc)) };
            format!("{} {} ## {v}", hex(enc.as_bytes()), back.map(|b| hex(b.as_bytes())).unwrap_or_else(|| "none".into()))
        }
        ["js", h] => {
            let Some(src) = unhex_str(h) else { return "bad-op".into() };
            let u = cps(&src);
            if u.first() != Some(&0x22) {
                return "syntax-error".into();
            }
            match js::string_literal(&u, 0) {
                Some((v, end)) if end == u.len() => hex_cps(&js::utf16_to_cps(&v)),
                _ => "syntax-error".into(),
            }
        }
        ["tok", h] => {
            let Some(t) = unhex_str(h) else { return "bad-op".into() };
            format!("tok={} danger={}", tok_show(&t), html::has_danger(&t) as u8)
        }
        _ => "bad-op".into(),
    }
}

// ------------------------------------------------------------------ tags (first pass over the ops file)

fn payload_tags(t: &mut Vec<&'static str>, s: &str, is_err: bool, json: bool) {
    if nul_oct(s) {
        t.push("nul-octal")
    }
    if s.contains('\0') {
        t.push("nul")
    }
    if s.contains('<') {
        t.push(if is_err { "err-lt" } else if json { "json-lt" } else { "lt" })
    }
    if html::has_danger(s) {
        t.push(if is_err { "err-markup" } else { "data-markup-pattern" })
    }
    if s.contains('\u{2028}') || s.contains('\u{2029}') || s.contains('\u{feff}') {
        t.push("ls-ps-bom")
    }
    if s.contains('\\') || s.contains('"') {
        t.push("quote-backslash")
    }
    if s.chars().any(|c| c as u32 >= 0x80) {
        t.push("unicode")
    }
    if s.chars().any(|c| (c as u32) < 0x20) {
        t.push("control")
    }
    if !s.is_empty() && s.chars().all(|c| c.is_ascii_alphanumeric() || c == ' ') {
        t.push("alnum")
    }
}

fn compute_tags(ops_path: &str) -> HashMap<String, String> {
    let mut out = HashMap::new();
    let Ok(text) = std::fs::read_to_string(ops_path) else { return out };
    let mut cur: Option<(String, Vec<&'static str>)> = None;
    let mut flush = |cur: &mut Option<(String, Vec<&'static str>)>| {
        if let Some((n, mut t)) = cur.take() {
            if t.is_empty() {
                t.push("plain");
            }
            t.sort();
            t.dedup();
            out.insert(n, t.join(","));
        }
    };
    for line in text.lines() {
        let w: Vec<&str> = line.split_whitespace().collect();
        match w.as_slice() {
            ["case", n] => {
                flush(&mut cur);
                cur = Some((n.to_string(), vec![]));
            }
            _ => {
                let Some((_, t)) = cur.as_mut() else { continue };
                match w.as_slice() {
                    ["write", kind, variant, h, ..] => {
                        t.push(match *kind {
                            "str" => "str",
                            "jstr" => "jstr",
                            "json" => "json",
                            "slite" => "serde-lite",
                            "mini" => "miniserde",
                            "bytes" => "bytes",
                            "rkyvs" | "rkyvi" => "rkyv",
                            _ => "kind?",
                        });
                        t.push(match *variant {
                            "d" => "direct",
                            "ar" => "arc-resource",
                            "r" => "resource",
                            "ao" => "arc-once",
                            "o" => "once",
                            "arb" | "rb" | "aob" | "ob" => "blocking",
                            "svn" | "arn" | "rn" => "nested-creation",
                            "sv" => "shared-value",
                            _ => "variant?",
                        });
                        if *h == "-" {
                            t.push("empty-value")
                        }
                        match (*kind, unhex(h)) {
                            ("bytes", Some(b)) => {
                                if b.iter().any(|x| *x >= 0xf8) || b.len() >= 48 {
                                    t.push("b64-62-63")
                                }
                            }
                            (_, Some(b)) => {
                                if let Ok(s) = String::from_utf8(b) {
                                    payload_tags(t, &s, false, *kind == "json" || *kind == "jstr")
                                }
                            }
                            _ => {}
                        }
                    }
                    ["err", _, _, h] => {
                        t.push("error");
                        if let Some(s) = unhex_str(h) {
                            payload_tags(t, &s, true, false)
                        }
                    }
                    ["lit", site, h] => {
                        t.push(if *site == "d" { "lit-data" } else { "lit-error" });
                        if let Some(s) = unhex_str(h) {
                            payload_tags(t, &s, *site == "e", false)
                        }
                    }
                    ["ids", k, p] => {
                        t.push("ids");
                        if *k == "islands" || p.contains('f') {
                            t.push("ids-toggle")
                        }
                    }
                    ["jsonenc", h] => {
                        t.push("jsonenc");
                        if let Some(s) = unhex_str(h) {
                            payload_tags(t, &s, false, true)
                        }
                    }
                    ["js", _] => t.push("twin-js"),
                    ["tok", _] => t.push("twin-tok"),
                    ["ctx", "islands"] => t.push("islands"),
                    ["hyd", _] => t.push("hyd-toggle"),
                    ["seal", _] => t.push("seal"),
                    ["inc", _] => t.push("incomplete"),
                    ["start"] => t.push("stream"),
                    ["consume"] => t.push("consume-buffers"),
                    ["hydrate"] => t.push("hydrate"),
                    ["client", "post", ..] => t.push("client-after-hydration"),
                    ["client", "csr", ..] => t.push("client-csr"),
                    _ => {}
                }
            }
        }
    }
    flush(&mut cur);
    out
}

// ------------------------------------------------------------------ generator

/// The generator's alphabet for "arbitrary Unicode" and the model driver's instantiation of the
/// two abstract predicates on it (lean/Driver/C12.lean `printableT`/`graphemeExtendT`):
/// Some(true) = `{:?}` prints the char as `\u{…}`, Some(false) = prints it raw (or with one of the
/// fixed escapes), None = outside the alphabet.
fn alphabet_escaped(c: u32) -> Option<bool> {
    let r = |lo: u32, hi: u32| lo <= c && c <= hi;
    let in_alphabet = r(0, 0x2FF)
        || r(0x300, 0x36F)
        || r(0x391, 0x3A1)
        || r(0x3A3, 0x482)
        || r(0x2000, 0x206F)
        || r(0x4E00, 0x9FA5)
        || r(0xAC00, 0xD7A3)
        || r(0xE000, 0xF8FF)
        || r(0xFE00, 0xFE0F)
        || c == 0xFEFF
        || r(0xFF01, 0xFF5E)
        || r(0xFFFC, 0xFFFF)
        || r(0x1F600, 0x1F64F)
        || r(0xE0100, 0xE01EF)
        || r(0xF0000, 0x10FFFF);
    if !in_alphabet {
        return None;
    }
    let grapheme_extend = r(0x300, 0x36F) || r(0xFE00, 0xFE0F) || r(0xE0100, 0xE01EF);
    let printable = r(0x20, 0x7E)
        || (r(0xA1, 0x2FF) && c != 0xAD)
        || r(0x391, 0x3A1)
        || r(0x3A3, 0x482)
        || r(0x2010, 0x2027)
        || r(0x2030, 0x205E)
        || r(0x4E00, 0x9FA5)
        || r(0xAC00, 0xD7A3)
        || r(0xFF01, 0xFF5E)
        || r(0xFFFC, 0xFFFD)
        || r(0x1F600, 0x1F64F);
    Some(grapheme_extend || !printable)
}

/// the table above must agree with the running toolchain's `<str as Debug>::fmt`
fn validate_alphabet() {
    for cp in 0..0x110000u32 {
        let (Some(ch), Some(esc)) = (char::from_u32(cp), alphabet_escaped(cp)) else { continue };
        if matches!(ch, '\0' | '\t' | '\r' | '\n' | '\\' | '"') {
            continue;
        }
        let s = ch.to_string();
        let d = format!("{:?}", s);
        let real_esc = d.len() != s.len() + 2;
        assert_eq!(real_esc, esc, "alphabet table disagrees with rustc's escape_debug at U+{cp:04X}");
    }
}

const ALPHA_RANGES: &[(u32, u32)] = &[
    (0, 0x2FF),
    (0x300, 0x36F),
    (0x391, 0x3A1),
    (0x3A3, 0x482),
    (0x2000, 0x206F),
    (0x4E00, 0x9FA5),
    (0xAC00, 0xD7A3),
    (0xE000, 0xF8FF),
    (0xFE00, 0xFE0F),
    (0xFEFF, 0xFEFF),
    (0xFF01, 0xFF5E),
    (0xFFFC, 0xFFFF),
    (0x1F600, 0x1F64F),
    (0xE0100, 0xE01EF),
    (0xF0000, 0x10FFFF),
];

fn gen_unicode_char(r: &mut Rng) -> char {
    let (lo, hi) = *r.pick(ALPHA_RANGES);
    char::from_u32(lo + r.below((hi - lo + 1) as usize) as u32).unwrap()
}

const ATOMS: &[&str] = &[
    "<", ">", "/", "!", "-", "\"", "'", "\\", "\0", "0", "1", "7", "8", "9", "3", "\u{2028}", "\u{2029}",
    "\u{feff}", "</script", "</script>", "</SCRIPT >", "<!--", "<script", "<script>", "-->", "\\u003c",
    "\\u{3c}", "\\x3c", "\n", "\r", "\t", "\u{7f}", "\u{1b}", "a", "b", "s", "script", " ", "=", ";", "]",
    "[", ",", "\\\"", "\\0", "\\01", "\01", "\08", "\0<", "<\0", "\u{301}", "é", "日", "😀", "\u{ff1c}",
    "\u{a0}", "\u{ad}", "\u{200b}", "\u{e000}", "\u{ffff}", "\u{10ffff}", "{", "}", "u", "x", "&lt;", "&",
];

fn gen_string(r: &mut Rng, max: usize) -> String {
    let n = r.below(max + 1);
    let mut s = String::new();
    for _ in 0..n {
        match r.below(10) {
            0 | 1 => s.push(gen_unicode_char(r)),
            2 => s.push(char::from_u32(r.below(0x80) as u32).unwrap()),
            _ => s.push_str(*r.pick(ATOMS)),
        }
    }
    s
}

/// avoids the inputs of the repaired defects: no NUL followed by 0–7, and (if asked) no `<`
fn sanitize(s: &str, drop_lt: bool) -> String {
    let mut out = String::new();
    let mut prev_nul = false;
    for ch in s.chars() {
        if drop_lt && ch == '<' {
            prev_nul = false;
            out.push('(');
            continue;
        }
        if prev_nul && ('0'..='7').contains(&ch) {
            out.push('_');
        }
        prev_nul = ch == '\0';
        out.push(ch);
    }
    out
}

/// one `write` op: `<kind> <variant> <value> [<encoded form for kinds the model does not encode>]`
fn gen_write(r: &mut Rng, safe: bool) -> String {
    let variant = *r.pick(&["d", "d", "d", "ar", "r", "ao", "o", "sv", "arb", "rb", "aob", "ob", "arn", "rn"]);
    let text = |r: &mut Rng| {
        if r.chance(1, 8) {
            String::new() // the empty value is a value
        } else {
            let s = gen_string(r, 8);
            if safe {
                sanitize(&s, true)
            } else {
                s
            }
        }
    };
    match r.below(16) {
        0..=3 => format!("str {variant} {}", hex(text(r).as_bytes())), // Resource::new_str
        4..=5 => format!("jstr {variant} {}", hex(text(r).as_bytes())), // Resource::new (JsonSerdeCodec)
        6..=7 => {
            let v = match r.below(3) {
                0 => serde_json::json!(gen_string(r, 8)),
                1 => serde_json::json!((0..r.below(3)).map(|_| gen_string(r, 4)).collect::<Vec<String>>()),
                _ => serde_json::json!({ "k<": gen_string(r, 5), "n": r.below(1000), "o": [gen_string(r, 3), null, true] }),
            };
            format!("json {variant} {}", hex(serde_json::to_string(&v).unwrap().as_bytes()))
        }
        8 => {
            // Resource::new_serde_lite
            let s = text(r);
            let enc = <SerdeLite<JsonSerdeCodec> as Encoder<String>>::encode(&s).unwrap();
            format!("slite {variant} {} {}", hex(s.as_bytes()), hex(enc.as_bytes()))
        }
        9 => {
            // Resource::new_miniserde
            let s = text(r);
            let enc = <MiniserdeCodec as Encoder<String>>::encode(&s).unwrap();
            format!("mini {variant} {} {}", hex(s.as_bytes()), hex(enc.as_bytes()))
        }
        10..=12 => {
            // a binary codec: unpadded base64 on the wire
            let bytes: Vec<u8> = match r.below(6) {
                0 => vec![],
                1 => {
                    // every sextet 0..=63 once, starting anywhere
                    let start = r.below(64);
                    let sextets: Vec<u8> = (0..64).map(|i| ((start + i) % 64) as u8).collect();
                    sextets
                        .chunks(4)
                        .flat_map(|c| [c[0] << 2 | c[1] >> 4, c[1] << 4 | c[2] >> 2, c[2] << 6 | c[3]])
                        .collect()
                }
                2 => (0..r.below(9)).map(|_| *r.pick(&[0xfbu8, 0xff, 0xfe, 0x3e, 0x3f, 0x7e, 0x7f, 0x00])).collect(),
                3 => {
                    let mut b = gen_string(r, 4).into_bytes();
                    b.extend(b"</script>\xe2\x80\xa8\x00");
                    b
                }
                _ => (0..r.below(12)).map(|_| r.below(256) as u8).collect(),
            };
            format!("bytes {variant} {}", hex(&bytes))
        }
        13..=14 => {
            // Resource::new_rkyv
            let s = text(r);
            let arch: Vec<u8> = <RkyvCodec as Encoder<String>>::encode(&s).unwrap();
            format!("rkyvs {variant} {} {}", hex(s.as_bytes()), hex(&arch))
        }
        _ => {
            let n: i64 = match r.below(4) {
                0 => -(r.below(1000) as i64) - 1,
                1 => r.next() as i64,
                2 => 0,
                _ => r.below(100000) as i64,
            };
            let arch: Vec<u8> = <RkyvCodec as Encoder<i64>>::encode(&n).unwrap();
            format!("rkyvi {variant} {} {}", hex(n.to_string().as_bytes()), hex(&arch))
        }
    }
}

fn permutations(n: usize) -> Vec<Vec<usize>> {
    fn go(cur: &mut Vec<usize>, used: &mut Vec<bool>, n: usize, out: &mut Vec<Vec<usize>>) {
        if cur.len() == n {
            out.push(cur.clone());
            return;
        }
        for i in 0..n {
            if !used[i] {
                used[i] = true;
                cur.push(i);
                go(cur, used, n, out);
                cur.pop();
                used[i] = false;
            }
        }
    }
    let mut out = vec![];
    go(&mut vec![], &mut vec![false; n], n, &mut out);
    out
}

/// one streaming session; `order` = completion order of the registered writes
/// carriers created on the client at other moments: after `hydration_complete()` on the hydrated
/// page, and on a page that was never server-rendered. Half of them repeat a (kind, value) of the
/// page (so that data read under a stale id would decode), with any carrier.
fn late_client_ops(setup: &[String], r: &mut Rng) -> Vec<String> {
    if setup.iter().any(|l| l.starts_with("write ") && l.split_whitespace().nth(2) == Some("svn")) {
        return vec![]; // a carrier created after hydration on such a page draws the inner id: F-C12-4 (generated separately)
    }
    let writes: Vec<Vec<&str>> = setup
        .iter()
        .filter(|l| l.starts_with("write "))
        .map(|l| l.split_whitespace().collect::<Vec<_>>())
        .collect();
    let mut l = vec![];
    for _ in 0..r.below(4) {
        let moment = if r.chance(3, 4) { "post" } else { "csr" };
        let carrier = *r.pick(&["d", "ar", "r", "ao", "ao", "o", "o", "sv", "arb", "rb", "aob", "ob"]);
        if !writes.is_empty() && r.chance(1, 2) {
            let w = r.pick(&writes);
            let mut parts = vec!["client", moment, w[1], carrier];
            parts.extend(&w[3..]);
            l.push(parts.join(" "));
        } else {
            let w = gen_write(r, false);
            let mut parts: Vec<&str> = w.split_whitespace().collect();
            parts[1] = carrier;
            l.push(format!("client {moment} {}", parts.join(" ")));
        }
    }
    l
}

/// the same session through the other server exit: `consume_buffers()`
fn consume_ops(setup: &[String], order: &[usize], r: &mut Rng) -> Vec<String> {
    let mut l: Vec<String> = setup.iter().filter(|x| !x.starts_with("err") && !x.starts_with("seal")).cloned().collect();
    l.push("consume".into());
    if r.chance(2, 3) {
        l.push("cpoll".into());
    }
    let mut i = 0;
    while i < order.len() {
        let burst = 1 + if r.chance(1, 3) { r.below(3) } else { 0 };
        for _ in 0..burst {
            if i < order.len() {
                l.push(format!("complete {}", order[i]));
                i += 1;
            }
        }
        if r.chance(2, 3) {
            l.push("cpoll".into());
        }
    }
    l.push("cpoll".into());
    l.push("cpoll".into());
    l.push("hydrate".into());
    l.extend(late_client_ops(setup, r));
    l
}

fn session_ops(setup: &[String], n_writes: usize, order: &[usize], r: &mut Rng, mid: &[String]) -> Vec<String> {
    let mut l: Vec<String> = setup.to_vec();
    l.push("start".into());
    l.push("poll".into());
    let mut mid_i = 0;
    let mut i = 0;
    while i < order.len() {
        // complete one or several, then poll once or twice
        let burst = 1 + if r.chance(1, 4) { r.below(3) } else { 0 };
        for _ in 0..burst {
            if i < order.len() {
                l.push(format!("complete {}", order[i]));
                i += 1;
            }
        }
        if mid_i < mid.len() && r.chance(1, 2) {
            l.push(mid[mid_i].clone());
            mid_i += 1;
        }
        l.push("poll".into());
        if r.chance(1, 3) {
            l.push("poll".into());
        }
    }
    while mid_i < mid.len() {
        l.push(mid[mid_i].clone());
        mid_i += 1;
    }
    // drain: every registered write is complete now, so the stream must finish
    let _ = n_writes;
    if r.chance(1, 10) {
        l.push("hydrate".into()); // a client that starts before the last data chunks arrived
    }
    for _ in 0..4 {
        l.push("poll".into());
    }
    l.push("hydrate".into());
    l.extend(late_client_ops(setup, r));
    l
}

fn gen(seed: u64, n: usize, path: &str) -> std::io::Result<()> {
    use std::io::Write;
    validate_alphabet();
    let mut r = Rng::new(seed);
    let mut f = std::io::BufWriter::new(std::fs::File::create(path)?);
    let mut case_no = 0usize;
    let mut emit = |f: &mut std::io::BufWriter<std::fs::File>, lines: &[String]| -> std::io::Result<()> {
        writeln!(f, "case g{case_no}")?;
        case_no += 1;
        for l in lines {
            writeln!(f, "{l}")?;
        }
        Ok(())
    };
    // exhaustive small scope: every creation program of length ≤ 5 over {c,t,f}, both constructors
    let mut progs: Vec<String> = vec![String::new()];
    let mut frontier = vec![String::new()];
    for _ in 0..5 {
        let mut next = vec![];
        for p in &frontier {
            for ch in ['c', 't', 'f'] {
                next.push(format!("{p}{ch}"));
            }
        }
        progs.extend(next.iter().cloned());
        frontier = next;
    }
    let mut produced = 0usize;
    for p in progs.iter().filter(|p| p.contains('c')) {
        if produced + 2 > n / 8 {
            break;
        }
        emit(&mut f, &[format!("ids new {p}"), format!("ids islands {p}")])?;
        produced += 1;
    }
    while produced < n {
        let safe = r.chance(1, 5); // avoid '<' and NUL+octal (the inputs of the repaired F-C12-1/2/3) in 1 case of 5
        match r.below(10) {
            0 if r.chance(1, 2) => {
                // browser twins only: random literal sources / script texts
                const ESC: &[&str] = &[
                    "\\0", "\\1", "\\7", "\\8", "\\9", "\\00", "\\012", "\\377", "\\400", "\\x41", "\\x4", "\\u0041", "\\u004",
                    "\\u{41}", "\\u{000041}", "\\u{10ffff}", "\\u{110000}", "\\u{}", "\\ud83d\\ude00", "\\ud83d", "\\n", "\\v", "\\a",
                    "\\\"", "\\\\", "\\\n", "\\\r\n", "\\\u{2028}", "\u{2028}", "\n", "0", "7", "8", "a", "{", "}", "<", "\"", "😀", "\0",
                ];
                const TXT: &[&str] = &[
                    "<", "!", "-", "/", "script", "SCRIPT", "scrip", ">", " ", "x", "</script", "<!--", "-->", "<script", "\n", "\t",
                    "</", "<!", "--", "<scriptx", "</script ", "</script/", "\"", "<!-->",
                ];
                let mut l = vec![];
                for _ in 0..r.range(1, 4) {
                    if r.chance(1, 2) {
                        let body: String = (0..r.below(6)).map(|_| *r.pick(ESC)).collect();
                        l.push(format!("js {}", hex(format!("\"{body}\"").as_bytes())));
                    } else {
                        let t: String = (0..r.below(9)).map(|_| *r.pick(TXT)).collect();
                        l.push(format!("tok {}", hex(t.as_bytes())));
                    }
                }
                emit(&mut f, &l)?;
                produced += 1;
            }
            0 => {
                let len = r.range(1, 14);
                let p: String = (0..len).map(|_| *r.pick(&['c', 'c', 'c', 't', 'f'])).collect();
                emit(&mut f, &[format!("ids {} {p}", if r.chance(1, 2) { "new" } else { "islands" })])?;
                produced += 1;
            }
            1..=4 => {
                let k = r.range(1, 4);
                let mut l = vec![];
                for _ in 0..k {
                    let s = gen_string(&mut r, 8);
                    if r.chance(1, 5) {
                        l.push(format!("jsonenc {}", hex(s.as_bytes())));
                    } else if r.chance(3, 5) {
                        let s = if safe { sanitize(&s, true) } else { s };
                        l.push(format!("lit d {}", hex(s.as_bytes())));
                    } else {
                        let s = if safe { sanitize(&s, true) } else { s };
                        l.push(format!("lit e {}", hex(s.as_bytes())));
                    }
                }
                emit(&mut f, &l)?;
                produced += 1;
            }
            5 if r.chance(1, 6) => {
                // known finding F-C12-4 (class nested-sharedvalue-id-shift): a page on which a nesting
                // SharedValue is followed by more carriers (all with the string codec, see above)
                let mut setup = vec!["ctx new".to_string()];
                let n = r.range(2, 4);
                let pos = r.below(n - 1);
                let mut pending = vec![];
                for k in 0..n {
                    let carrier = if k == pos { "svn" } else { *r.pick(&["d", "ar", "r", "ao", "o", "sv", "arb", "ob"]) };
                    if carrier != "sv" && carrier != "svn" {
                        // write indices: the inner value of the `svn` takes one
                        pending.push(if k > pos { k + 1 } else { k });
                    }
                    setup.push(format!("write str {carrier} {}", hex(gen_string(&mut r, 5).as_bytes())));
                }
                for i in (1..pending.len()).rev() {
                    pending.swap(i, r.below(i + 1));
                }
                let mut l = if r.chance(1, 4) {
                    consume_ops(&setup, &pending, &mut r)
                } else {
                    session_ops(&setup, n, &pending, &mut r, &[])
                };
                if r.chance(1, 2) {
                    l.push(format!("client post str {} {}", r.pick(&["ao", "ar", "sv", "d"]), hex(gen_string(&mut r, 4).as_bytes())));
                }
                emit(&mut f, &l)?;
                produced += 1;
            }
            _ => {
                // a streaming session
                let islands = r.chance(1, 5);
                let mut setup = vec![format!("ctx {}", if islands { "islands" } else { "new" })];
                if islands {
                    setup.push("hyd 1".into());
                }
                let nv = r.range(1, 5);
                let mut registered = vec![];
                let mut next_err_id = 100;
                // the error channel: a few boundaries, a small pool of texts (so that different errors
                // with the SAME text in one boundary are common), one to three errors at a time
                let err_pool: Vec<String> = (0..3)
                    .map(|_| {
                        let m = gen_string(&mut r, 5);
                        if safe {
                            sanitize(&m, true)
                        } else {
                            m
                        }
                    })
                    .collect();
                let n_boundaries = r.range(1, 3);
                let mut err_burst = |r: &mut Rng, next_err_id: &mut usize| -> String {
                    let mut lines = vec![];
                    for _ in 0..r.range(1, 3) {
                        let m = if r.chance(3, 4) { r.pick(&err_pool).clone() } else { gen_string(r, 6) };
                        let m = if safe { sanitize(&m, true) } else { m };
                        lines.push(format!("err {} {} {}", r.below(n_boundaries), *next_err_id, hex(m.as_bytes())));
                        *next_err_id += 1;
                    }
                    lines.join("\n")
                };
                let mut hyd = true;
                for k in 0..nv {
                    if r.chance(1, 8) {
                        hyd = !hyd;
                        setup.push(format!("hyd {}", hyd as u8));
                    }
                    if r.chance(1, 5) {
                        setup.push("id".into()); // an error boundary taking an id in between
                    }
                    let mut w = gen_write(&mut r, safe);
                    if k + 1 == nv && hyd && r.chance(1, 5) {
                        // a SharedValue whose initialiser creates another one, as the page's last carrier.
                        // (Followed by more carriers it is the known finding F-C12-4: a client that finds
                        // the outer value skips the initialiser, never draws the inner id, and every later
                        // id is one too small — generated separately below, with string-codec carriers only,
                        // because what a foreign value decodes to under JSON / rkyv is not modelled.)
                        let mut parts: Vec<&str> = w.split_whitespace().collect();
                        parts[1] = "svn";
                        w = parts.join(" ");
                    }
                    let shared = matches!(w.split_whitespace().nth(1), Some("sv") | Some("svn"));
                    setup.push(format!("write {w}"));
                    if hyd && !shared {
                        registered.push(k); // a SharedValue needs no `complete`
                    }
                    if r.chance(1, 5) {
                        // registered before `pending_data()`
                        for l in err_burst(&mut r, &mut next_err_id).split('\n') {
                            setup.push(l.to_string());
                        }
                    }
                }
                if r.chance(1, 6) {
                    setup.push(format!("seal {}", r.below(4)));
                }
                for _ in 0..r.below(3) {
                    setup.push(format!("inc {}", r.below(20)));
                }
                let mut mid = vec![];
                for _ in 0..r.below(3) {
                    match r.below(4) {
                        0 => mid.push(format!("seal {}", r.below(4))),
                        1 => mid.push(format!("inc {}", r.below(20))),
                        // between chunks / after the last value
                        _ => mid.push(err_burst(&mut r, &mut next_err_id)),
                    }
                }
                // which server exit: the `pending_data()` stream or `consume_buffers()`
                let via_consume = r.chance(1, 4);
                if registered.len() <= 4 && r.chance(1, 4) {
                    // all completion orders
                    for perm in permutations(registered.len()) {
                        let order: Vec<usize> = perm.iter().map(|&i| registered[i]).collect();
                        let l = if via_consume {
                            consume_ops(&setup, &order, &mut r)
                        } else {
                            session_ops(&setup, nv, &order, &mut r, &mid)
                        };
                        emit(&mut f, &l)?;
                        produced += 1;
                    }
                } else {
                    let mut order = registered.clone();
                    for i in (1..order.len()).rev() {
                        order.swap(i, r.below(i + 1));
                    }
                    let l = if via_consume {
                        consume_ops(&setup, &order, &mut r)
                    } else {
                        session_ops(&setup, nv, &order, &mut r, &mid)
                    };
                    emit(&mut f, &l)?;
                    produced += 1;
                }
            }
        }
    }
    f.flush()
}

fn main() {
    match parse_cli() {
        Cmd::Gen { seed, n, ops, .. } => gen(seed, n, &ops).unwrap(),
        Cmd::Run { ops, out } => {
            quiet_panics();
            let tags = compute_tags(&ops);
            let mut c = Case::new(false);
            run_ops(&ops, &out, |line| {
                match std::panic::catch_unwind(std::panic::AssertUnwindSafe(|| op(&mut c, &tags, line))) {
                    Ok(s) => s,
                    Err(_) => "panic ## fail panic".into(),
                }
            })
            .unwrap();
            // tasks and owners go before the thread-locals they use
            c.clear();
            drop(c);
            sched::reset();
        }
    }
}

// keep the trait imports used even when a cfg removes a call site
#[allow(dead_code)]
fn _assert_stream_is_stream(s: &mut PinnedStream<String>) -> &mut dyn Stream<Item = String> {
    s
}
