//! hx-c17's copy of `hx_common::sched` with one addition: an EAGER mode in which `spawn` polls the
//! new task once inline, before it returns (what executors that run a task on the spawning thread
//! up to its first suspension do, and what a parallel worker may do before `dispatch()` returns).
//!
//! A controlled single-threaded executor: spawned tasks go into a table, the
//! harness decides which woken task is polled next (DESIGN §3 "Schedules").
//!
//! The ready list is the list of live, woken tasks in spawn order; a schedule is
//! a list of indices into that list — the same list the Lean `step` consumes.
use any_spawner::{CustomExecutor, Executor, PinnedFuture, PinnedLocalFuture};
use std::cell::RefCell;
use std::future::Future;
use std::pin::Pin;
use std::sync::atomic::{AtomicBool, Ordering};
use std::sync::Arc;
use std::task::{Context, Poll, Wake, Waker};

struct Flag(AtomicBool, usize);
impl Flag {
    fn set(&self) {
        // record wake-ups of tasks that were not already woken, in order (wake order is observable)
        if !self.0.swap(true, Ordering::SeqCst) {
            WAKES.with(|w| w.borrow_mut().push(self.1));
        }
    }
}
impl Wake for Flag {
    fn wake(self: Arc<Self>) {
        self.set()
    }
    fn wake_by_ref(self: &Arc<Self>) {
        self.set()
    }
}

struct Task {
    fut: Option<Pin<Box<dyn Future<Output = ()>>>>,
    flag: Arc<Flag>,
    done: bool,
}

#[derive(Default)]
struct Table {
    tasks: Vec<Task>,
}

thread_local! {
    static TABLE: RefCell<Table> = RefCell::new(Table::default());
    static WAKES: RefCell<Vec<usize>> = RefCell::new(Vec::new());
    static EAGER: std::cell::Cell<bool> = const { std::cell::Cell::new(false) };
}

/// eager mode on/off (off after `reset`): `spawn` polls the new task once inline
pub fn set_eager(b: bool) {
    EAGER.with(|e| e.set(b))
}

/// task ids woken (false -> true transitions of their flag) since the last call, in order
pub fn take_wakes() -> Vec<usize> {
    WAKES.with(|w| std::mem::take(&mut *w.borrow_mut()))
}

struct Ctl;
impl CustomExecutor for Ctl {
    fn spawn(&self, fut: PinnedFuture<()>) {
        add(fut)
    }
    fn spawn_local(&self, fut: PinnedLocalFuture<()>) {
        add(fut)
    }
    fn poll_local(&self) {}
}

fn add(fut: Pin<Box<dyn Future<Output = ()>>>) {
    let id = TABLE.with(|t| {
        let mut t = t.borrow_mut();
        let id = t.tasks.len();
        t.tasks.push(Task {
            fut: Some(fut),
            flag: Arc::new(Flag(AtomicBool::new(true), id)),
            done: false,
        });
        id
    });
    if EAGER.with(|e| e.get()) {
        poll(id);
    }
}

/// Install on the current thread (idempotent).
pub fn install() {
    let _ = Executor::init_local_custom_executor(Ctl);
}

/// Drop every task (between cases). Futures are dropped outside the borrow.
pub fn reset() {
    set_eager(false);
    loop {
        let tasks = TABLE.with(|t| std::mem::take(&mut t.borrow_mut().tasks));
        if tasks.is_empty() {
            break;
        }
        drop(tasks);
    }
    take_wakes();
}

/// ids (spawn indices) of live woken tasks, in spawn order
pub fn ready() -> Vec<usize> {
    TABLE.with(|t| {
        t.borrow()
            .tasks
            .iter()
            .enumerate()
            .filter(|(_, k)| !k.done && k.flag.0.load(Ordering::SeqCst))
            .map(|(i, _)| i)
            .collect()
    })
}

pub fn task_count() -> usize {
    TABLE.with(|t| t.borrow().tasks.len())
}

pub fn live_count() -> usize {
    TABLE.with(|t| t.borrow().tasks.iter().filter(|k| !k.done).count())
}

/// has task `id` run to completion?
pub fn is_done(id: usize) -> bool {
    TABLE.with(|t| t.borrow().tasks.get(id).map(|k| k.done).unwrap_or(true))
}

/// poll task `id` once; returns true if it completed
pub fn poll(id: usize) -> bool {
    let (fut, flag) = TABLE.with(|t| {
        let mut t = t.borrow_mut();
        let k = &mut t.tasks[id];
        k.flag.0.store(false, Ordering::SeqCst);
        (k.fut.take(), k.flag.clone())
    });
    let Some(mut fut) = fut else { return true };
    let waker = Waker::from(flag);
    let mut cx = Context::from_waker(&waker);
    let r = fut.as_mut().poll(&mut cx);
    match r {
        Poll::Ready(()) => {
            drop(fut);
            TABLE.with(|t| {
                if let Some(k) = t.borrow_mut().tasks.get_mut(id) {
                    k.done = true
                }
            });
            true
        }
        Poll::Pending => {
            TABLE.with(|t| {
                if let Some(k) = t.borrow_mut().tasks.get_mut(id) {
                    k.fut = Some(fut)
                }
            });
            false
        }
    }
}

/// poll the `i`-th entry of the current ready list (index taken modulo its length);
/// returns the task id polled, or None when idle
pub fn poll_nth_ready(i: usize) -> Option<usize> {
    let r = ready();
    if r.is_empty() {
        return None;
    }
    let id = r[i % r.len()];
    poll(id);
    Some(id)
}

/// FIFO until idle; returns number of polls (bounded)
pub fn run_until_idle(max_polls: usize) -> usize {
    let mut n = 0;
    while n < max_polls {
        if poll_nth_ready(0).is_none() {
            break;
        }
        n += 1;
    }
    n
}

/// a waker that does nothing (for polling streams/futures by hand)
pub fn noop_waker() -> Waker {
    struct N;
    impl Wake for N {
        fn wake(self: Arc<Self>) {}
    }
    Waker::from(Arc::new(N))
}

/// a waker with an observable flag
pub fn flag_waker() -> (Waker, Arc<AtomicBool>) {
    struct F(Arc<AtomicBool>);
    impl Wake for F {
        fn wake(self: Arc<Self>) {
            self.0.store(true, Ordering::SeqCst)
        }
    }
    let b = Arc::new(AtomicBool::new(false));
    (Waker::from(Arc::new(F(b.clone()))), b)
}
