//! C17 correspondence harness: real `reactive_graph::actions::{ArcAction, Action, ArcMultiAction,
//! MultiAction}` from /repo's working tree on the harness-controlled executor (`hx_common::sched`).
//! Dispatched futures are `futures::channel::oneshot` receivers the harness completes on `ready`.
//!
//! Op grammar (numbers are decimal):
//!   case <n>
//!   kind arc|arc-local|arc-unsync|arena|arena-local|arena-unsync [v0]   (optional, first op; default arc;
//!        `-local` kinds use `dispatch_local`; v0 = `new_with_value(Some(v0), …)`)
//!   kind multi-arc|multi-arena
//! single action:
//!   dispatch <i> | abort <k> | drop <k> (drop the abort handle) | ready <k> <v> | clear | obs
//!   poll <j>         poll the (j mod len)-th ready task; when the abort message and the result are both
//!                    available at that poll the repaired code (`select_biased!`, abort arm first, F-C17-1)
//!                    takes the abort arm; a regression to the unbiased `select!` takes the future's arm
//!                    about half the time and is reported as `fail abort-race`
//!   idle             FIFO polls until no task is woken
//!   -> `p=<0|1> ver=<n> val=<v|-> in=<v|-> rl=<ready-list length> ## <verdict>`
//! multi action:
//!   dispatch <i> | dsync <v> | cancel <s> | ready <t> <v> | poll <j> | idle | obs
//!   -> `ver=<n> subs=[in:val:pending:canceled;…] rl=<n> ## <verdict>`
//!
//! Verdict = the property's clauses recomputed from scratch from the resolved op history
//! (`eval_single` / `eval_multi`), compared with what the real action reports.
use futures::channel::oneshot;
use hx_common::{parse_cli, quiet_panics, sched, Cmd, Rng};
use reactive_graph::actions::{
    Action, ActionAbortHandle, ArcAction, ArcMultiAction, ArcSubmission, MultiAction, Submission,
};
use reactive_graph::owner::Owner;
use reactive_graph::prelude::*;
use std::collections::BTreeSet;
use std::future::Future;
use std::io::Write as _;
use std::panic::{catch_unwind, AssertUnwindSafe};
use std::pin::Pin;
use std::sync::atomic::{AtomicBool, Ordering::SeqCst};
use std::sync::{Arc, Mutex};

// ------------------------------------------------------------------ the action under test

#[derive(Clone, Copy, PartialEq, Debug)]
enum Kind {
    Arc,
    ArcLocal,
    ArcUnsync,
    Arena,
    ArenaLocal,
    ArenaUnsync,
    MultiArc,
    MultiArena,
}
const SINGLE_KINDS: [&str; 6] = ["arc", "arc-local", "arc-unsync", "arena", "arena-local", "arena-unsync"];

fn kind_of(s: &str) -> Option<Kind> {
    Some(match s {
        "arc" => Kind::Arc,
        "arc-local" => Kind::ArcLocal,
        "arc-unsync" => Kind::ArcUnsync,
        "arena" => Kind::Arena,
        "arena-local" => Kind::ArenaLocal,
        "arena-unsync" => Kind::ArenaUnsync,
        "multi-arc" => Kind::MultiArc,
        "multi-arena" => Kind::MultiArena,
        _ => return None,
    })
}

/// what the action function hands out: the receiver staged by the harness for this dispatch
#[derive(Default)]
struct Slot {
    next: Option<(oneshot::Receiver<u32>, Arc<AtomicBool>)>,
    seen: Vec<u32>,
}
type SharedSlot = Arc<Mutex<Slot>>;

fn action_fn(
    slot: SharedSlot,
) -> impl Fn(&u32) -> Pin<Box<dyn Future<Output = u32> + Send>> + Send + Sync + 'static {
    move |i: &u32| {
        let (rx, body_done) = {
            let mut s = slot.lock().unwrap();
            s.seen.push(*i);
            s.next.take().expect("receiver staged before dispatch")
        };
        Box::pin(async move {
            let v = rx.await.unwrap_or(u32::MAX);
            // set only if the future's own arm ran to completion (tells the harness which
            // arm the real `select!` took, independently of the action's state)
            body_done.store(true, SeqCst);
            v
        })
    }
}

enum Single {
    A(ArcAction<u32, u32>),
    R(Action<u32, u32>),
}
impl Single {
    fn new(kind: Kind, v0: Option<u32>, slot: SharedSlot) -> Self {
        let f = action_fn(slot);
        match kind {
            Kind::Arc | Kind::ArcLocal => Single::A(ArcAction::new_with_value(v0, f)),
            Kind::ArcUnsync => Single::A(ArcAction::new_unsync_with_value(v0, f)),
            Kind::Arena => Single::R(Action::new_with_value(v0, f)),
            Kind::ArenaLocal => Single::R(Action::new_local_with_value(v0, f)),
            Kind::ArenaUnsync => Single::R(Action::new_unsync_with_value(v0, f)),
            _ => unreachable!(),
        }
    }
    fn dispatch(&self, local: bool, i: u32) -> ActionAbortHandle {
        match (self, local) {
            (Single::A(a), false) => a.dispatch(i),
            (Single::A(a), true) => a.dispatch_local(i),
            (Single::R(a), false) => a.dispatch(i),
            (Single::R(a), true) => a.dispatch_local(i),
        }
    }
    fn clear(&self) {
        match self {
            Single::A(a) => a.clear(),
            Single::R(a) => a.clear(),
        }
    }
    /// (pending, version, value, input), all read untracked at top level
    fn read(&self) -> (bool, usize, Option<u32>, Option<u32>) {
        match self {
            Single::A(a) => (
                a.pending().get_untracked(),
                a.version().get_untracked(),
                a.value().get_untracked(),
                a.input().get_untracked(),
            ),
            Single::R(a) => (
                a.pending().get_untracked(),
                a.version().get_untracked(),
                a.value().get_untracked(),
                a.input().get_untracked(),
            ),
        }
    }
}

enum Multi {
    A(ArcMultiAction<u32, u32>),
    R(MultiAction<u32, u32>),
}
type SubRec = (Option<u32>, Option<u32>, bool, bool);
impl Multi {
    fn new(kind: Kind, slot: SharedSlot) -> Self {
        let f = action_fn(slot);
        match kind {
            Kind::MultiArc => Multi::A(ArcMultiAction::new(f)),
            _ => Multi::R(MultiAction::new(f)),
        }
    }
    fn dispatch(&self, i: u32) {
        match self {
            Multi::A(a) => a.dispatch(i),
            Multi::R(a) => a.dispatch(i),
        }
    }
    fn dispatch_sync(&self, v: u32) {
        match self {
            Multi::A(a) => a.dispatch_sync(v),
            Multi::R(a) => a.dispatch_sync(v),
        }
    }
    fn subs(&self) -> Vec<ArcSubmission<u32, u32>> {
        match self {
            Multi::A(a) => a.submissions().get_untracked(),
            Multi::R(a) => a.submissions().get_untracked(),
        }
    }
    fn version(&self) -> usize {
        match self {
            Multi::A(a) => a.version().get_untracked(),
            Multi::R(a) => a.version().get_untracked(),
        }
    }
    fn cancel(&self, s: usize) {
        let subs = self.subs();
        if let Some(sub) = subs.get(s) {
            match self {
                Multi::A(_) => sub.cancel(),
                // the arena flavour of the record
                Multi::R(_) => Submission::from(sub.clone()).cancel(),
            }
        }
    }
    fn read(&self) -> Vec<SubRec> {
        self.subs()
            .iter()
            .map(|s| match self {
                Multi::A(_) => (
                    s.input().get_untracked(),
                    s.value().get_untracked(),
                    s.pending().get_untracked(),
                    s.canceled().get_untracked(),
                ),
                Multi::R(_) => {
                    let r = Submission::from(s.clone());
                    (
                        r.input().get_untracked(),
                        r.value().get_untracked(),
                        r.pending().get_untracked(),
                        r.canceled().get_untracked(),
                    )
                }
            })
            .collect()
    }
}

// ------------------------------------------------------------------ the property's oracle (from scratch)

/// resolved history of a single-action case: ops as issued, polls resolved to the task id polled
#[derive(Clone, Debug)]
enum H {
    Dispatch(u32),
    Abort(usize),
    Drop(usize),
    Ready(usize, u32),
    /// task id
    Polled(usize),
    Clear,
}

#[derive(PartialEq, Clone, Copy)]
enum Fate {
    Running,
    Completed,
    Aborted,
}

struct Rec {
    handle_used: bool,
    /// position in the history of the effective abort / ready
    abort_at: Option<usize>,
    ready_at: Option<(usize, u32)>,
    fate: Fate,
}

struct Exp {
    pending: bool,
    version: usize,
    value: Option<u32>,
    input: Option<u32>,
    /// every unfinished dispatch has neither been resolved nor aborted
    untouched: bool,
    max_overlap: usize,
    tags: BTreeSet<&'static str>,
}

/// The property, evaluated on the history alone: a dispatch is aborted when a poll of its task
/// saw the abort message (whether or not its result was available too), finished when a poll saw
/// its result and no abort message; pending = some dispatch neither finished nor aborted; version = number finished;
/// value = result of the most recently finished one (or None after a later `clear`);
/// input = latest dispatched input while pending, None otherwise.
fn eval_single(v0: Option<u32>, hist: &[H]) -> Exp {
    let mut recs: Vec<Rec> = vec![];
    let mut value = v0;
    let mut last_input = None;
    let mut max_overlap = 0;
    let mut tags = BTreeSet::new();
    let mut completion_order: Vec<usize> = vec![];
    for (pos, h) in hist.iter().enumerate() {
        match *h {
            H::Dispatch(i) => {
                recs.push(Rec { handle_used: false, abort_at: None, ready_at: None, fate: Fate::Running });
                last_input = Some(i);
            }
            H::Abort(k) => {
                if let Some(r) = recs.get_mut(k) {
                    if !r.handle_used {
                        r.handle_used = true;
                        if r.fate == Fate::Running {
                            r.abort_at = Some(pos);
                        } else {
                            tags.insert("abort-after-ready");
                        }
                    }
                }
            }
            H::Drop(k) => {
                if let Some(r) = recs.get_mut(k) {
                    if !r.handle_used {
                        r.handle_used = true;
                        tags.insert("drop-handle");
                    }
                }
            }
            H::Ready(k, v) => {
                if let Some(r) = recs.get_mut(k) {
                    if r.fate == Fate::Running && r.ready_at.is_none() {
                        r.ready_at = Some((pos, v));
                    }
                }
            }
            H::Polled(id) => {
                if let Some(r) = recs.get_mut(id) {
                    if r.fate == Fate::Running {
                        match (r.abort_at, r.ready_at) {
                            (Some(a), ready) => {
                                if let Some((rd, _)) = ready {
                                    tags.insert(if a < rd { "race-abort-first" } else { "race-ready-first" });
                                }
                                r.fate = Fate::Aborted;
                                tags.insert("abort-before-ready");
                            }
                            (None, Some((_, v))) => {
                                r.fate = Fate::Completed;
                                value = Some(v);
                                completion_order.push(id);
                            }
                            (None, None) => {}
                        }
                    }
                }
            }
            H::Clear => {
                value = None;
                tags.insert(if recs.iter().any(|r| r.fate == Fate::Running) { "clear-while-pending" } else { "clear" });
            }
        }
        max_overlap = max_overlap.max(recs.iter().filter(|r| r.fate == Fate::Running).count());
    }
    if completion_order.windows(2).any(|w| w[0] > w[1]) {
        tags.insert("out-of-order");
    }
    let pending = recs.iter().any(|r| r.fate == Fate::Running);
    Exp {
        pending,
        version: recs.iter().filter(|r| r.fate == Fate::Completed).count(),
        value,
        input: if pending { last_input } else { None },
        untouched: recs
            .iter()
            .all(|r| r.fate != Fate::Running || (r.abort_at.is_none() && r.ready_at.is_none())),
        max_overlap,
        tags,
    }
}

#[derive(Clone, Debug)]
enum MH {
    Dispatch(u32),
    DSync(u32),
    Cancel(usize),
    Ready(usize, u32),
    Polled(usize),
}

/// one record per dispatch, each a function of its own dispatch / cancel / completion only
fn eval_multi(hist: &[MH]) -> (usize, Vec<SubRec>, BTreeSet<&'static str>) {
    struct T {
        sub: usize,
        result: Option<u32>,
        done: bool,
    }
    let mut subs: Vec<SubRec> = vec![];
    let mut tasks: Vec<T> = vec![];
    let mut version = 0;
    let mut tags = BTreeSet::new();
    for h in hist {
        match *h {
            MH::Dispatch(i) => {
                tasks.push(T { sub: subs.len(), result: None, done: false });
                subs.push((Some(i), None, true, false));
            }
            MH::DSync(v) => {
                subs.push((None, Some(v), false, false));
                version += 1;
                tags.insert("dsync");
            }
            MH::Cancel(s) => {
                if let Some(r) = subs.get_mut(s) {
                    tags.insert(if r.2 { "cancel-while-pending" } else { "cancel-after-done" });
                    r.3 = true;
                }
            }
            MH::Ready(t, v) => {
                if let Some(t) = tasks.get_mut(t) {
                    if !t.done && t.result.is_none() {
                        t.result = Some(v);
                    }
                }
            }
            MH::Polled(id) => {
                if let Some(t) = tasks.get_mut(id) {
                    if let (false, Some(v)) = (t.done, t.result) {
                        t.done = true;
                        let r = &mut subs[t.sub];
                        *r = (None, if r.3 { None } else { Some(v) }, false, r.3);
                        version += 1;
                    }
                }
            }
        }
    }
    if tasks.iter().filter(|t| !t.done).count() >= 2 {
        tags.insert("overlap");
    }
    (version, subs, tags)
}

// ------------------------------------------------------------------ one live case

struct Live {
    kind: Kind,
    v0: Option<u32>,
    started: bool,
    torn: bool,
    single: Option<Single>,
    multi: Option<Multi>,
    owner: Option<Owner>,
    slot: SharedSlot,
    senders: Vec<Option<oneshot::Sender<u32>>>,
    handles: Vec<Option<ActionAbortHandle>>,
    body_done: Vec<Arc<AtomicBool>>,
    task_done: Vec<bool>,
    abort_live: Vec<bool>,
    ready_live: Vec<bool>,
    fn_input_ok: bool,
    /// a poll that saw the abort message let the future's arm run (F-C17-1 regression)
    abort_lost: bool,
    hist: Vec<H>,
    mhist: Vec<MH>,
}

fn opt(v: Option<u32>) -> String {
    v.map(|v| v.to_string()).unwrap_or_else(|| "-".into())
}

impl Live {
    fn new() -> Self {
        sched::reset();
        Live {
            kind: Kind::Arc,
            v0: None,
            started: false,
            torn: false,
            single: None,
            multi: None,
            owner: None,
            slot: Default::default(),
            senders: vec![],
            handles: vec![],
            body_done: vec![],
            task_done: vec![],
            abort_live: vec![],
            ready_live: vec![],
            fn_input_ok: true,
            abort_lost: false,
            hist: vec![],
            mhist: vec![],
        }
    }
    fn teardown(&mut self) {
        if self.torn {
            return;
        }
        self.torn = true;
        sched::reset();
        self.handles.clear();
        self.senders.clear();
        self.single = None;
        self.multi = None;
        if let Some(o) = self.owner.take() {
            o.cleanup();
            o.unset();
        }
    }
    fn is_multi(&self) -> bool {
        matches!(self.kind, Kind::MultiArc | Kind::MultiArena)
    }
    fn ensure(&mut self) {
        if self.single.is_some() || self.multi.is_some() {
            return;
        }
        let owner = Owner::new();
        owner.set();
        self.owner = Some(owner);
        if self.is_multi() {
            self.multi = Some(Multi::new(self.kind, self.slot.clone()));
        } else {
            self.single = Some(Single::new(self.kind, self.v0, self.slot.clone()));
        }
    }
    fn local(&self) -> bool {
        matches!(self.kind, Kind::ArcLocal | Kind::ArenaLocal)
    }

    fn stage(&mut self) -> usize {
        let (tx, rx) = oneshot::channel::<u32>();
        let flag = Arc::new(AtomicBool::new(false));
        self.slot.lock().unwrap().next = Some((rx, flag.clone()));
        self.senders.push(Some(tx));
        self.body_done.push(flag);
        self.task_done.push(false);
        self.abort_live.push(false);
        self.ready_live.push(false);
        self.senders.len() - 1
    }
    fn after_dispatch(&mut self, i: u32) {
        let s = self.slot.lock().unwrap();
        if s.next.is_some() || s.seen.last() != Some(&i) {
            self.fn_input_ok = false;
        }
    }
    fn send_ready(&mut self, k: usize, v: u32) {
        if k < self.senders.len() && !self.task_done[k] {
            if let Some(tx) = self.senders[k].take() {
                let _ = tx.send(v);
                self.ready_live[k] = true;
            }
        }
    }
    /// poll the j-th ready task
    fn poll_nth(&mut self, j: usize) {
        let r = sched::ready();
        if r.is_empty() {
            return;
        }
        let id = r[j % r.len()];
        // the abort message was visible at this poll (sent on a live handle to a live task)
        let abort_visible = !self.is_multi() && id < self.task_done.len() && self.abort_live[id] && !self.task_done[id];
        let done = sched::poll(id);
        if id < self.task_done.len() {
            self.task_done[id] = done;
        }
        if self.is_multi() {
            self.mhist.push(MH::Polled(id));
        } else {
            self.hist.push(H::Polled(id));
            // independent of the action's state: the harness's own future ran to completion
            // although the abort arm was ready ⇒ the select is not biased to the abort arm
            if abort_visible && self.body_done[id].load(SeqCst) {
                self.abort_lost = true;
            }
        }
    }
    fn run_idle(&mut self) {
        for _ in 0..100_000 {
            if sched::ready().is_empty() {
                break;
            }
            self.poll_nth(0);
        }
    }

    fn obs(&self) -> String {
        let rl = sched::ready().len();
        if let Some(m) = &self.multi {
            let ver = m.version();
            let subs = m.read();
            let (ever, esubs, _) = eval_multi(&self.mhist);
            let verdict = if ver != ever {
                "fail multi-version"
            } else if subs != esubs {
                "fail multi-record"
            } else if !self.fn_input_ok {
                "fail fn-input"
            } else {
                "ok"
            };
            let show = subs
                .iter()
                .map(|(i, v, p, c)| format!("{}:{}:{}:{}", opt(*i), opt(*v), *p as u8, *c as u8))
                .collect::<Vec<_>>()
                .join(";");
            format!("ver={ver} subs=[{show}] rl={rl} ## {verdict}")
        } else {
            let (p, ver, val, inp) = self.single.as_ref().unwrap().read();
            let e = eval_single(self.v0, &self.hist);
            let verdict = if self.abort_lost {
                "fail abort-race"
            } else if p != e.pending {
                "fail pending"
            } else if ver != e.version {
                "fail version"
            } else if val != e.value {
                "fail value"
            } else if inp != e.input {
                "fail input"
            } else if rl == 0 && !e.untouched {
                "fail idle-unfinished"
            } else if !self.fn_input_ok {
                "fail fn-input"
            } else {
                "ok"
            };
            format!("p={} ver={ver} val={} in={} rl={rl} ## {verdict}", p as u8, opt(val), opt(inp))
        }
    }

    fn apply(&mut self, line: &str) -> String {
        let w: Vec<&str> = line.split_whitespace().collect();
        let num = |s: &str| s.parse::<u32>().ok();
        let idx = |s: &str| s.parse::<usize>().ok();
        const BAD: &str = "bad-op";
        let bad = || BAD.to_string();
        match w.as_slice() {
            ["kind", k] | ["kind", k, _] => {
                let Some(kind) = kind_of(k) else { return bad() };
                if self.started {
                    return bad();
                }
                let v0 = if w.len() == 3 {
                    let Some(v) = num(w[2]) else { return bad() };
                    if !SINGLE_KINDS.contains(k) {
                        return bad();
                    }
                    Some(v)
                } else {
                    None
                };
                // (a rejected op may already have created the default action)
                self.single = None;
                self.multi = None;
                if let Some(o) = self.owner.take() {
                    o.cleanup();
                    o.unset();
                }
                self.kind = kind;
                self.v0 = v0;
                self.started = true;
                self.ensure();
                return line.split_whitespace().collect::<Vec<_>>().join(" ");
            }
            _ => {}
        }
        self.ensure();
        if self.is_multi() {
            match w.as_slice() {
                ["dispatch", i] => {
                    let Some(i) = num(i) else { return bad() };
                    self.stage();
                    self.multi.as_ref().unwrap().dispatch(i);
                    self.after_dispatch(i);
                    self.mhist.push(MH::Dispatch(i));
                }
                ["dsync", v] => {
                    let Some(v) = num(v) else { return bad() };
                    self.multi.as_ref().unwrap().dispatch_sync(v);
                    self.mhist.push(MH::DSync(v));
                }
                ["cancel", s] => {
                    let Some(s) = idx(s) else { return bad() };
                    self.multi.as_ref().unwrap().cancel(s);
                    self.mhist.push(MH::Cancel(s));
                }
                ["ready", t, v] => {
                    let (Some(t), Some(v)) = (idx(t), num(v)) else { return bad() };
                    self.send_ready(t, v);
                    self.mhist.push(MH::Ready(t, v));
                }
                ["poll", j] => {
                    let Some(j) = idx(j) else { return bad() };
                    self.poll_nth(j);
                }
                ["idle"] => self.run_idle(),
                ["obs"] => {}
                _ => return bad(),
            }
        } else {
            match w.as_slice() {
                ["dispatch", i] => {
                    let Some(i) = num(i) else { return bad() };
                    self.stage();
                    let h = self.single.as_ref().unwrap().dispatch(self.local(), i);
                    self.handles.push(Some(h));
                    self.after_dispatch(i);
                    self.hist.push(H::Dispatch(i));
                }
                ["abort", k] => {
                    let Some(k) = idx(k) else { return bad() };
                    if let Some(h) = self.handles.get_mut(k).and_then(|h| h.take()) {
                        if !self.task_done[k] {
                            self.abort_live[k] = true;
                        }
                        h.abort();
                    }
                    self.hist.push(H::Abort(k));
                }
                ["drop", k] => {
                    let Some(k) = idx(k) else { return bad() };
                    if let Some(h) = self.handles.get_mut(k).and_then(|h| h.take()) {
                        drop(h);
                    }
                    self.hist.push(H::Drop(k));
                }
                ["ready", k, v] => {
                    let (Some(k), Some(v)) = (idx(k), num(v)) else { return bad() };
                    self.send_ready(k, v);
                    self.hist.push(H::Ready(k, v));
                }
                ["poll", j] => {
                    let Some(j) = idx(j) else { return bad() };
                    self.poll_nth(j);
                }
                ["idle"] => self.run_idle(),
                ["clear"] => {
                    self.single.as_ref().unwrap().clear();
                    self.hist.push(H::Clear);
                }
                ["obs"] => {}
                _ => return bad(),
            }
        }
        self.started = true;
        self.obs()
    }

    fn tags(&self) -> Vec<String> {
        let mut t: BTreeSet<String> = BTreeSet::new();
        let kind = match self.kind {
            Kind::Arc => "arc",
            Kind::ArcLocal => "arc-local",
            Kind::ArcUnsync => "arc-unsync",
            Kind::Arena => "arena",
            Kind::ArenaLocal => "arena-local",
            Kind::ArenaUnsync => "arena-unsync",
            Kind::MultiArc => "multi-arc",
            Kind::MultiArena => "multi-arena",
        };
        t.insert(kind.into());
        if self.is_multi() {
            let (_, subs, tags) = eval_multi(&self.mhist);
            t.extend(tags.iter().map(|s| s.to_string()));
            if !subs.is_empty() {
                t.insert("multi".into());
            }
        } else {
            let e = eval_single(self.v0, &self.hist);
            t.extend(e.tags.iter().map(|s| s.to_string()));
            match e.max_overlap {
                0 | 1 => {}
                2 => {
                    t.insert("overlap".into());
                }
                3 => {
                    t.insert("overlap".into());
                    t.insert("overlap3".into());
                }
                _ => {
                    t.insert("overlap".into());
                    t.insert("overlap4".into());
                }
            }
            if self.v0.is_some() {
                t.insert("init-value".into());
            }
            if t.len() == 1 {
                t.insert("plain".into());
            }
        }
        t.into_iter().collect()
    }
}
impl Drop for Live {
    fn drop(&mut self) {
        self.teardown()
    }
}

/// one case
struct CaseRunner {
    live: Live,
}
impl CaseRunner {
    fn new() -> Self {
        CaseRunner { live: Live::new() }
    }
    fn feed(&mut self, op: &str) -> String {
        match catch_unwind(AssertUnwindSafe(|| self.live.apply(op))) {
            Ok(o) => o,
            Err(_) => "panic ## fail panic".to_string(),
        }
    }
}

fn run(ops_path: &str, out_path: &str) -> std::io::Result<()> {
    let text = std::fs::read_to_string(ops_path)?;
    let mut out = std::io::BufWriter::new(std::fs::File::create(out_path)?);
    let mut cur: Option<(String, CaseRunner, Vec<String>)> = None; // (case line, runner, outputs)
    let mut pre: Option<CaseRunner> = None; // ops before any case line
    fn flush(out: &mut impl std::io::Write, cur: &mut Option<(String, CaseRunner, Vec<String>)>) -> std::io::Result<()> {
        if let Some((case_line, mut runner, outs)) = cur.take() {
            let tags = runner.live.tags();
            runner.live.teardown();
            writeln!(out, "{} tags={}", case_line, tags.join(","))?;
            for o in outs {
                writeln!(out, "{o}")?;
            }
        }
        Ok(())
    }
    for line in text.lines() {
        let line = line.trim();
        let w: Vec<&str> = line.split_whitespace().collect();
        if let ["case", n] = w.as_slice() {
            flush(&mut out, &mut cur)?;
            if let Some(mut p) = pre.take() {
                p.live.teardown();
            }
            cur = Some((format!("case {n}"), CaseRunner::new(), vec![]));
            continue;
        }
        match cur.as_mut() {
            Some((_, runner, outs)) => {
                let o = runner.feed(line);
                outs.push(o);
            }
            None => {
                let r = pre.get_or_insert_with(CaseRunner::new);
                let o = r.feed(line);
                writeln!(out, "{o}")?;
            }
        }
    }
    flush(&mut out, &mut cur)?;
    out.flush()
}

// ------------------------------------------------------------------ generator

/// the generator's own bookkeeping of what is live / woken (only used to aim ops; polls are
/// taken modulo the real ready-list length anyway)
#[derive(Default, Clone)]
struct SimTask {
    ready: bool,
    abort: bool,
    handle_used: bool,
    done: bool,
    woken: bool,
}
#[derive(Default)]
struct Sim {
    t: Vec<SimTask>,
}
impl Sim {
    fn ready_list(&self) -> Vec<usize> {
        (0..self.t.len()).filter(|&i| !self.t[i].done && self.t[i].woken).collect()
    }
    fn unfinished(&self) -> Vec<usize> {
        (0..self.t.len()).filter(|&i| !self.t[i].done).collect()
    }
    fn dispatch(&mut self) {
        self.t.push(SimTask { woken: true, ..Default::default() });
    }
    fn abort(&mut self, k: usize) {
        if let Some(t) = self.t.get_mut(k) {
            if !t.handle_used {
                t.handle_used = true;
                if !t.done {
                    t.abort = true;
                    t.woken = true;
                }
            }
        }
    }
    fn drop_handle(&mut self, k: usize) {
        if let Some(t) = self.t.get_mut(k) {
            if !t.handle_used {
                t.handle_used = true;
                if !t.done {
                    t.woken = true;
                }
            }
        }
    }
    fn ready(&mut self, k: usize) {
        if let Some(t) = self.t.get_mut(k) {
            if !t.done && !t.ready {
                t.ready = true;
                t.woken = true;
            }
        }
    }
    fn poll(&mut self, j: usize) {
        let r = self.ready_list();
        if r.is_empty() {
            return;
        }
        let t = &mut self.t[r[j % r.len()]];
        t.woken = false;
        if t.abort || t.ready {
            t.done = true;
        }
    }
    fn idle(&mut self) {
        while !self.ready_list().is_empty() {
            self.poll(0)
        }
    }
}

/// all interleavings of the sequences; an element `(k, 'D')` may only be taken once the `D` of
/// every earlier sequence that has one has been taken (dispatch order is fixed)
fn interleavings(seqs: &[Vec<(usize, char)>], pos: &mut Vec<usize>, cur: &mut Vec<(usize, char)>, out: &mut Vec<Vec<(usize, char)>>) {
    let mut any = false;
    for s in 0..seqs.len() {
        if pos[s] >= seqs[s].len() {
            continue;
        }
        any = true;
        let ev = seqs[s][pos[s]];
        if ev.1 == 'D' && (0..s).any(|p| pos[p] == 0 && seqs[p].first().map(|e| e.1) == Some('D')) {
            continue;
        }
        pos[s] += 1;
        cur.push(ev);
        interleavings(seqs, pos, cur, out);
        cur.pop();
        pos[s] -= 1;
    }
    if !any {
        out.push(cur.clone());
    }
}

fn product(n: usize, base: usize) -> Vec<Vec<usize>> {
    let mut out = vec![vec![]];
    for _ in 0..n {
        out = out
            .into_iter()
            .flat_map(|p| {
                (0..base).map(move |b| {
                    let mut q = p.clone();
                    q.push(b);
                    q
                })
            })
            .collect();
    }
    out
}

const SCRIPTS: [&str; 6] = ["R", "A", "AR", "RA", "XR", ""];
const MSCRIPTS: [&str; 5] = ["R", "CR", "RC", "C", ""];

struct Gen {
    out: std::io::BufWriter<std::fs::File>,
    cases: usize,
}
impl Gen {
    fn case(&mut self, prefix: &str, lines: &[String]) {
        writeln!(self.out, "case {}{}", prefix, self.cases).unwrap();
        for l in lines {
            writeln!(self.out, "{l}").unwrap();
        }
        self.cases += 1;
    }
}

/// exhaustive small scope for the single action: every assignment of a script to each of `nd`
/// dispatches, every interleaving of the scripts' events, the polling modes
/// E (every event processed at once: completion order = event order), L (nothing polled until
/// the end, FIFO), F (nothing polled until the end, LIFO), P (tasks parked first, then polled one
/// by one at the end); in L, F and P a poll may find the abort message and the result together
fn gen_exhaustive_single(g: &mut Gen, nd: usize, scripts: &[&str], modes: &[char], with_clear: bool) {
    let mut kind_rot = 0usize;
    for assign in product(nd, scripts.len()) {
        let mut seqs: Vec<Vec<(usize, char)>> = (0..nd)
            .map(|k| std::iter::once((k, 'D')).chain(scripts[assign[k]].chars().map(|c| (k, c))).collect())
            .collect();
        if with_clear {
            seqs.push(vec![(0, 'K')]);
        }
        let mut all = vec![];
        interleavings(&seqs, &mut vec![0; seqs.len()], &mut vec![], &mut all);
        for evs in all {
            for &mode in modes {
                let mut l = vec![];
                let kind = SINGLE_KINDS[kind_rot % SINGLE_KINDS.len()];
                kind_rot += 1;
                if kind_rot % 7 == 0 {
                    l.push(format!("kind {kind} 5"));
                } else {
                    l.push(format!("kind {kind}"));
                }
                for &(k, c) in &evs {
                    l.push(match c {
                        'D' => format!("dispatch {}", 10 + k),
                        'R' => format!("ready {k} {}", 100 + k),
                        'A' => format!("abort {k}"),
                        'X' => format!("drop {k}"),
                        'K' => "clear".into(),
                        _ => unreachable!(),
                    });
                    if mode == 'E' || (mode == 'P' && c == 'D') {
                        l.push("idle".into());
                    }
                }
                match mode {
                    'F' => {
                        for m in (0..nd).rev() {
                            l.push(format!("poll {m}"));
                        }
                    }
                    'P' => {
                        for _ in 0..nd {
                            l.push("poll 0".into());
                        }
                    }
                    _ => {}
                }
                l.push("idle".into());
                g.case(&format!("x{nd}{mode}-"), &l);
            }
        }
    }
}

fn gen_exhaustive_multi(g: &mut Gen, nd: usize, with_sync: bool) {
    let mut rot = 0usize;
    for assign in product(nd, MSCRIPTS.len()) {
        let mut seqs: Vec<Vec<(usize, char)>> = (0..nd)
            .map(|k| std::iter::once((k, 'D')).chain(MSCRIPTS[assign[k]].chars().map(|c| (k, c))).collect())
            .collect();
        if with_sync {
            seqs.push(vec![(0, 'S')]);
        }
        let mut all = vec![];
        interleavings(&seqs, &mut vec![0; seqs.len()], &mut vec![], &mut all);
        for evs in all {
            for mode in ['E', 'L'] {
                let mut l = vec![format!("kind {}", if rot % 2 == 0 { "multi-arc" } else { "multi-arena" })];
                rot += 1;
                let mut sub_of = vec![0usize; nd];
                let mut nsubs = 0;
                for &(k, c) in &evs {
                    l.push(match c {
                        'D' => {
                            sub_of[k] = nsubs;
                            nsubs += 1;
                            format!("dispatch {}", 10 + k)
                        }
                        'S' => {
                            nsubs += 1;
                            "dsync 77".into()
                        }
                        'R' => format!("ready {k} {}", 100 + k),
                        'C' => format!("cancel {}", sub_of[k]),
                        _ => unreachable!(),
                    });
                    if mode == 'E' {
                        l.push("idle".into());
                    }
                }
                l.push("idle".into());
                g.case(&format!("m{nd}{mode}-"), &l);
            }
        }
    }
}

fn gen_random_single(g: &mut Gen, rng: &mut Rng) {
    let mut l = vec![];
    let kind = *rng.pick(&SINGLE_KINDS);
    if rng.chance(1, 5) {
        l.push(format!("kind {kind} {}", rng.range(1, 9)));
    } else {
        l.push(format!("kind {kind}"));
    }
    let mut sim = Sim::default();
    let max_total = rng.range(1, 8);
    let max_overlap = *rng.pick(&[1, 2, 3, 4, 4, 4]);
    let len = rng.range(4, 40);
    let poll_bias = rng.range(1, 6);
    // often start with a burst of overlapping dispatches
    if rng.chance(1, 2) {
        for _ in 0..max_overlap.min(max_total) {
            l.push(format!("dispatch {}", rng.range(1, 99)));
            sim.dispatch();
            if rng.chance(1, 3) {
                l.push("idle".into());
                sim.idle();
            }
        }
    }
    for _ in 0..len {
        let unfinished = sim.unfinished();
        let c = rng.below(20 + 3 * poll_bias);
        let pick_task = |rng: &mut Rng, sim: &Sim| -> usize {
            let u = sim.unfinished();
            if !u.is_empty() && rng.chance(9, 10) {
                *rng.pick(&u)
            } else {
                rng.below(sim.t.len() + 1)
            }
        };
        match c {
            0..=4 => {
                if sim.t.len() < max_total && unfinished.len() < max_overlap {
                    l.push(format!("dispatch {}", rng.range(1, 99)));
                    sim.dispatch();
                } else if !unfinished.is_empty() {
                    let k = *rng.pick(&unfinished);
                    l.push(format!("ready {k} {}", rng.range(100, 199)));
                    sim.ready(k);
                }
            }
            5..=9 => {
                let k = pick_task(rng, &sim);
                l.push(format!("ready {k} {}", rng.range(100, 199)));
                sim.ready(k);
            }
            10..=12 => {
                let k = pick_task(rng, &sim);
                l.push(format!("abort {k}"));
                sim.abort(k);
            }
            13 => {
                let k = pick_task(rng, &sim);
                l.push(format!("drop {k}"));
                sim.drop_handle(k);
            }
            14 => l.push("clear".into()),
            15 => l.push("obs".into()),
            16 | 17 => {
                l.push("idle".into());
                sim.idle();
            }
            _ => {
                let j = rng.below(5);
                l.push(format!("poll {j}"));
                sim.poll(j);
            }
        }
    }
    // mostly settle at the end so that the idle-point clauses are exercised
    if rng.chance(4, 5) {
        for k in sim.unfinished() {
            if rng.chance(2, 3) {
                l.push(format!("ready {k} {}", rng.range(100, 199)));
                sim.ready(k);
            }
        }
        l.push("idle".into());
    }
    g.case("r", &l);
}

fn gen_random_multi(g: &mut Gen, rng: &mut Rng) {
    let mut l = vec![format!("kind {}", if rng.chance(1, 2) { "multi-arc" } else { "multi-arena" })];
    let mut sim = Sim::default();
    let mut nsubs = 0usize;
    let len = rng.range(3, 30);
    for _ in 0..len {
        match rng.below(16) {
            0..=3 => {
                if sim.t.len() < 6 {
                    l.push(format!("dispatch {}", rng.range(1, 99)));
                    sim.dispatch();
                    nsubs += 1;
                }
            }
            4 => {
                l.push(format!("dsync {}", rng.range(200, 299)));
                nsubs += 1;
            }
            5..=8 => {
                let k = rng.below(sim.t.len() + 1);
                l.push(format!("ready {k} {}", rng.range(100, 199)));
                sim.ready(k);
            }
            9 | 10 => l.push(format!("cancel {}", rng.below(nsubs + 1))),
            11 => {
                l.push("idle".into());
                sim.idle();
            }
            12 => l.push("obs".into()),
            _ => {
                let j = rng.below(5);
                l.push(format!("poll {j}"));
                sim.poll(j);
            }
        }
    }
    if rng.chance(3, 4) {
        l.push("idle".into());
    }
    g.case("q", &l);
}

fn generate(seed: u64, n: usize, path: &str, tier: &str) -> std::io::Result<()> {
    let mut g = Gen { out: std::io::BufWriter::new(std::fs::File::create(path)?), cases: 0 };
    let thorough = tier == "thorough";
    // exhaustive small scope (independent of the seed)
    gen_exhaustive_single(&mut g, 1, &SCRIPTS, &['E', 'L', 'F', 'P'], false);
    gen_exhaustive_single(&mut g, 2, &SCRIPTS, &['E', 'L', 'F', 'P'], false);
    gen_exhaustive_single(&mut g, 3, &SCRIPTS, &['E', 'L', 'F', 'P'], false);
    gen_exhaustive_single(&mut g, 1, &SCRIPTS[..4], &['E', 'L', 'F'], true);
    gen_exhaustive_single(&mut g, 2, &SCRIPTS[..4], &['E', 'L', 'F'], true);
    // four overlapping dispatches: complete / abort only, every order (both tiers)
    gen_exhaustive_single(&mut g, 4, &SCRIPTS[..2], &['E', 'L', 'F', 'P'], false);
    if thorough {
        gen_exhaustive_single(&mut g, 4, &SCRIPTS[..3], &['E', 'F'], false);
        gen_exhaustive_single(&mut g, 3, &SCRIPTS[..3], &['E', 'F'], true);
    }
    for nd in 1..=3 {
        gen_exhaustive_multi(&mut g, nd, false);
    }
    gen_exhaustive_multi(&mut g, 1, true);
    gen_exhaustive_multi(&mut g, 2, true);
    // random beyond
    let mut rng = Rng::new(seed);
    for _ in 0..n {
        if rng.chance(1, 5) {
            gen_random_multi(&mut g, &mut rng);
        } else {
            gen_random_single(&mut g, &mut rng);
        }
    }
    g.out.flush()
}

fn main() {
    match parse_cli() {
        Cmd::Gen { seed, n, ops, tier } => generate(seed, n, &ops, &tier).expect("gen"),
        Cmd::Run { ops, out } => {
            quiet_panics();
            sched::install();
            run(&ops, &out).expect("run")
        }
    }
}
