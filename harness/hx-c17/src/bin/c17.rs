//! C17 correspondence harness: real `reactive_graph::actions::{ArcAction, Action, ArcMultiAction,
//! MultiAction}` from /repo's working tree on the harness-controlled executor (`hx_common::sched`).
//! Dispatched futures are `futures::channel::oneshot` receivers the harness completes on `ready`.
//!
//! Op grammar (numbers are decimal):
//!   case <n>
//!   kind arc|arc-local|arc-unsync|arena|arena-local|arena-unsync [v0]   (optional, first op; default arc;
//!        `-local` kinds use `dispatch_local`; v0 = `new_with_value(Some(v0), …)`)
//!   kind multi-arc|multi-arena
//! single action:
//!   dispatch <i> | abort <k> | drop <k> (drop the abort handle) | ready <k> <v> | clear | obs
//!   poll <j>         poll the (j mod len)-th ready task; when the abort message and the result are both
//!                    available at that poll the repaired code (`select_biased!`, abort arm first, F-C17-1)
//!                    takes the abort arm; a regression to the unbiased `select!` takes the future's arm
//!                    about half the time and is reported as `fail abort-race`
//!   idle             FIFO polls until no task is woken
//!   -> `p=<0|1> ver=<n> val=<v|-> in=<v|-> rl=<ready-list length> ## <verdict>`
//! multi action:
//!   dispatch <i> | dsync <v> | cancel <s> | ready <t> <v> | poll <j> | idle | obs
//!   -> `ver=<n> subs=[in:val:pending:canceled;…] rl=<n> ## <verdict>`
//!
//! Verdict = the property's clauses recomputed from scratch from the resolved op history
//! (`eval_single` / `eval_multi`), compared with what the real action reports.
use bytes::Bytes;
use futures::channel::oneshot;
use futures::Stream;
use http::Method;
use hx_common::{parse_cli, quiet_panics, Cmd, Rng};
#[path = "../esched.rs"]
mod sched;
use leptos_server::{ArcServerAction, ArcServerMultiAction, ServerAction, ServerActionError, ServerMultiAction};
use reactive_graph::actions::{
    Action, ActionAbortHandle, ArcAction, ArcMultiAction, ArcSubmission, MultiAction, Submission,
};
use reactive_graph::diagnostics::suppress_resource_load;
use reactive_graph::effect::ImmediateEffect;
use send_wrapper::SendWrapper;
use std::cell::RefCell;
use std::rc::Rc;
use reactive_graph::owner::{provide_context, FromLocal, LocalStorage, Owner};
use reactive_graph::prelude::*;
use server_fn::client::Client;
use server_fn::codec::{Json, PostUrl};
use server_fn::error::{FromServerFnError, ServerFnErrorErr, ServerFnUrlError};
use server_fn::request::ClientReq;
use server_fn::response::ClientRes;
use server_fn::{Http, ServerFn, ServerFnError};
use std::cell::Cell;
use std::collections::{BTreeSet, HashMap};
use std::future::Future;
use std::io::Write as _;
use std::panic::{catch_unwind, AssertUnwindSafe};
use std::pin::Pin;
use std::sync::atomic::{AtomicBool, Ordering::SeqCst};
use std::sync::{Arc, Mutex};

// ------------------------------------------------------------------ the action under test

#[derive(Clone, Copy, PartialEq, Debug)]
enum Kind {
    Arc,
    ArcLocal,
    ArcUnsync,
    Arena,
    ArenaLocal,
    ArenaUnsync,
    ArenaUnsyncLocal,
    ServerArc,
    ServerArena,
    ServerArcXpath,
    ServerArenaXpath,
    MultiArc,
    MultiArena,
    ServerMultiArc,
    ServerMultiArena,
}
const SINGLE_KINDS: [&str; 7] =
    ["arc", "arc-local", "arc-unsync", "arena", "arena-local", "arena-unsync", "arena-unsync-local"];
const SERVER_KINDS: [&str; 4] = ["server-arc", "server-arena", "server-arc-xpath", "server-arena-xpath"];
const MULTI_KINDS: [&str; 4] = ["multi-arc", "multi-arena", "server-multi-arc", "server-multi-arena"];

fn kind_of(s: &str) -> Option<Kind> {
    Some(match s {
        "arc" => Kind::Arc,
        "arc-local" => Kind::ArcLocal,
        "arc-unsync" => Kind::ArcUnsync,
        "arena" => Kind::Arena,
        "arena-local" => Kind::ArenaLocal,
        "arena-unsync" => Kind::ArenaUnsync,
        "arena-unsync-local" => Kind::ArenaUnsyncLocal,
        "server-arc" => Kind::ServerArc,
        "server-arena" => Kind::ServerArena,
        "server-arc-xpath" => Kind::ServerArcXpath,
        "server-arena-xpath" => Kind::ServerArenaXpath,
        "multi-arc" => Kind::MultiArc,
        "multi-arena" => Kind::MultiArena,
        "server-multi-arc" => Kind::ServerMultiArc,
        "server-multi-arena" => Kind::ServerMultiArena,
        _ => return None,
    })
}
impl Kind {
    fn name(self) -> &'static str {
        match self {
            Kind::Arc => "arc",
            Kind::ArcLocal => "arc-local",
            Kind::ArcUnsync => "arc-unsync",
            Kind::Arena => "arena",
            Kind::ArenaLocal => "arena-local",
            Kind::ArenaUnsync => "arena-unsync",
            Kind::ArenaUnsyncLocal => "arena-unsync-local",
            Kind::ServerArc => "server-arc",
            Kind::ServerArena => "server-arena",
            Kind::ServerArcXpath => "server-arc-xpath",
            Kind::ServerArenaXpath => "server-arena-xpath",
            Kind::MultiArc => "multi-arc",
            Kind::MultiArena => "multi-arena",
            Kind::ServerMultiArc => "server-multi-arc",
            Kind::ServerMultiArena => "server-multi-arena",
        }
    }
    fn is_multi(self) -> bool {
        matches!(self, Kind::MultiArc | Kind::MultiArena | Kind::ServerMultiArc | Kind::ServerMultiArena)
    }
    fn is_server(self) -> bool {
        self.name().starts_with("server-")
    }
    /// an arena handle (`Action`, `MultiAction`, `ServerAction`, `ServerMultiAction`): can be disposed
    fn is_arena(self) -> bool {
        self.name().contains("arena")
    }
    /// kinds whose plain `dispatch` op goes through `dispatch_local`
    fn default_local(self) -> bool {
        matches!(self, Kind::ArcLocal | Kind::ArenaLocal | Kind::ArenaUnsyncLocal)
    }
}

/// what the action function hands out: the receiver staged by the harness for this dispatch
#[derive(Default)]
struct Slot {
    next: Option<(oneshot::Receiver<u32>, Arc<AtomicBool>)>,
    seen: Vec<u32>,
}
type SharedSlot = Arc<Mutex<Slot>>;

fn action_fn(
    slot: SharedSlot,
) -> impl Fn(&u32) -> Pin<Box<dyn Future<Output = u32> + Send>> + Send + Sync + 'static {
    move |i: &u32| {
        let (rx, body_done) = {
            let mut s = slot.lock().unwrap();
            s.seen.push(*i);
            s.next.take().expect("receiver staged before dispatch")
        };
        Box::pin(async move {
            let v = rx.await.unwrap_or(u32::MAX);
            // set only if the future's own arm ran to completion (tells the harness which
            // arm the real `select!` took, independently of the action's state)
            body_done.store(true, SeqCst);
            v
        })
    }
}

// ---- a hand-made server function whose client half is driven by the harness (leptos_server wrappers)

/// values the harness resolves a request with: `< 1000` = `Ok(v)` (HTTP 200, JSON body),
/// `>= 1000` = `Err(ServerFnError::ServerError("<v>"))` (HTTP 500, the error's wire encoding)
const ERR_BASE: u32 = 1000;

#[derive(Clone, Debug, PartialEq, serde::Serialize, serde::Deserialize)]
pub struct Echo {
    x: u32,
    /// index of the dispatch (the staged client finds its receiver by it)
    k: usize,
}
type EchoOut = Result<u32, ServerFnError>;

impl ServerFn for Echo {
    const PATH: &'static str = "/api/c17_echo";
    type Client = StagedClient;
    type Server = server_fn::mock::BrowserMockServer;
    type Protocol = Http<PostUrl, Json>;
    type Output = u32;
    type Error = ServerFnError;
    type InputStreamError = ServerFnError;
    type OutputStreamError = ServerFnError;
    fn run_body(self) -> impl Future<Output = Result<u32, ServerFnError>> + Send {
        async move { Ok(self.x) }
    }
}

struct Staged {
    receivers: HashMap<usize, (oneshot::Receiver<u32>, Arc<AtomicBool>)>,
    /// (k, x) of every request the client half was asked to send
    seen: Vec<(usize, u32)>,
    bad_request: bool,
}
static STAGED: Mutex<Option<Staged>> = Mutex::new(None);
fn staged<R>(f: impl FnOnce(&mut Staged) -> R) -> R {
    let mut g = STAGED.lock().unwrap();
    f(g.get_or_insert_with(|| Staged { receivers: HashMap::new(), seen: vec![], bad_request: false }))
}

/// what the client half builds (`ClientReq`), modelled on request/reqwest.rs (as in hx-c13)
pub struct LoopReq {
    path: String,
    body: Vec<u8>,
}
fn unsupported<E: FromServerFnError>(what: &str) -> E {
    E::from_server_fn_error(ServerFnErrorErr::UnsupportedRequestMethod(what.into()))
}
impl<E: FromServerFnError> ClientReq<E> for LoopReq {
    type FormData = ();
    fn try_new_req_query(path: &str, _: &str, _: &str, query: &str, _: Method) -> Result<Self, E> {
        Ok(LoopReq { path: path.into(), body: query.as_bytes().to_vec() })
    }
    fn try_new_req_text(path: &str, _: &str, _: &str, body: String, _: Method) -> Result<Self, E> {
        Ok(LoopReq { path: path.into(), body: body.into_bytes() })
    }
    fn try_new_req_bytes(path: &str, _: &str, _: &str, body: Bytes, _: Method) -> Result<Self, E> {
        Ok(LoopReq { path: path.into(), body: body.to_vec() })
    }
    fn try_new_req_form_data(_: &str, _: &str, _: &str, _: (), _: Method) -> Result<Self, E> {
        Err(unsupported("form data"))
    }
    fn try_new_req_multipart(_: &str, _: &str, _: (), _: Method) -> Result<Self, E> {
        Err(unsupported("multipart"))
    }
    fn try_new_req_streaming(
        _: &str,
        _: &str,
        _: &str,
        _: impl Stream<Item = Bytes> + Send + 'static,
        _: Method,
    ) -> Result<Self, E> {
        Err(unsupported("streaming"))
    }
}

pub struct LoopRes {
    status: u16,
    body: Bytes,
}
impl<E: FromServerFnError> ClientRes<E> for LoopRes {
    async fn try_into_string(self) -> Result<String, E> {
        String::from_utf8(self.body.to_vec())
            .map_err(|e| E::from_server_fn_error(ServerFnErrorErr::Deserialization(e.to_string())))
    }
    async fn try_into_bytes(self) -> Result<Bytes, E> {
        Ok(self.body)
    }
    fn try_into_stream(self) -> Result<impl Stream<Item = Result<Bytes, Bytes>> + Send + Sync + 'static, E> {
        Ok(futures::stream::iter(vec![Ok(self.body)]))
    }
    fn status(&self) -> u16 {
        self.status
    }
    fn status_text(&self) -> String {
        self.status.to_string()
    }
    fn location(&self) -> String {
        String::new()
    }
    fn has_redirect(&self) -> bool {
        false
    }
}

/// the client half: the "network" is a oneshot the harness resolves on `ready k v`
pub struct StagedClient;
impl<E, I, O> Client<E, I, O> for StagedClient
where
    E: FromServerFnError + Send,
    I: FromServerFnError,
    O: FromServerFnError,
{
    type Request = LoopReq;
    type Response = LoopRes;

    fn send(req: Self::Request) -> impl Future<Output = Result<Self::Response, E>> + Send {
        async move {
            // the request the wrapper built: PostUrl = form-urlencoded `x=<input>&k=<index>` to S::PATH
            let mut x = None;
            let mut k = None;
            for (key, v) in url::form_urlencoded::parse(&req.body) {
                match key.as_ref() {
                    "x" => x = v.parse::<u32>().ok(),
                    "k" => k = v.parse::<usize>().ok(),
                    _ => {}
                }
            }
            // (the Content-Type/Accept pair is not checked here: it is C13's business)
            let ok_shape = req.path == Echo::PATH;
            let staged_rx = staged(|s| {
                if !ok_shape || x.is_none() || k.is_none() {
                    s.bad_request = true;
                }
                if let (Some(x), Some(k)) = (x, k) {
                    s.seen.push((k, x));
                }
                k.and_then(|k| s.receivers.remove(&k))
            });
            let Some((rx, body_done)) = staged_rx else {
                return Err(E::from_server_fn_error(ServerFnErrorErr::Request("no receiver staged".into())));
            };
            let v = rx.await.unwrap_or(u32::MAX);
            body_done.store(true, SeqCst);
            if v < ERR_BASE {
                Ok(LoopRes { status: 200, body: Bytes::from(serde_json::to_vec(&v).unwrap()) })
            } else {
                let e: ServerFnError = ServerFnError::ServerError(v.to_string());
                Ok(LoopRes { status: 500, body: e.ser() })
            }
        }
    }

    #[allow(unreachable_code)]
    fn open_websocket(
        _path: &str,
    ) -> impl Future<
        Output = Result<
            (
                impl Stream<Item = Result<Bytes, Bytes>> + Send + 'static,
                impl futures::Sink<Result<Bytes, Bytes>> + Send + 'static,
            ),
            E,
        >,
    > + Send {
        async {
            Err::<
                (
                    futures::stream::Once<std::future::Ready<Result<Bytes, Bytes>>>,
                    futures::sink::Drain<Result<Bytes, Bytes>>,
                ),
                _,
            >(E::from_server_fn_error(ServerFnErrorErr::Request("no websocket".into())))
        }
    }

    fn spawn(_future: impl Future<Output = ()> + Send + 'static) {}
}

/// canonical number of a server action's value: `Ok(n)` = n, `Err(ServerError("<m>"))` = m (>= 1000)
fn echo_out(o: &EchoOut) -> u32 {
    match o {
        Ok(n) if *n < ERR_BASE => *n,
        Ok(n) => 2_000_000 + n, // an Ok value in the error range: never produced by the staged client
        Err(ServerFnError::ServerError(m)) => m.parse::<u32>().ok().filter(|m| *m >= ERR_BASE).unwrap_or(3_000_000),
        Err(_) => 3_000_001,
    }
}
fn echo_of(v: u32) -> EchoOut {
    if v < ERR_BASE {
        Ok(v)
    } else {
        Err(ServerFnError::ServerError(v.to_string()))
    }
}
/// the `__err` query value the server integration would hand to `ServerActionError` for this error
fn encoded_url_error(v: u32) -> String {
    let e: ServerFnError = ServerFnError::ServerError(v.to_string());
    let url = ServerFnUrlError::new(Echo::PATH, e).to_url("http://localhost/").expect("url");
    url.query_pairs().find(|(k, _)| k == "__err").map(|(_, v)| v.to_string()).expect("__err")
}

// ---- uniform access to the eight single-action flavours

type Obs = (bool, usize, Option<u32>, Option<u32>);

/// `T` as a wrapper around itself (the leptos_server wrappers are wrappers with `Deref`)
#[derive(Clone)]
struct Plain<T>(T);
impl<T> std::ops::Deref for Plain<T> {
    type Target = T;
    fn deref(&self) -> &T {
        &self.0
    }
}

trait SingleAct {
    fn dispatch(&self, local: bool, i: u32, k: usize) -> ActionAbortHandle;
    fn clear(&self);
    /// (pending, version, value, input) through the handle, all read untracked at top level
    fn read(&self) -> Obs;
    /// the same four through signals obtained NOW (under the current owner), readable later
    fn retain(&self) -> Box<dyn Fn() -> Obs>;
    /// `Dispose::dispose` of an arena handle
    fn dispose(&self);
    /// an `ImmediateEffect` that tracks `version()` (false) / `value()` (true) and calls `f` on every run
    fn watch(&self, value: bool, f: Box<dyn Fn() + Send + Sync>) -> ImmediateEffect;
}

struct Conv<I, O> {
    mk: fn(u32, usize) -> I,
    inp: fn(&I) -> u32,
    out: fn(&O) -> u32,
}
impl<I, O> Clone for Conv<I, O> {
    fn clone(&self) -> Self {
        *self
    }
}
impl<I, O> Copy for Conv<I, O> {}

struct ArcAct<W, I, O> {
    w: W,
    c: Conv<I, O>,
}
impl<W, I, O> SingleAct for ArcAct<W, I, O>
where
    W: std::ops::Deref<Target = ArcAction<I, O>> + Clone,
    I: Clone + Send + Sync + 'static,
    O: Clone + Send + Sync + 'static,
{
    fn dispatch(&self, local: bool, i: u32, k: usize) -> ActionAbortHandle {
        let input = (self.c.mk)(i, k);
        // every third dispatch goes through a clone of the (wrapper of the) action: clones share the action
        let w = self.w.clone();
        let w: &W = if k % 3 == 2 { &w } else { &self.w };
        if local {
            w.dispatch_local(input)
        } else {
            w.dispatch(input)
        }
    }
    fn clear(&self) {
        self.w.clear()
    }
    fn read(&self) -> Obs {
        (
            self.w.pending().get_untracked(),
            self.w.version().get_untracked(),
            self.w.value().get_untracked().as_ref().map(self.c.out),
            self.w.input().get_untracked().as_ref().map(self.c.inp),
        )
    }
    fn retain(&self) -> Box<dyn Fn() -> Obs> {
        let (p, ver, val, inp, c) = (self.w.pending(), self.w.version(), self.w.value(), self.w.input(), self.c);
        Box::new(move || {
            (
                p.get_untracked(),
                ver.get_untracked(),
                val.get_untracked().as_ref().map(c.out),
                inp.get_untracked().as_ref().map(c.inp),
            )
        })
    }
    fn dispose(&self) {}
    fn watch(&self, value: bool, f: Box<dyn Fn() + Send + Sync>) -> ImmediateEffect {
        if value {
            let v = SendWrapper::new(self.w.value());
            ImmediateEffect::new(move || {
                v.track();
                f()
            })
        } else {
            let v = self.w.version();
            ImmediateEffect::new(move || {
                v.track();
                f()
            })
        }
    }
}

struct ArenaAct<W, I: 'static, O: 'static> {
    w: W,
    c: Conv<I, O>,
    /// the same action through a conversion (`Action::from(server_action)`) or a copy of the handle
    alt: Action<I, O>,
}
impl<W, I, O> SingleAct for ArenaAct<W, I, O>
where
    W: std::ops::Deref<Target = Action<I, O>> + Clone,
    I: Clone + Send + Sync + 'static,
    O: Clone + Send + Sync + 'static,
{
    fn dispatch(&self, local: bool, i: u32, k: usize) -> ActionAbortHandle {
        let input = (self.c.mk)(i, k);
        // every third dispatch goes through a copy of the (wrapper of the) handle
        let w = self.w.clone();
        let w: &W = if k % 3 == 2 { &w } else { &self.w };
        if local {
            w.dispatch_local(input)
        } else {
            w.dispatch(input)
        }
    }
    fn clear(&self) {
        self.w.clear()
    }
    fn read(&self) -> Obs {
        let o = (
            self.w.pending().get_untracked(),
            self.w.version().get_untracked(),
            self.w.value().get_untracked().as_ref().map(self.c.out),
            self.w.input().get_untracked().as_ref().map(self.c.inp),
        );
        let a = (
            self.alt.pending().get_untracked(),
            self.alt.version().get_untracked(),
            self.alt.value().get_untracked().as_ref().map(self.c.out),
            self.alt.input().get_untracked().as_ref().map(self.c.inp),
        );
        if o != a {
            VIEW_MISMATCH.store(true, SeqCst);
        }
        o
    }
    fn retain(&self) -> Box<dyn Fn() -> Obs> {
        let (p, ver, val, inp, c) = (self.w.pending(), self.w.version(), self.w.value(), self.w.input(), self.c);
        Box::new(move || {
            (
                p.get_untracked(),
                ver.get_untracked(),
                val.get_untracked().as_ref().map(c.out),
                inp.get_untracked().as_ref().map(c.inp),
            )
        })
    }
    fn dispose(&self) {
        let a: Action<I, O> = *self.w;
        a.dispose()
    }
    fn watch(&self, value: bool, f: Box<dyn Fn() + Send + Sync>) -> ImmediateEffect {
        if value {
            let v = SendWrapper::new(self.w.value());
            ImmediateEffect::new(move || {
                v.track();
                f()
            })
        } else {
            let v = self.w.version();
            ImmediateEffect::new(move || {
                v.track();
                f()
            })
        }
    }
}

const PLAIN: Conv<u32, u32> = Conv { mk: |i, _| i, inp: |i| *i, out: |o| *o };
const ECHO: Conv<Echo, EchoOut> = Conv { mk: |x, k| Echo { x, k }, inp: |e| e.x, out: echo_out };

fn new_single(kind: Kind, v0: Option<u32>, slot: SharedSlot) -> Box<dyn SingleAct> {
    let f = action_fn(slot);
    match kind {
        Kind::Arc | Kind::ArcLocal => Box::new(ArcAct { w: Plain(ArcAction::new_with_value(v0, f)), c: PLAIN }),
        Kind::ArcUnsync => Box::new(ArcAct { w: Plain(ArcAction::new_unsync_with_value(v0, f)), c: PLAIN }),
        Kind::Arena => {
            let a = Action::new_with_value(v0, f);
            Box::new(ArenaAct { w: Plain(a), c: PLAIN, alt: a })
        },
        Kind::ArenaLocal => {
            let a = Action::new_local_with_value(v0, f);
            Box::new(ArenaAct { w: Plain(a), c: PLAIN, alt: a })
        },
        Kind::ArenaUnsync => {
            let a = Action::new_unsync_with_value(v0, f);
            Box::new(ArenaAct { w: Plain(a), c: PLAIN, alt: a })
        },
        Kind::ArenaUnsyncLocal => {
            {
            let a = Action::new_unsync_local_with_value(v0, f);
            Box::new(ArenaAct { w: Plain(a), c: PLAIN, alt: a })
        }
        }
        // the wrappers read their initial (error) value from a `ServerActionError` context
        Kind::ServerArc => Box::new(ArcAct { w: ArcServerAction::<Echo>::new(), c: ECHO }),
        Kind::ServerArena => {
            let a = ServerAction::<Echo>::new();
            Box::new(ArenaAct { w: a, c: ECHO, alt: Action::from(a) })
        }
        Kind::ServerArcXpath => Box::new(ArcAct { w: ArcServerAction::<Echo>::default(), c: ECHO }),
        Kind::ServerArenaXpath => {
            let a = ServerAction::<Echo>::default();
            Box::new(ArenaAct { w: a, c: ECHO, alt: Action::from(a) })
        }
        _ => unreachable!(),
    }
}

// ---- the four multi-action flavours

type SubRec = (Option<u32>, Option<u32>, bool, bool);
type MObs = (usize, Vec<SubRec>);

trait MultiAct {
    fn dispatch(&self, i: u32, k: usize);
    fn dispatch_sync(&self, v: u32);
    fn cancel(&self, s: usize);
    fn read(&self) -> MObs;
    fn retain(&self) -> Box<dyn Fn() -> MObs>;
    /// `cancel` through the submissions signal obtained NOW (usable after the handle is disposed)
    fn retain_cancel(&self) -> Box<dyn Fn(usize)>;
    fn dispose(&self);
}

/// set when two views of the same record (or of the same action) disagree
static VIEW_MISMATCH: AtomicBool = AtomicBool::new(false);

/// the record through every view there is: the `ArcSubmission` itself, `Submission::from` (arena,
/// `SyncStorage`) and `Submission::from_local` (arena, `LocalStorage`); they must agree
fn read_arc_sub<I, O>(s: &ArcSubmission<I, O>, c: Conv<I, O>) -> SubRec
where
    I: Clone + Send + Sync + 'static,
    O: Clone + Send + Sync + 'static,
{
    let arc = (
        s.input().get_untracked().as_ref().map(c.inp),
        s.value().get_untracked().as_ref().map(c.out),
        s.pending().get_untracked(),
        s.canceled().get_untracked(),
    );
    let sy = Submission::from(s.clone());
    let sync = (
        sy.input().get_untracked().as_ref().map(c.inp),
        sy.value().get_untracked().as_ref().map(c.out),
        sy.pending().get_untracked(),
        sy.canceled().get_untracked(),
    );
    let lo = Submission::<I, O, LocalStorage>::from_local(s.clone());
    let local = (
        lo.input().get_untracked().as_ref().map(c.inp),
        lo.value().get_untracked().as_ref().map(c.out),
        lo.pending().get_untracked(),
        lo.canceled().get_untracked(),
    );
    if arc != sync || arc != local {
        VIEW_MISMATCH.store(true, SeqCst);
    }
    arc
}

/// `cancel` through the view chosen by the record's index
fn cancel_via<I, O>(sub: &ArcSubmission<I, O>, s: usize)
where
    I: Clone + Send + Sync + 'static,
    O: Clone + Send + Sync + 'static,
{
    match s % 3 {
        0 => sub.cancel(),
        1 => Submission::from(sub.clone()).cancel(),
        _ => Submission::<I, O, LocalStorage>::from_local(sub.clone()).cancel(),
    }
}

struct ArcMulti<W, I, O> {
    w: W,
    c: Conv<I, O>,
    of: fn(u32) -> O,
}
impl<W, I, O> MultiAct for ArcMulti<W, I, O>
where
    W: std::ops::Deref<Target = ArcMultiAction<I, O>>,
    I: Clone + Send + Sync + 'static,
    O: Clone + Send + Sync + 'static,
{
    fn dispatch(&self, i: u32, k: usize) {
        self.w.dispatch((self.c.mk)(i, k))
    }
    fn dispatch_sync(&self, v: u32) {
        self.w.dispatch_sync((self.of)(v))
    }
    fn cancel(&self, s: usize) {
        if let Some(sub) = self.w.submissions().get_untracked().get(s) {
            cancel_via(sub, s)
        }
    }
    fn read(&self) -> MObs {
        let subs = self.w.submissions().get_untracked();
        (self.w.version().get_untracked(), subs.iter().map(|s| read_arc_sub(s, self.c)).collect())
    }
    fn retain(&self) -> Box<dyn Fn() -> MObs> {
        let (subs, ver, c) = (self.w.submissions(), self.w.version(), self.c);
        Box::new(move || (ver.get_untracked(), subs.get_untracked().iter().map(|s| read_arc_sub(s, c)).collect()))
    }
    fn retain_cancel(&self) -> Box<dyn Fn(usize)> {
        let subs = self.w.submissions();
        Box::new(move |s| {
            if let Some(sub) = subs.get_untracked().get(s) {
                cancel_via(sub, s)
            }
        })
    }
    fn dispose(&self) {}
}

struct ArenaMulti<W, I: 'static, O: 'static> {
    w: W,
    c: Conv<I, O>,
    of: fn(u32) -> O,
}
impl<W, I, O> MultiAct for ArenaMulti<W, I, O>
where
    W: std::ops::Deref<Target = MultiAction<I, O>>,
    I: Clone + Send + Sync + 'static,
    O: Clone + Send + Sync + 'static,
{
    fn dispatch(&self, i: u32, k: usize) {
        self.w.dispatch((self.c.mk)(i, k))
    }
    fn dispatch_sync(&self, v: u32) {
        self.w.dispatch_sync((self.of)(v))
    }
    fn cancel(&self, s: usize) {
        if let Some(sub) = self.w.submissions().get_untracked().get(s) {
            cancel_via(sub, s)
        }
    }
    fn read(&self) -> MObs {
        let subs = self.w.submissions().get_untracked();
        (self.w.version().get_untracked(), subs.iter().map(|s| read_arc_sub(s, self.c)).collect())
    }
    fn retain(&self) -> Box<dyn Fn() -> MObs> {
        let (subs, ver, c) = (self.w.submissions(), self.w.version(), self.c);
        Box::new(move || (ver.get_untracked(), subs.get_untracked().iter().map(|s| read_arc_sub(s, c)).collect()))
    }
    fn retain_cancel(&self) -> Box<dyn Fn(usize)> {
        let subs = self.w.submissions();
        Box::new(move |s| {
            if let Some(sub) = subs.get_untracked().get(s) {
                cancel_via(sub, s)
            }
        })
    }
    fn dispose(&self) {
        let a: MultiAction<I, O> = *self.w;
        a.dispose()
    }
}

fn new_multi(kind: Kind, slot: SharedSlot) -> Box<dyn MultiAct> {
    let f = action_fn(slot);
    let id: fn(u32) -> u32 = |v| v;
    match kind {
        Kind::MultiArc => Box::new(ArcMulti { w: Plain(ArcMultiAction::new(f)), c: PLAIN, of: id }),
        Kind::MultiArena => Box::new(ArenaMulti { w: Plain(MultiAction::new(f)), c: PLAIN, of: id }),
        Kind::ServerMultiArc => Box::new(ArcMulti { w: ArcServerMultiAction::<Echo>::new(), c: ECHO, of: echo_of }),
        Kind::ServerMultiArena => Box::new(ArenaMulti { w: ServerMultiAction::<Echo>::new(), c: ECHO, of: echo_of }),
        _ => unreachable!(),
    }
}

// ------------------------------------------------------------------ the property's oracle (from scratch)

/// resolved history of a single-action case: ops as issued, polls resolved to the task id polled
#[derive(Clone, Debug)]
enum H {
    /// (input, through `dispatch_local`?, the future is already resolved to this value)
    Dispatch(u32, bool, Option<u32>),
    Suppress(bool),
    /// the arena handle is disposed (explicitly or by clean-up of its owner)
    Dispose,
    /// the executor polls a task inline when it is spawned
    Eager(bool),
    /// a synchronous observer of `version` (false) / `value` (true) that dispatches `input` again, `budget` times
    Hook(bool, u32, u32),
    Abort(usize),
    Drop(usize),
    Ready(usize, u32),
    /// task id
    Polled(usize),
    Clear,
}

#[derive(PartialEq, Clone, Copy)]
enum Fate {
    Running,
    Completed,
    Aborted,
}

struct Rec {
    handle_used: bool,
    /// position in the history of the effective abort / ready
    abort_at: Option<usize>,
    ready_at: Option<(usize, u32)>,
    fate: Fate,
}

struct Exp {
    pending: bool,
    version: usize,
    value: Option<u32>,
    input: Option<u32>,
    /// every unfinished dispatch has neither been resolved nor aborted
    untouched: bool,
    max_overlap: usize,
    tags: BTreeSet<&'static str>,
}

/// the from-scratch evaluator's state: one record per dispatch, nothing incremental about
/// pending / version / input (they are recomputed from the records at the end)
struct Ev {
    suppress: bool,
    disposed: bool,
    eager: bool,
    /// (budget, input) of the observer of `version` / of `value`
    hooks: [(u32, u32); 2],
    recs: Vec<Rec>,
    value: Option<u32>,
    last_input: Option<u32>,
    completion_order: Vec<usize>,
    locals: (bool, bool),
    tags: BTreeSet<&'static str>,
}
impl Ev {
    /// a dispatch that takes effect: a new record; under the eager executor its task is polled at once
    fn spawn(&mut self, pos: usize, i: u32, ready: Option<u32>) {
        self.recs.push(Rec { handle_used: false, abort_at: None, ready_at: ready.map(|v| (pos, v)), fate: Fate::Running });
        self.last_input = Some(i);
        if self.eager {
            self.tags.insert("eager-spawn");
            let id = self.recs.len() - 1;
            self.poll(id);
        }
    }
    /// the observer of `version` (0) / `value` (1) is notified: it dispatches again while it has budget
    /// (the harness's observer does nothing through a disposed handle)
    fn notify(&mut self, which: usize, pos: usize) {
        if self.disposed || self.hooks[which].0 == 0 {
            return;
        }
        self.hooks[which].0 -= 1;
        let i = self.hooks[which].1;
        if self.suppress {
            self.tags.insert("suppressed-dispatch");
        } else {
            self.tags.insert(if which == 0 { "reentrant-on-version" } else { "reentrant-on-value" });
            self.spawn(pos, i, None);
        }
    }
    fn poll(&mut self, id: usize) {
        let Some(r) = self.recs.get_mut(id) else { return };
        if r.fate != Fate::Running {
            return;
        }
        match (r.abort_at, r.ready_at) {
            (Some(a), ready) => {
                if let Some((rd, _)) = ready {
                    self.tags.insert(if a < rd { "race-abort-first" } else { "race-ready-first" });
                }
                r.fate = Fate::Aborted;
                self.tags.insert("abort-before-ready");
            }
            (None, Some((pos, v))) => {
                r.fate = Fate::Completed;
                self.completion_order.push(id);
                // the completion publishes version, then value: their observers run in between
                self.notify(0, pos);
                self.value = Some(v);
                self.notify(1, pos);
            }
            (None, None) => {}
        }
    }
}

/// The property, evaluated on the history alone: a dispatch is aborted when a poll of its task
/// saw the abort message (whether or not its result was available too), finished when a poll saw
/// its result and no abort message; pending = some dispatch neither finished nor aborted; version = number finished;
/// value = result of the most recently finished one (or None after a later `clear`);
/// input = latest dispatched input while pending, None otherwise. A dispatch made while resource
/// loading is suppressed, or through a disposed handle, is no dispatch; `clear` through a disposed
/// handle does nothing; dispatches in flight at disposal go on being accounted for. Under the eager
/// executor a task gets its first poll inside `dispatch`. A synchronous observer of `version` /
/// `value` that dispatches again adds a dispatch at the moment of the write it observes.
fn eval_single(v0: Option<u32>, hist: &[H]) -> Exp {
    let mut e = Ev {
        suppress: false,
        disposed: false,
        eager: false,
        hooks: [(0, 0); 2],
        recs: vec![],
        value: v0,
        last_input: None,
        completion_order: vec![],
        locals: (false, false),
        tags: BTreeSet::new(),
    };
    let mut max_overlap = 0;
    for (pos, h) in hist.iter().enumerate() {
        match *h {
            H::Dispatch(i, local, ready) => {
                if e.disposed {
                    e.tags.insert("dispatch-after-dispose");
                } else if e.suppress {
                    e.tags.insert("suppressed-dispatch");
                } else {
                    if local {
                        e.locals.1 = true;
                        e.tags.insert("dispatch-local");
                    } else {
                        e.locals.0 = true;
                    }
                    if ready.is_some() {
                        e.tags.insert("ready-at-first-poll");
                    }
                    e.spawn(pos, i, ready);
                }
            }
            H::Suppress(b) => e.suppress = b,
            H::Eager(b) => e.eager = b,
            H::Hook(value, budget, input) => e.hooks[value as usize] = (budget, input),
            H::Dispose => {
                if !e.disposed {
                    e.tags.insert(if e.recs.iter().any(|r| r.fate == Fate::Running) { "dispose-in-flight" } else { "dispose-idle" });
                }
                e.disposed = true;
            }
            H::Abort(k) => {
                if let Some(r) = e.recs.get_mut(k) {
                    if !r.handle_used {
                        r.handle_used = true;
                        if r.fate == Fate::Running {
                            r.abort_at = Some(pos);
                        } else {
                            e.tags.insert("abort-after-ready");
                        }
                    }
                }
            }
            H::Drop(k) => {
                if let Some(r) = e.recs.get_mut(k) {
                    if !r.handle_used {
                        r.handle_used = true;
                        e.tags.insert("drop-handle");
                    }
                }
            }
            H::Ready(k, v) => {
                if let Some(r) = e.recs.get_mut(k) {
                    if r.fate == Fate::Running && r.ready_at.is_none() {
                        r.ready_at = Some((pos, v));
                    }
                }
            }
            H::Polled(id) => e.poll(id),
            H::Clear => {
                if e.disposed {
                    e.tags.insert("clear-after-dispose");
                } else {
                    e.tags.insert(if e.recs.iter().any(|r| r.fate == Fate::Running) { "clear-while-pending" } else { "clear" });
                    e.value = None;
                    e.notify(1, pos);
                }
            }
        }
        max_overlap = max_overlap.max(e.recs.iter().filter(|r| r.fate == Fate::Running).count());
    }
    let mut tags = e.tags;
    if e.completion_order.windows(2).any(|w| w[0] > w[1]) {
        tags.insert("out-of-order");
    }
    if e.locals == (true, true) {
        tags.insert("mixed-dispatch-local");
    }
    if e.disposed && !e.completion_order.is_empty() && tags.contains("dispose-in-flight") {
        tags.insert("completed-after-dispose");
    }
    let recs = e.recs;
    let pending = recs.iter().any(|r| r.fate == Fate::Running);
    Exp {
        pending,
        version: recs.iter().filter(|r| r.fate == Fate::Completed).count(),
        value: e.value,
        input: if pending { e.last_input } else { None },
        untouched: recs
            .iter()
            .all(|r| r.fate != Fate::Running || (r.abort_at.is_none() && r.ready_at.is_none())),
        max_overlap,
        tags,
    }
}

#[derive(Clone, Debug)]
enum MH {
    /// (input, the future is already resolved to this value)
    Dispatch(u32, Option<u32>),
    Eager(bool),
    Suppress(bool),
    Dispose,
    DSync(u32),
    Cancel(usize),
    Ready(usize, u32),
    Polled(usize),
}

struct T {
    sub: usize,
    result: Option<u32>,
    done: bool,
}

/// one record per dispatch, each a function of its own dispatch / cancel / completion only
fn eval_multi(hist: &[MH]) -> (usize, Vec<SubRec>, BTreeSet<&'static str>) {
    let mut subs: Vec<SubRec> = vec![];
    let mut tasks: Vec<T> = vec![];
    let mut version = 0;
    let mut tags = BTreeSet::new();
    let (mut suppress, mut disposed, mut eager) = (false, false, false);
    // a poll of task `id` that finds its result finishes the task's own record
    fn poll(tasks: &mut [T], subs: &mut [SubRec], version: &mut usize, id: usize) {
        if let Some(t) = tasks.get_mut(id) {
            if let (false, Some(v)) = (t.done, t.result) {
                t.done = true;
                let r = &mut subs[t.sub];
                *r = (None, if r.3 { None } else { Some(v) }, false, r.3);
                *version += 1;
            }
        }
    }
    for h in hist {
        match *h {
            MH::Dispatch(i, ready) => {
                if disposed {
                    tags.insert("dispatch-after-dispose");
                } else if suppress {
                    tags.insert("suppressed-dispatch");
                } else {
                    tasks.push(T { sub: subs.len(), result: ready, done: false });
                    subs.push((Some(i), None, true, false));
                    if ready.is_some() {
                        tags.insert("ready-at-first-poll");
                    }
                    if eager {
                        tags.insert("eager-spawn");
                        let id = tasks.len() - 1;
                        poll(&mut tasks, &mut subs, &mut version, id);
                    }
                }
            }
            MH::Eager(b) => eager = b,
            MH::Suppress(b) => suppress = b,
            MH::Dispose => {
                if !disposed {
                    tags.insert(if tasks.iter().any(|t| !t.done) { "dispose-in-flight" } else { "dispose-idle" });
                }
                disposed = true;
            }
            MH::DSync(v) => {
                if disposed {
                    tags.insert("dispatch-after-dispose");
                } else {
                    subs.push((None, Some(v), false, false));
                    version += 1;
                    tags.insert("dsync");
                }
            }
            MH::Cancel(s) => {
                if let Some(r) = subs.get_mut(s) {
                    tags.insert(if r.2 { "cancel-while-pending" } else { "cancel-after-done" });
                    r.3 = true;
                }
            }
            MH::Ready(t, v) => {
                if let Some(t) = tasks.get_mut(t) {
                    if !t.done && t.result.is_none() {
                        t.result = Some(v);
                    }
                }
            }
            MH::Polled(id) => poll(&mut tasks, &mut subs, &mut version, id),
        }
    }
    if tasks.iter().filter(|t| !t.done).count() >= 2 {
        tags.insert("overlap");
    }
    (version, subs, tags)
}

// ------------------------------------------------------------------ one live case

/// what the observers (`ImmediateEffect`s) share with the case: they dispatch from inside a signal
/// write, i.e. from inside a task poll or inside `clear`, while `Live` is borrowed
struct Shared {
    server: bool,
    slot: SharedSlot,
    /// index the next spawned task will have
    next_k: Cell<usize>,
    suppress: Cell<bool>,
    disposed: Cell<bool>,
    /// dispatches made by the observers, not yet entered into the case's tables
    queue: RefCell<Vec<Nested>>,
}
struct Nested {
    input: u32,
    /// None: the dispatch was made while suppressed (nothing staged)
    staged: Option<(oneshot::Sender<u32>, Arc<AtomicBool>)>,
    handle: ActionAbortHandle,
}
impl Shared {
    /// stage the receiver the next dispatch's future will wait on
    fn stage(&self) -> (usize, oneshot::Sender<u32>, Arc<AtomicBool>) {
        let (tx, rx) = oneshot::channel::<u32>();
        let flag = Arc::new(AtomicBool::new(false));
        let k = self.next_k.get();
        self.next_k.set(k + 1);
        if self.server {
            staged(|s| s.receivers.insert(k, (rx, flag.clone())));
        } else {
            self.slot.lock().unwrap().next = Some((rx, flag.clone()));
        }
        (k, tx, flag)
    }
}

struct Live {
    kind: Kind,
    v0: Option<u32>,
    started: bool,
    torn: bool,
    single: Option<Rc<dyn SingleAct>>,
    shared: Rc<Shared>,
    /// the observers installed by `hook` (version, value)
    effects: [Option<ImmediateEffect>; 2],
    eager: bool,
    multi: Option<Box<dyn MultiAct>>,
    /// signals obtained under `outer` when the action was created: they survive the disposal of the handle
    retained: Option<Box<dyn Fn() -> Obs>>,
    mretained: Option<Box<dyn Fn() -> MObs>>,
    mcancel: Option<Box<dyn Fn(usize)>>,
    /// stays alive for the whole case; observers live here
    outer: Option<Owner>,
    /// child of `outer`; the action is created under it; `cleanup` cleans it up
    inner: Option<Owner>,
    /// the harness's own record of what it did (not of what the action did)
    suppress: bool,
    disposed: bool,
    slot: SharedSlot,
    inputs: Vec<u32>,
    senders: Vec<Option<oneshot::Sender<u32>>>,
    handles: Vec<Option<ActionAbortHandle>>,
    body_done: Vec<Arc<AtomicBool>>,
    task_done: Vec<bool>,
    abort_live: Vec<bool>,
    fn_input_ok: bool,
    /// a poll that saw the abort message let the future's arm run (F-C17-1 regression)
    abort_lost: bool,
    /// the handle and the signals obtained earlier disagree
    retained_mismatch: Cell<bool>,
    hist: Vec<H>,
    mhist: Vec<MH>,
}

fn opt(v: Option<u32>) -> String {
    v.map(|v| v.to_string()).unwrap_or_else(|| "-".into())
}
fn val(server: bool, v: Option<u32>) -> String {
    match v {
        Some(v) if server && v >= ERR_BASE => format!("E{v}"),
        v => opt(v),
    }
}

impl Live {
    fn new() -> Self {
        sched::reset();
        suppress_resource_load(false);
        *STAGED.lock().unwrap() = None;
        VIEW_MISMATCH.store(false, SeqCst);
        Live {
            kind: Kind::Arc,
            v0: None,
            started: false,
            torn: false,
            single: None,
            shared: Rc::new(Shared {
                server: false,
                slot: Default::default(),
                next_k: Cell::new(0),
                suppress: Cell::new(false),
                disposed: Cell::new(false),
                queue: RefCell::new(vec![]),
            }),
            effects: [None, None],
            eager: false,
            multi: None,
            retained: None,
            mretained: None,
            mcancel: None,
            outer: None,
            inner: None,
            suppress: false,
            disposed: false,
            slot: Default::default(),
            inputs: vec![],
            senders: vec![],
            handles: vec![],
            body_done: vec![],
            task_done: vec![],
            abort_live: vec![],
            fn_input_ok: true,
            abort_lost: false,
            retained_mismatch: Cell::new(false),
            hist: vec![],
            mhist: vec![],
        }
    }
    fn drop_action(&mut self) {
        self.effects = [None, None];
        self.shared.queue.borrow_mut().clear();
        self.single = None;
        self.multi = None;
        self.retained = None;
        self.mretained = None;
        self.mcancel = None;
        if let Some(o) = self.inner.take() {
            o.cleanup();
        }
        if let Some(o) = self.outer.take() {
            o.cleanup();
            o.unset();
        }
    }
    fn teardown(&mut self) {
        if self.torn {
            return;
        }
        self.torn = true;
        sched::reset();
        suppress_resource_load(false);
        self.handles.clear();
        self.senders.clear();
        self.drop_action();
        *STAGED.lock().unwrap() = None;
    }
    fn is_multi(&self) -> bool {
        self.kind.is_multi()
    }
    fn ensure(&mut self) {
        if self.single.is_some() || self.multi.is_some() {
            return;
        }
        let outer = Owner::new();
        outer.set();
        let inner = outer.with(Owner::new);
        let (kind, v0, slot) = (self.kind, self.v0, self.slot.clone());
        self.shared = Rc::new(Shared {
            server: kind.is_server(),
            slot: slot.clone(),
            next_k: Cell::new(0),
            suppress: Cell::new(false),
            disposed: Cell::new(false),
            queue: RefCell::new(vec![]),
        });
        if kind.is_multi() {
            let m = inner.with(|| new_multi(kind, slot));
            self.mretained = Some(outer.with(|| m.retain()));
            self.mcancel = Some(outer.with(|| m.retain_cancel()));
            self.multi = Some(m);
        } else {
            let a = inner.with(|| {
                if let (true, Some(e)) = (kind.is_server(), v0) {
                    // what the server integration provides after a failed <form> POST was redirected back
                    let path = if matches!(kind, Kind::ServerArcXpath | Kind::ServerArenaXpath) {
                        "/api/some_other_fn"
                    } else {
                        Echo::PATH
                    };
                    provide_context(ServerActionError::new(path, &encoded_url_error(e)));
                }
                new_single(kind, v0, slot)
            });
            self.retained = Some(outer.with(|| a.retain()));
            self.single = Some(Rc::from(a));
        }
        self.outer = Some(outer);
        self.inner = Some(inner);
    }
    /// the initial value the property expects
    fn spec_v0(&self) -> Option<u32> {
        if matches!(self.kind, Kind::ServerArcXpath | Kind::ServerArenaXpath) {
            None
        } else {
            self.v0
        }
    }

    fn stage(&mut self, i: u32) -> usize {
        let (k, tx, flag) = self.shared.stage();
        debug_assert_eq!(k, self.senders.len());
        self.inputs.push(i);
        self.senders.push(Some(tx));
        self.body_done.push(flag);
        self.task_done.push(false);
        self.abort_live.push(false);
        k
    }
    /// enter the dispatches the observers made during the last op into the case's tables
    fn drain_nested(&mut self) {
        let nested: Vec<Nested> = std::mem::take(&mut *self.shared.queue.borrow_mut());
        for n in nested {
            match n.staged {
                Some((tx, flag)) => {
                    self.inputs.push(n.input);
                    self.senders.push(Some(tx));
                    self.body_done.push(flag);
                    self.task_done.push(false);
                    self.abort_live.push(false);
                    self.handles.push(Some(n.handle));
                }
                None => n.handle.abort(),
            }
        }
        // tasks polled inline by the eager executor
        for k in 0..self.task_done.len() {
            if !self.task_done[k] && sched::is_done(k) {
                self.task_done[k] = true;
            }
        }
    }
    /// the action function was called for dispatch `k` with its input (and took the staged receiver)
    fn after_dispatch(&mut self, k: usize, i: u32) {
        if !self.kind.is_server() {
            let s = self.slot.lock().unwrap();
            if s.next.is_some() || s.seen.get(k) != Some(&i) {
                self.fn_input_ok = false;
            }
        }
    }
    /// server kinds: every request the client half saw carries the input of its dispatch
    fn requests_ok(&self) -> bool {
        !self.kind.is_server()
            || staged(|s| !s.bad_request && s.seen.iter().all(|(k, x)| self.inputs.get(*k) == Some(x)))
    }
    fn send_ready(&mut self, k: usize, v: u32) {
        if k < self.senders.len() && !self.task_done[k] {
            if let Some(tx) = self.senders[k].take() {
                let _ = tx.send(v);
            }
        }
    }
    /// poll the j-th ready task
    fn poll_nth(&mut self, j: usize) {
        let r = sched::ready();
        if r.is_empty() {
            return;
        }
        let id = r[j % r.len()];
        // the abort message was visible at this poll (sent on a live handle to a live task)
        let abort_visible = !self.is_multi() && id < self.task_done.len() && self.abort_live[id] && !self.task_done[id];
        let done = sched::poll(id);
        if id < self.task_done.len() {
            self.task_done[id] = done;
        }
        if self.is_multi() {
            self.mhist.push(MH::Polled(id));
        } else {
            self.hist.push(H::Polled(id));
            // independent of the action's state: the harness's own future ran to completion
            // although the abort arm was ready ⇒ the select is not biased to the abort arm
            if abort_visible && self.body_done[id].load(SeqCst) {
                self.abort_lost = true;
            }
        }
    }
    fn run_idle(&mut self) {
        for _ in 0..100_000 {
            if sched::ready().is_empty() {
                break;
            }
            self.poll_nth(0);
        }
    }

    /// a synchronous observer (`ImmediateEffect`) of `version()` / `value()` that dispatches `input`
    /// again each time the signal is written, `budget` times: a retry pattern. It runs INSIDE the
    /// write, i.e. inside the completion step of a task (or inside `clear`).
    fn install_hook(&mut self, value: bool, budget: u32, input: u32) {
        self.effects[value as usize] = None;
        if budget == 0 {
            return;
        }
        let act = SendWrapper::new(self.single.clone().unwrap());
        let shared = SendWrapper::new(self.shared.clone());
        let left = Arc::new(std::sync::atomic::AtomicU32::new(budget));
        let first = AtomicBool::new(true);
        let react = move || {
            // the first run only subscribes
            if first.swap(false, SeqCst) {
                return;
            }
            // (through a disposed arena handle `dispatch` would panic inside the signal write)
            if shared.disposed.get() || left.load(SeqCst) == 0 {
                return;
            }
            left.fetch_sub(1, SeqCst);
            let staged = if shared.suppress.get() { None } else { Some(shared.stage()) };
            let k = staged.as_ref().map(|s| s.0).unwrap_or(shared.next_k.get());
            let handle = act.dispatch(false, input, k);
            shared.queue.borrow_mut().push(Nested { input, staged: staged.map(|(_, tx, flag)| (tx, flag)), handle });
        };
        let act2 = self.single.clone().unwrap();
        let outer = self.outer.clone().unwrap();
        self.effects[value as usize] = Some(outer.with(|| act2.watch(value, Box::new(react))));
    }

    fn obs(&self) -> String {
        let rl = sched::ready().len();
        let server = self.kind.is_server();
        if let Some(m) = &self.multi {
            let kept = (self.mretained.as_ref().unwrap())();
            let (ver, subs) = if self.disposed {
                kept
            } else {
                let now = m.read();
                if now != kept {
                    self.retained_mismatch.set(true);
                }
                now
            };
            let (ever, esubs, _) = eval_multi(&self.mhist);
            let verdict = if ver != ever {
                "fail multi-version"
            } else if subs != esubs {
                "fail multi-record"
            } else if !self.fn_input_ok || !self.requests_ok() {
                "fail fn-input"
            } else if self.retained_mismatch.get() {
                "fail retained"
            } else if VIEW_MISMATCH.load(SeqCst) {
                "fail view"
            } else {
                "ok"
            };
            let show = subs
                .iter()
                .map(|(i, v, p, c)| format!("{}:{}:{}:{}", opt(*i), val(server, *v), *p as u8, *c as u8))
                .collect::<Vec<_>>()
                .join(";");
            format!("ver={ver} subs=[{show}] rl={rl} ## {verdict}")
        } else {
            let kept = (self.retained.as_ref().unwrap())();
            let (p, ver, v, inp) = if self.disposed {
                kept
            } else {
                let now = self.single.as_ref().unwrap().read();
                if now != kept {
                    self.retained_mismatch.set(true);
                }
                now
            };
            let e = eval_single(self.spec_v0(), &self.hist);
            let verdict = if self.abort_lost {
                "fail abort-race"
            } else if p != e.pending {
                "fail pending"
            } else if ver != e.version {
                "fail version"
            } else if v != e.value {
                "fail value"
            } else if inp != e.input {
                "fail input"
            } else if rl == 0 && !e.untouched {
                "fail idle-unfinished"
            } else if !self.fn_input_ok || !self.requests_ok() {
                "fail fn-input"
            } else if self.retained_mismatch.get() {
                "fail retained"
            } else if VIEW_MISMATCH.load(SeqCst) {
                "fail view"
            } else {
                "ok"
            };
            format!("p={} ver={ver} val={} in={} rl={rl} ## {verdict}", p as u8, val(server, v), opt(inp))
        }
    }

    fn apply(&mut self, line: &str) -> String {
        let w: Vec<&str> = line.split_whitespace().collect();
        let num = |s: &str| s.parse::<u32>().ok();
        let idx = |s: &str| s.parse::<usize>().ok();
        const BAD: &str = "bad-op";
        let bad = || BAD.to_string();
        match w.as_slice() {
            ["kind", k] | ["kind", k, _] => {
                let Some(kind) = kind_of(k) else { return bad() };
                if self.started {
                    return bad();
                }
                let v0 = if w.len() == 3 {
                    let Some(v) = num(w[2]) else { return bad() };
                    if kind.is_multi() || (kind.is_server() && v < ERR_BASE) {
                        return bad();
                    }
                    Some(v)
                } else {
                    None
                };
                // (a rejected op may already have created the default action)
                self.drop_action();
                self.kind = kind;
                self.v0 = v0;
                self.started = true;
                self.ensure();
                return line.split_whitespace().collect::<Vec<_>>().join(" ");
            }
            _ => {}
        }
        self.ensure();
        let arena = self.kind.is_arena();
        let mut prefix = "";
        match w.as_slice() {
            ["suppress", b] => {
                let b = match *b {
                    "0" => false,
                    "1" => true,
                    _ => return bad(),
                };
                suppress_resource_load(b);
                self.suppress = b;
                self.shared.suppress.set(b);
                if self.is_multi() {
                    self.mhist.push(MH::Suppress(b));
                } else {
                    self.hist.push(H::Suppress(b));
                }
            }
            ["dispose"] | ["cleanup"] => {
                let explicit = w[0] == "dispose";
                if explicit && !arena {
                    return bad();
                }
                if explicit {
                    if let Some(a) = &self.single {
                        a.dispose()
                    }
                    if let Some(m) = &self.multi {
                        m.dispose()
                    }
                } else if let Some(o) = &self.inner {
                    o.cleanup();
                }
                if arena {
                    self.disposed = true;
                    self.shared.disposed.set(true);
                    if self.is_multi() {
                        self.mhist.push(MH::Dispose);
                    } else {
                        self.hist.push(H::Dispose);
                    }
                }
            }
            ["eager", b] => {
                let b = match *b {
                    "0" => false,
                    "1" => true,
                    _ => return bad(),
                };
                sched::set_eager(b);
                self.eager = b;
                if self.is_multi() {
                    self.mhist.push(MH::Eager(b));
                } else {
                    self.hist.push(H::Eager(b));
                }
            }
            ["hook", tr, b, i] if !self.is_multi() => {
                let value = match *tr {
                    "version" => false,
                    "value" => true,
                    _ => return bad(),
                };
                let (Some(budget), Some(input)) = (num(b), num(i)) else { return bad() };
                self.install_hook(value, budget, input);
                self.hist.push(H::Hook(value, budget, input));
            }
            ["obs"] => {}
            ["idle"] => self.run_idle(),
            ["poll", j] => {
                let Some(j) = idx(j) else { return bad() };
                self.poll_nth(j);
            }
            ["ready", k, v] => {
                let (Some(k), Some(v)) = (idx(k), num(v)) else { return bad() };
                self.send_ready(k, v);
                if self.is_multi() {
                    self.mhist.push(MH::Ready(k, v));
                } else {
                    self.hist.push(H::Ready(k, v));
                }
            }
            _ if self.is_multi() => match w.as_slice() {
                ["dispatch", i] | ["dispatchr", i, _] => {
                    let Some(i) = num(i) else { return bad() };
                    let ready = if w.len() == 3 {
                        let Some(v) = num(w[2]) else { return bad() };
                        Some(v)
                    } else {
                        None
                    };
                    // what the harness expects from its own ops; if the real code spawns anyway,
                    // its action function finds nothing staged
                    let expect_spawn = !self.suppress && !self.disposed;
                    let k = if expect_spawn { self.stage(i) } else { self.senders.len() };
                    if let (true, Some(v)) = (expect_spawn, ready) {
                        // the future is resolved before it is ever polled
                        let _ = self.senders[k].take().unwrap().send(v);
                    }
                    self.multi.as_ref().unwrap().dispatch(i, k);
                    if expect_spawn {
                        self.after_dispatch(k, i);
                    }
                    self.mhist.push(MH::Dispatch(i, ready));
                }
                ["dsync", v] => {
                    let Some(v) = num(v) else { return bad() };
                    self.multi.as_ref().unwrap().dispatch_sync(v);
                    self.mhist.push(MH::DSync(v));
                }
                ["cancel", s] => {
                    let Some(s) = idx(s) else { return bad() };
                    // after disposal `submissions()` through the handle panics: use the retained records
                    if !self.disposed {
                        self.multi.as_ref().unwrap().cancel(s);
                    } else {
                        (self.mcancel.as_ref().unwrap())(s);
                    }
                    self.mhist.push(MH::Cancel(s));
                }
                _ => return bad(),
            },
            ["dispatch", i] | ["dispatchl", i] | ["dispatchr", i, _] => {
                let Some(i) = num(i) else { return bad() };
                let ready = if w.len() == 3 {
                    let Some(v) = num(w[2]) else { return bad() };
                    Some(v)
                } else {
                    None
                };
                let local = w[0] == "dispatchl" || self.kind.default_local();
                let expect_spawn = !self.suppress && !self.disposed;
                let k = if expect_spawn { self.stage(i) } else { self.senders.len() };
                if let (true, Some(v)) = (expect_spawn, ready) {
                    // the future is resolved before it is ever polled
                    let _ = self.senders[k].take().unwrap().send(v);
                }
                let act = self.single.clone().unwrap();
                // odd dispatches are made with the action's own (inner) owner current, even ones under the
                // outer owner (the owner current at dispatch is the one the action's future runs under)
                let under = if k % 2 == 1 { self.inner.clone() } else { None };
                let call = || match &under {
                    Some(o) => o.with(|| act.dispatch(local, i, k)),
                    None => act.dispatch(local, i, k),
                };
                match catch_unwind(AssertUnwindSafe(call)) {
                    Ok(h) => {
                        if expect_spawn {
                            self.handles.push(Some(h));
                            self.after_dispatch(k, i);
                        } else {
                            // the handle of a dispatch that did nothing is inert
                            h.abort();
                        }
                    }
                    // `Action::dispatch` on a disposed handle panics (unwrap_signal!) before touching anything
                    Err(_) if self.disposed => prefix = "panic-disposed ",
                    Err(_) => return "panic ## fail panic".into(),
                }
                self.hist.push(H::Dispatch(i, local, ready));
            }
            ["abort", k] => {
                let Some(k) = idx(k) else { return bad() };
                if let Some(h) = self.handles.get_mut(k).and_then(|h| h.take()) {
                    if !self.task_done[k] {
                        self.abort_live[k] = true;
                    }
                    h.abort();
                }
                self.hist.push(H::Abort(k));
            }
            ["drop", k] => {
                let Some(k) = idx(k) else { return bad() };
                if let Some(h) = self.handles.get_mut(k).and_then(|h| h.take()) {
                    drop(h);
                }
                self.hist.push(H::Drop(k));
            }
            ["clear"] => {
                self.single.as_ref().unwrap().clear();
                self.hist.push(H::Clear);
            }
            _ => return bad(),
        }
        self.started = true;
        self.drain_nested();
        format!("{prefix}{}", self.obs())
    }

    fn tags(&self) -> Vec<String> {
        let mut t: BTreeSet<String> = BTreeSet::new();
        t.insert(self.kind.name().into());
        let mut extra = 0;
        if self.is_multi() {
            let (_, subs, tags) = eval_multi(&self.mhist);
            t.extend(tags.iter().map(|s| s.to_string()));
            if !subs.is_empty() {
                t.insert("multi".into());
            }
        } else {
            let e = eval_single(self.spec_v0(), &self.hist);
            t.extend(e.tags.iter().map(|s| s.to_string()));
            match e.max_overlap {
                0 | 1 => {}
                2 => {
                    t.insert("overlap".into());
                }
                3 => {
                    t.insert("overlap".into());
                    t.insert("overlap3".into());
                }
                _ => {
                    t.insert("overlap".into());
                    t.insert("overlap4".into());
                }
            }
            if self.v0.is_some() {
                t.insert("init-value".into());
                extra += 1;
            }
            if t.len() == 1 + extra {
                t.insert("plain".into());
            }
        }
        t.into_iter().collect()
    }
}
impl Drop for Live {
    fn drop(&mut self) {
        self.teardown()
    }
}

/// one case
struct CaseRunner {
    live: Live,
}
impl CaseRunner {
    fn new() -> Self {
        CaseRunner { live: Live::new() }
    }
    fn feed(&mut self, op: &str) -> String {
        match catch_unwind(AssertUnwindSafe(|| self.live.apply(op))) {
            Ok(o) => o,
            Err(_) => "panic ## fail panic".to_string(),
        }
    }
}

fn run(ops_path: &str, out_path: &str) -> std::io::Result<()> {
    let text = std::fs::read_to_string(ops_path)?;
    let mut out = std::io::BufWriter::new(std::fs::File::create(out_path)?);
    let mut cur: Option<(String, CaseRunner, Vec<String>)> = None; // (case line, runner, outputs)
    let mut pre: Option<CaseRunner> = None; // ops before any case line
    fn flush(out: &mut impl std::io::Write, cur: &mut Option<(String, CaseRunner, Vec<String>)>) -> std::io::Result<()> {
        if let Some((case_line, mut runner, outs)) = cur.take() {
            let tags = runner.live.tags();
            runner.live.teardown();
            writeln!(out, "{} tags={}", case_line, tags.join(","))?;
            for o in outs {
                writeln!(out, "{o}")?;
            }
        }
        Ok(())
    }
    for line in text.lines() {
        let line = line.trim();
        let w: Vec<&str> = line.split_whitespace().collect();
        if let ["case", n] = w.as_slice() {
            flush(&mut out, &mut cur)?;
            if let Some(mut p) = pre.take() {
                p.live.teardown();
            }
            cur = Some((format!("case {n}"), CaseRunner::new(), vec![]));
            continue;
        }
        match cur.as_mut() {
            Some((_, runner, outs)) => {
                let o = runner.feed(line);
                outs.push(o);
            }
            None => {
                let r = pre.get_or_insert_with(CaseRunner::new);
                let o = r.feed(line);
                writeln!(out, "{o}")?;
            }
        }
    }
    flush(&mut out, &mut cur)?;
    out.flush()
}

// ------------------------------------------------------------------ generator

/// the generator's own bookkeeping of what is live / woken (only used to aim ops; polls are
/// taken modulo the real ready-list length anyway)
#[derive(Default, Clone)]
struct SimTask {
    ready: bool,
    abort: bool,
    handle_used: bool,
    done: bool,
    woken: bool,
}
#[derive(Default)]
struct Sim {
    t: Vec<SimTask>,
    arena: bool,
    suppress: bool,
    disposed: bool,
}
impl Sim {
    fn ready_list(&self) -> Vec<usize> {
        (0..self.t.len()).filter(|&i| !self.t[i].done && self.t[i].woken).collect()
    }
    fn unfinished(&self) -> Vec<usize> {
        (0..self.t.len()).filter(|&i| !self.t[i].done).collect()
    }
    /// does a dispatch made now spawn a task?
    fn spawns(&self) -> bool {
        !self.suppress && !self.disposed
    }
    fn dispatch(&mut self) {
        if self.spawns() {
            self.t.push(SimTask { woken: true, ..Default::default() });
        }
    }
    /// `dispose` / `cleanup`
    fn dispose(&mut self) {
        if self.arena {
            self.disposed = true;
        }
    }
    fn abort(&mut self, k: usize) {
        if let Some(t) = self.t.get_mut(k) {
            if !t.handle_used {
                t.handle_used = true;
                if !t.done {
                    t.abort = true;
                    t.woken = true;
                }
            }
        }
    }
    fn drop_handle(&mut self, k: usize) {
        if let Some(t) = self.t.get_mut(k) {
            if !t.handle_used {
                t.handle_used = true;
                if !t.done {
                    t.woken = true;
                }
            }
        }
    }
    fn ready(&mut self, k: usize) {
        if let Some(t) = self.t.get_mut(k) {
            if !t.done && !t.ready {
                t.ready = true;
                t.woken = true;
            }
        }
    }
    fn poll(&mut self, j: usize) {
        let r = self.ready_list();
        if r.is_empty() {
            return;
        }
        let t = &mut self.t[r[j % r.len()]];
        t.woken = false;
        if t.abort || t.ready {
            t.done = true;
        }
    }
    fn idle(&mut self) {
        while !self.ready_list().is_empty() {
            self.poll(0)
        }
    }
}

/// all interleavings of the sequences; an element `(k, 'D')` may only be taken once the `D` of
/// every earlier sequence that has one has been taken (dispatch order is fixed)
fn interleavings(seqs: &[Vec<(usize, char)>], pos: &mut Vec<usize>, cur: &mut Vec<(usize, char)>, out: &mut Vec<Vec<(usize, char)>>) {
    let mut any = false;
    for s in 0..seqs.len() {
        if pos[s] >= seqs[s].len() {
            continue;
        }
        any = true;
        let ev = seqs[s][pos[s]];
        if ev.1 == 'D' && (0..s).any(|p| pos[p] == 0 && seqs[p].first().map(|e| e.1) == Some('D')) {
            continue;
        }
        pos[s] += 1;
        cur.push(ev);
        interleavings(seqs, pos, cur, out);
        cur.pop();
        pos[s] -= 1;
    }
    if !any {
        out.push(cur.clone());
    }
}

fn product(n: usize, base: usize) -> Vec<Vec<usize>> {
    let mut out = vec![vec![]];
    for _ in 0..n {
        out = out
            .into_iter()
            .flat_map(|p| {
                (0..base).map(move |b| {
                    let mut q = p.clone();
                    q.push(b);
                    q
                })
            })
            .collect();
    }
    out
}

const SCRIPTS: [&str; 6] = ["R", "A", "AR", "RA", "XR", ""];
const MSCRIPTS: [&str; 5] = ["R", "CR", "RC", "C", ""];

struct Gen {
    out: std::io::BufWriter<std::fs::File>,
    cases: usize,
}
impl Gen {
    fn case(&mut self, prefix: &str, lines: &[String]) {
        writeln!(self.out, "case {}{}", prefix, self.cases).unwrap();
        for l in lines {
            writeln!(self.out, "{l}").unwrap();
        }
        self.cases += 1;
    }
}

fn all_single_kinds() -> Vec<&'static str> {
    SINGLE_KINDS.iter().chain(SERVER_KINDS.iter()).copied().collect()
}

/// `kind` line of an exhaustive case: rotates over the initial-value variants
fn kind_line(kind: &str, rot: usize) -> String {
    if kind.ends_with("-xpath") {
        format!("kind {kind} {}", 1000 + rot % 7)
    } else if kind.starts_with("server-") {
        if rot % 2 == 0 {
            format!("kind {kind}")
        } else {
            format!("kind {kind} {}", 1000 + rot % 7)
        }
    } else if rot % 7 == 0 {
        format!("kind {kind} 5")
    } else {
        format!("kind {kind}")
    }
}

/// exhaustive small scope for the single action: every assignment of a script to each of `nd`
/// dispatches, every interleaving of the scripts' events (and of the `extras` sequences:
/// `K` clear, `Z` dispose/cleanup, `s`/`u` suppression on/off), the polling modes
/// E (every event processed at once: completion order = event order), L (nothing polled until
/// the end, FIFO), F (nothing polled until the end, LIFO), P (tasks parked first, then polled one
/// by one at the end); in L, F and P a poll may find the abort message and the result together.
/// Rotates over every single-action kind (plain and leptos_server wrappers), `dispatch`/`dispatch_local`,
/// Ok/Err results for the server kinds.
fn gen_exhaustive_single(g: &mut Gen, nd: usize, scripts: &[&str], modes: &[char], extras: &[&str]) {
    gen_exhaustive_single_pre(g, nd, scripts, modes, extras, &[])
}

/// `pre`: op lines put right after the `kind` line (e.g. `eager 1`); a script starting with `!` makes
/// its dispatch a `dispatchr` (the future is resolved before it is first polled)
fn gen_exhaustive_single_pre(g: &mut Gen, nd: usize, scripts: &[&str], modes: &[char], extras: &[&str], pre: &[&str]) {
    let kinds = all_single_kinds();
    let mut rot = 0usize;
    let tag: String = extras.iter().map(|e| e.chars().next().unwrap()).chain(pre.iter().map(|p| p.chars().next().unwrap())).collect();
    for assign in product(nd, scripts.len()) {
        let mut seqs: Vec<Vec<(usize, char)>> = (0..nd)
            .map(|k| {
                std::iter::once((k, 'D'))
                    .chain(scripts[assign[k]].chars().filter(|c| *c != '!').map(|c| (k, c)))
                    .collect()
            })
            .collect();
        for e in extras {
            seqs.push(e.chars().map(|c| (0, c)).collect());
        }
        let mut all = vec![];
        interleavings(&seqs, &mut vec![0; seqs.len()], &mut vec![], &mut all);
        for evs in all {
            for &mode in modes {
                let kind = kinds[rot % kinds.len()];
                let arena = kind.contains("arena");
                let server = kind.starts_with("server-");
                rot += 1;
                let mut l = vec![kind_line(kind, rot)];
                l.extend(pre.iter().map(|p| p.to_string()));
                let (mut suppress, mut disposed) = (false, false);
                let mut task_of: Vec<Option<usize>> = vec![None; nd];
                let mut ntasks = 0;
                for (n, &(k, c)) in evs.iter().enumerate() {
                    let line = match c {
                        'D' => {
                            if !suppress && !disposed {
                                task_of[k] = Some(ntasks);
                                ntasks += 1;
                            }
                            if scripts[assign[k]].starts_with('!') {
                                format!("dispatchr {} {}", 10 + k, if server && (rot + k) % 3 == 0 { 1100 + k } else { 100 + k })
                            } else {
                                format!("{} {}", if (rot + n) % 3 == 0 { "dispatchl" } else { "dispatch" }, 10 + k)
                            }
                        }
                        'K' => "clear".into(),
                        'Z' => {
                            if arena {
                                disposed = true;
                            }
                            if arena && (rot + n) % 2 == 0 { "dispose".into() } else { "cleanup".into() }
                        }
                        's' => {
                            suppress = true;
                            "suppress 1".into()
                        }
                        'u' => {
                            suppress = false;
                            "suppress 0".into()
                        }
                        _ => {
                            // events of a dispatch that did not happen are not emitted
                            let Some(t) = task_of[k] else { continue };
                            match c {
                                'R' => format!("ready {t} {}", if server && (rot + k) % 3 == 0 { 1100 + k } else { 100 + k }),
                                'A' => format!("abort {t}"),
                                'X' => format!("drop {t}"),
                                _ => unreachable!(),
                            }
                        }
                    };
                    l.push(line);
                    if mode == 'E' || (mode == 'P' && c == 'D') {
                        l.push("idle".into());
                    }
                }
                match mode {
                    'F' => {
                        for m in (0..ntasks).rev() {
                            l.push(format!("poll {m}"));
                        }
                    }
                    'P' => {
                        for _ in 0..ntasks {
                            l.push("poll 0".into());
                        }
                    }
                    _ => {}
                }
                l.push("idle".into());
                g.case(&format!("x{nd}{mode}{tag}-"), &l);
            }
        }
    }
}

/// re-entrant dispatch, exhaustively for small scope: observers of `version` / `value` with budgets
/// `hv` / `hl` installed first, then every assignment of scripts and every interleaving, every event
/// processed at once (mode E: the generator can follow which tasks the observers add), finally the
/// tasks the observers added are resolved too (which lets the observers fire again)
fn gen_exhaustive_hooks(g: &mut Gen, nd: usize, scripts: &[&str], extras: &[&str], hv: u32, hl: u32, eager: bool) {
    let kinds = all_single_kinds();
    let mut rot = 0usize;
    for assign in product(nd, scripts.len()) {
        let mut seqs: Vec<Vec<(usize, char)>> = (0..nd)
            .map(|k| {
                std::iter::once((k, 'D'))
                    .chain(scripts[assign[k]].chars().filter(|c| *c != '!').map(|c| (k, c)))
                    .collect()
            })
            .collect();
        for e in extras {
            seqs.push(e.chars().map(|c| (0, c)).collect());
        }
        let mut all = vec![];
        interleavings(&seqs, &mut vec![0; seqs.len()], &mut vec![], &mut all);
        for evs in all {
            let kind = kinds[rot % kinds.len()];
            let arena = kind.contains("arena");
            rot += 1;
            let mut l = vec![kind_line(kind, rot)];
            if eager {
                l.push("eager 1".into());
            }
            if hv > 0 {
                l.push(format!("hook version {hv} 90"));
            }
            if hl > 0 {
                l.push(format!("hook value {hl} 91"));
            }
            // the generator's own account of the case (mode E: nothing is ever left woken)
            let (mut suppress, mut disposed) = (false, false);
            let mut budget = [hv, hl];
            let mut running: Vec<bool> = vec![]; // per task
            let mut used: Vec<bool> = vec![]; // abort handle used
            let mut task_of: Vec<Option<usize>> = vec![None; nd];
            fn notify(which: usize, budget: &mut [u32; 2], disposed: bool, suppress: bool, running: &mut Vec<bool>, used: &mut Vec<bool>) {
                if !disposed && budget[which] > 0 {
                    budget[which] -= 1;
                    if !suppress {
                        running.push(true);
                        used.push(false);
                    }
                }
            }
            for &(k, c) in &evs {
                match c {
                    'D' => {
                        let ready = scripts[assign[k]].starts_with('!');
                        l.push(if ready { format!("dispatchr {} {}", 10 + k, 100 + k) } else { format!("dispatch {}", 10 + k) });
                        if !suppress && !disposed {
                            task_of[k] = Some(running.len());
                            running.push(!ready);
                            used.push(false);
                            if ready {
                                // completes at its first poll (inside dispatch if eager, at the idle below otherwise)
                                notify(0, &mut budget, disposed, suppress, &mut running, &mut used);
                                notify(1, &mut budget, disposed, suppress, &mut running, &mut used);
                            }
                        }
                    }
                    'K' => {
                        l.push("clear".into());
                        if !disposed {
                            notify(1, &mut budget, disposed, suppress, &mut running, &mut used);
                        }
                    }
                    'Z' => {
                        l.push(if arena && rot % 2 == 0 { "dispose".into() } else { "cleanup".into() });
                        if arena {
                            disposed = true;
                        }
                    }
                    's' => {
                        suppress = true;
                        l.push("suppress 1".into());
                    }
                    'u' => {
                        suppress = false;
                        l.push("suppress 0".into());
                    }
                    _ => {
                        let Some(t) = task_of[k] else { continue };
                        match c {
                            'R' => {
                                l.push(format!("ready {t} {}", 100 + k));
                                if running[t] {
                                    running[t] = false;
                                    notify(0, &mut budget, disposed, suppress, &mut running, &mut used);
                                    notify(1, &mut budget, disposed, suppress, &mut running, &mut used);
                                }
                            }
                            'A' => {
                                l.push(format!("abort {t}"));
                                if !used[t] {
                                    used[t] = true;
                                    running[t] = false;
                                }
                            }
                            _ => unreachable!(),
                        }
                    }
                }
                l.push("idle".into());
            }
            // resolve what the observers dispatched (they may fire again)
            for _ in 0..3 {
                let open: Vec<usize> = (0..running.len()).filter(|&t| running[t] && t >= nd).collect();
                for t in open {
                    l.push(format!("ready {t} {}", 200 + t));
                    l.push("idle".into());
                    running[t] = false;
                    notify(0, &mut budget, disposed, suppress, &mut running, &mut used);
                    notify(1, &mut budget, disposed, suppress, &mut running, &mut used);
                }
            }
            g.case(&format!("h{nd}{}{hv}{hl}-", if eager { "e" } else { "d" }), &l);
        }
    }
}

fn gen_exhaustive_multi(g: &mut Gen, nd: usize, extras: &[&str]) {
    gen_exhaustive_multi_pre(g, nd, extras, &MSCRIPTS, &[])
}

fn gen_exhaustive_multi_pre(g: &mut Gen, nd: usize, extras: &[&str], mscripts: &[&str], pre: &[&str]) {
    let mut rot = 0usize;
    let tag: String = extras.iter().map(|e| e.chars().next().unwrap()).collect();
    for assign in product(nd, mscripts.len()) {
        let mut seqs: Vec<Vec<(usize, char)>> = (0..nd)
            .map(|k| std::iter::once((k, 'D')).chain(mscripts[assign[k]].chars().filter(|c| *c != '!').map(|c| (k, c))).collect())
            .collect();
        for e in extras {
            seqs.push(e.chars().map(|c| (0, c)).collect());
        }
        let mut all = vec![];
        interleavings(&seqs, &mut vec![0; seqs.len()], &mut vec![], &mut all);
        for evs in all {
            for mode in ['E', 'L'] {
                let kind = MULTI_KINDS[rot % MULTI_KINDS.len()];
                let arena = kind.contains("arena");
                let server = kind.starts_with("server-");
                rot += 1;
                let mut l = vec![format!("kind {kind}")];
                l.extend(pre.iter().map(|p| p.to_string()));
                let (mut suppress, mut disposed) = (false, false);
                let mut task_of: Vec<Option<(usize, usize)>> = vec![None; nd]; // (task, submission)
                let (mut ntasks, mut nsubs) = (0, 0);
                for (n, &(k, c)) in evs.iter().enumerate() {
                    let line = match c {
                        'D' => {
                            if !suppress && !disposed {
                                task_of[k] = Some((ntasks, nsubs));
                                ntasks += 1;
                                nsubs += 1;
                            }
                            if mscripts[assign[k]].starts_with('!') {
                                format!("dispatchr {} {}", 10 + k, 100 + k)
                            } else {
                                format!("dispatch {}", 10 + k)
                            }
                        }
                        'S' => {
                            if !disposed {
                                nsubs += 1;
                            }
                            format!("dsync {}", if server && rot % 2 == 0 { 1077 } else { 77 })
                        }
                        'Z' => {
                            if arena {
                                disposed = true;
                            }
                            if arena && (rot + n) % 2 == 0 { "dispose".into() } else { "cleanup".into() }
                        }
                        's' => {
                            suppress = true;
                            "suppress 1".into()
                        }
                        'u' => {
                            suppress = false;
                            "suppress 0".into()
                        }
                        _ => {
                            let Some((t, sub)) = task_of[k] else { continue };
                            match c {
                                'R' => format!("ready {t} {}", if server && (rot + k) % 3 == 0 { 1100 + k } else { 100 + k }),
                                'C' => format!("cancel {sub}"),
                                _ => unreachable!(),
                            }
                        }
                    };
                    l.push(line);
                    if mode == 'E' {
                        l.push("idle".into());
                    }
                }
                l.push("idle".into());
                g.case(&format!("m{nd}{mode}{tag}{}-", if pre.is_empty() { "" } else { "e" }), &l);
            }
        }
    }
}

fn gen_random_single(g: &mut Gen, rng: &mut Rng) {
    let mut l = vec![];
    let kinds = all_single_kinds();
    let kind = *rng.pick(&kinds);
    let server = kind.starts_with("server-");
    if server {
        l.push(kind_line(kind, rng.below(14)));
    } else if rng.chance(1, 5) {
        l.push(format!("kind {kind} {}", rng.range(1, 9)));
    } else {
        l.push(format!("kind {kind}"));
    }
    let mut sim = Sim { arena: kind.contains("arena"), ..Default::default() };
    let result = |rng: &mut Rng| if server && rng.chance(1, 3) { rng.range(1000, 1099) } else { rng.range(100, 199) };
    let dispatch = |rng: &mut Rng| {
        if rng.chance(1, 6) {
            format!("dispatchr {} {}", rng.range(1, 99), rng.range(100, 199))
        } else {
            format!("{} {}", if rng.chance(1, 3) { "dispatchl" } else { "dispatch" }, rng.range(1, 99))
        }
    };
    // one case in four plays with suppression / disposal
    let special = rng.chance(1, 4);
    if rng.chance(1, 4) {
        l.push("eager 1".into());
    }
    if rng.chance(1, 5) {
        l.push(format!("hook {} {} {}", if rng.chance(1, 2) { "version" } else { "value" }, rng.range(1, 2), rng.range(80, 89)));
    }
    let max_total = rng.range(1, 8);
    let max_overlap = *rng.pick(&[1, 2, 3, 4, 4, 4]);
    let len = rng.range(4, 40);
    let poll_bias = rng.range(1, 6);
    // often start with a burst of overlapping dispatches
    if rng.chance(1, 2) {
        for _ in 0..max_overlap.min(max_total) {
            l.push(dispatch(rng));
            sim.dispatch();
            if rng.chance(1, 3) {
                l.push("idle".into());
                sim.idle();
            }
        }
    }
    for _ in 0..len {
        let unfinished = sim.unfinished();
        let c = rng.below(20 + 3 * poll_bias);
        let pick_task = |rng: &mut Rng, sim: &Sim| -> usize {
            let u = sim.unfinished();
            if !u.is_empty() && rng.chance(9, 10) {
                *rng.pick(&u)
            } else {
                rng.below(sim.t.len() + 1)
            }
        };
        match c {
            0..=4 => {
                if sim.t.len() < max_total && unfinished.len() < max_overlap && (sim.spawns() || rng.chance(1, 3)) {
                    l.push(dispatch(rng));
                    sim.dispatch();
                } else if !unfinished.is_empty() {
                    let k = *rng.pick(&unfinished);
                    l.push(format!("ready {k} {}", result(rng)));
                    sim.ready(k);
                }
            }
            5..=9 => {
                let k = pick_task(rng, &sim);
                l.push(format!("ready {k} {}", result(rng)));
                sim.ready(k);
            }
            10..=12 => {
                let k = pick_task(rng, &sim);
                l.push(format!("abort {k}"));
                sim.abort(k);
            }
            13 => {
                let k = pick_task(rng, &sim);
                l.push(format!("drop {k}"));
                sim.drop_handle(k);
            }
            14 => l.push("clear".into()),
            15 if special => match rng.below(4) {
                0 => {
                    sim.suppress = !sim.suppress;
                    l.push(format!("suppress {}", sim.suppress as u8));
                }
                1 => {
                    l.push(if sim.arena && rng.chance(1, 2) { "dispose".into() } else { "cleanup".into() });
                    sim.dispose();
                }
                _ => {
                    l.push(dispatch(rng));
                    sim.dispatch();
                }
            },
            15 => l.push("obs".into()),
            16 | 17 => {
                l.push("idle".into());
                sim.idle();
            }
            _ => {
                let j = rng.below(5);
                l.push(format!("poll {j}"));
                sim.poll(j);
            }
        }
    }
    // mostly settle at the end so that the idle-point clauses are exercised
    if rng.chance(4, 5) {
        for k in sim.unfinished() {
            if rng.chance(2, 3) {
                l.push(format!("ready {k} {}", result(rng)));
                sim.ready(k);
            }
        }
        l.push("idle".into());
    }
    g.case("r", &l);
}

fn gen_random_multi(g: &mut Gen, rng: &mut Rng) {
    let kind = *rng.pick(&MULTI_KINDS);
    let server = kind.starts_with("server-");
    let mut l = vec![format!("kind {kind}")];
    let mut sim = Sim { arena: kind.contains("arena"), ..Default::default() };
    let mut nsubs = 0usize;
    let special = rng.chance(1, 4);
    if rng.chance(1, 4) {
        l.push("eager 1".into());
    }
    let len = rng.range(3, 30);
    for _ in 0..len {
        match rng.below(16) {
            0..=3 => {
                if sim.t.len() < 6 {
                    l.push(format!("dispatch {}", rng.range(1, 99)));
                    if sim.spawns() {
                        nsubs += 1;
                    }
                    sim.dispatch();
                }
            }
            4 => {
                l.push(format!("dsync {}", if server && rng.chance(1, 3) { rng.range(1200, 1299) } else { rng.range(200, 299) }));
                if !sim.disposed {
                    nsubs += 1;
                }
            }
            5..=8 => {
                let k = rng.below(sim.t.len() + 1);
                l.push(format!("ready {k} {}", if server && rng.chance(1, 3) { rng.range(1000, 1099) } else { rng.range(100, 199) }));
                sim.ready(k);
            }
            9 | 10 => l.push(format!("cancel {}", rng.below(nsubs + 1))),
            11 => {
                l.push("idle".into());
                sim.idle();
            }
            12 if special => {
                if rng.chance(1, 2) {
                    sim.suppress = !sim.suppress;
                    l.push(format!("suppress {}", sim.suppress as u8));
                } else {
                    l.push(if sim.arena && rng.chance(1, 2) { "dispose".into() } else { "cleanup".into() });
                    sim.dispose();
                }
            }
            12 => l.push("obs".into()),
            _ => {
                let j = rng.below(5);
                l.push(format!("poll {j}"));
                sim.poll(j);
            }
        }
    }
    if rng.chance(3, 4) {
        l.push("idle".into());
    }
    g.case("q", &l);
}

fn generate(seed: u64, n: usize, path: &str, tier: &str) -> std::io::Result<()> {
    let mut g = Gen { out: std::io::BufWriter::new(std::fs::File::create(path)?), cases: 0 };
    let thorough = tier == "thorough";
    // exhaustive small scope (independent of the seed)
    gen_exhaustive_single(&mut g, 1, &SCRIPTS, &['E', 'L', 'F', 'P'], &[]);
    gen_exhaustive_single(&mut g, 2, &SCRIPTS, &['E', 'L', 'F', 'P'], &[]);
    gen_exhaustive_single(&mut g, 3, &SCRIPTS, &['E', 'L', 'F', 'P'], &[]);
    gen_exhaustive_single(&mut g, 1, &SCRIPTS[..4], &['E', 'L', 'F'], &["K"]);
    gen_exhaustive_single(&mut g, 2, &SCRIPTS[..4], &['E', 'L', 'F'], &["K"]);
    // four overlapping dispatches: complete / abort only, every order (both tiers)
    gen_exhaustive_single(&mut g, 4, &SCRIPTS[..2], &['E', 'L', 'F', 'P'], &[]);
    // disposal of the handle / clean-up of its owner at every position, suppression on/off around every event
    for nd in 1..=2 {
        gen_exhaustive_single(&mut g, nd, &SCRIPTS[..4], &['E', 'L', 'F'], &["Z"]);
        gen_exhaustive_single(&mut g, nd, &SCRIPTS[..4], &['E', 'L'], &["su"]);
        gen_exhaustive_single(&mut g, nd, &SCRIPTS[..3], &['E', 'L'], &["Z", "K"]);
        gen_exhaustive_single(&mut g, nd, &SCRIPTS[..2], &['E', 'L'], &["Z", "su"]);
    }
    gen_exhaustive_single(&mut g, 3, &SCRIPTS[..3], &['E', 'F'], &["Z"]);
    gen_exhaustive_single(&mut g, 3, &SCRIPTS[..2], &['E'], &["su"]);
    // eager executor (spawn polls inline) and futures resolved before their first poll
    const RS: [&str; 5] = ["!", "!A", "R", "A", "AR"];
    for nd in 1..=2 {
        gen_exhaustive_single_pre(&mut g, nd, &RS, &['E', 'L', 'F'], &[], &["eager 1"]);
        gen_exhaustive_single_pre(&mut g, nd, &RS, &['E', 'L'], &[], &[]);
        gen_exhaustive_single_pre(&mut g, nd, &RS[..3], &['E', 'L'], &["Z"], &["eager 1"]);
        gen_exhaustive_single_pre(&mut g, nd, &RS[..3], &['E'], &["su"], &["eager 1"]);
    }
    gen_exhaustive_single_pre(&mut g, 3, &RS[..4], &['E', 'F'], &[], &["eager 1"]);
    // re-entrant dispatch from synchronous observers of version / value
    for (hv, hl) in [(1, 0), (0, 1), (2, 0), (1, 1), (0, 2)] {
        for eager in [false, true] {
            gen_exhaustive_hooks(&mut g, 1, &RS, &[], hv, hl, eager);
            gen_exhaustive_hooks(&mut g, 2, &RS[..4], &[], hv, hl, eager);
            gen_exhaustive_hooks(&mut g, 1, &RS[..4], &["K"], hv, hl, eager);
            gen_exhaustive_hooks(&mut g, 1, &RS[..4], &["Z"], hv, hl, eager);
            gen_exhaustive_hooks(&mut g, 1, &RS[..4], &["su"], hv, hl, eager);
        }
    }
    gen_exhaustive_hooks(&mut g, 2, &RS[..4], &["K"], 1, 1, false);
    gen_exhaustive_hooks(&mut g, 2, &RS[..3], &["Z"], 1, 1, true);
    gen_exhaustive_hooks(&mut g, 3, &RS[2..4], &[], 2, 0, false);
    const MRS: [&str; 4] = ["!", "!C", "R", "CR"];
    for nd in 1..=2 {
        gen_exhaustive_multi_pre(&mut g, nd, &[], &MRS, &["eager 1"]);
        gen_exhaustive_multi_pre(&mut g, nd, &[], &MRS, &[]);
        gen_exhaustive_multi_pre(&mut g, nd, &["Z"], &MRS[..3], &["eager 1"]);
    }
    if thorough {
        gen_exhaustive_single(&mut g, 4, &SCRIPTS[..3], &['E', 'F'], &[]);
        gen_exhaustive_single(&mut g, 3, &SCRIPTS[..3], &['E', 'F'], &["K"]);
        gen_exhaustive_single(&mut g, 3, &SCRIPTS[..4], &['E', 'L', 'F'], &["Z"]);
        gen_exhaustive_single(&mut g, 3, &SCRIPTS[..3], &['E', 'L'], &["su"]);
    }
    for nd in 1..=3 {
        gen_exhaustive_multi(&mut g, nd, &[]);
    }
    for nd in 1..=2 {
        gen_exhaustive_multi(&mut g, nd, &["S"]);
        gen_exhaustive_multi(&mut g, nd, &["Z"]);
        gen_exhaustive_multi(&mut g, nd, &["su"]);
        gen_exhaustive_multi(&mut g, nd, &["Z", "S"]);
    }
    if thorough {
        gen_exhaustive_multi(&mut g, 3, &["Z"]);
        gen_exhaustive_multi(&mut g, 3, &["su"]);
    }
    // random beyond
    let mut rng = Rng::new(seed);
    for _ in 0..n {
        if rng.chance(1, 5) {
            gen_random_multi(&mut g, &mut rng);
        } else {
            gen_random_single(&mut g, &mut rng);
        }
    }
    g.out.flush()
}

fn main() {
    match parse_cli() {
        Cmd::Gen { seed, n, ops, tier } => generate(seed, n, &ops, &tier).expect("gen"),
        Cmd::Run { ops, out } => {
            quiet_panics();
            sched::install();
            run(&ops, &out).expect("run")
        }
    }
}
