//! C15 correspondence harness: real `RequestUrl::parse`, `ParamsMap`, `Url::{escape,unescape}`,
//! `ParamSegment::test` from /repo's working tree.
//!
//! Op grammar (bytes as hex, `-` = empty):
//!   case <n>
//!   escape <s>        -> <escaped> ## ok|fail          (oracle: unescape(escape s) == s)
//!   unescape <s>      -> ok <s'> | panic
//!   query <target>    -> ok <map> | panic ## verdict   (oracle: independent single decode)
//!   pathparam <seg>   -> ok <v> | panic ## verdict     (through ParamSegment + ParamsMap::insert)
//!   roundtrip <map>   -> <qs> <map'|panic> ## verdict  (to_query_string then RequestUrl::parse)
//!   routeparam flat|nested <seg1> <seg2> -> ok <org> <id> | nomatch | panic ## verdict
//!                     (server-renders a real <Router> app with the route /o/:org/u/:id — <FlatRoutes>, or
//!                      <Routes> with a <ParentRoute path="/o/:org"> around <Route path="u/:id"> — for the
//!                      request /o/<seg1>/u/<seg2> and reports what `use_params_map()` hands to the view)
//!   hookquery <target> -> ok <map> | panic ## verdict  (same app, what `use_query_map()` hands to the view)
//! <map> is `{}` or `k:v,v;k:v` (hex fields), in the map's own order.
use hx_common::*;
use leptos_router::{
    location::{RequestUrl, Url},
    params::ParamsMap,
    ParamSegment, PossibleRouteMatch,
};
use futures::StreamExt;
use leptos::prelude::*;
use leptos_router::{
    components::{FlatRoutes, Outlet, ParentRoute, Route, Router, Routes},
    hooks::{query_signal, use_params_map, use_query_map},
    path,
};
use std::panic::{catch_unwind, AssertUnwindSafe};

/// server-render a one-route application for `target`; the route's view prints what the hooks return
fn render_app(target: &str, nested: bool) -> String {
    let _ = any_spawner::Executor::init_futures_executor();
    let owner = Owner::new();
    let html = owner.with(|| {
        provide_context(RequestUrl::new(target));
        let show = || {
            let params = use_params_map();
            let query = use_query_map();
            let (q_sig, _set_q) = query_signal::<String>("q");
            move || {
                let p = params.get();
                let f = |k: &str| p.get(k).map(|v| hex(v.as_bytes())).unwrap_or_else(|| "none".into());
                let q = q_sig.get().map(|v| hex(v.as_bytes())).unwrap_or_else(|| "none".into());
                format!("[[{} {} {} {}]]", f("org"), f("id"), show_map(&query.get()), q)
            }
        };
        if nested {
            let app = view! {
                <Router>
                    <Routes fallback=|| "[[nomatch]]">
                        <ParentRoute path=path!("/o/:org") view=|| {
                            // the LAYOUT reads the parameters too (its own and, reactively, its child's)
                            let params = use_params_map();
                            view! {
                                {move || {
                                    let p = params.get();
                                    let f = |k: &str| p.get(k).map(|v| hex(v.as_bytes())).unwrap_or_else(|| "none".into());
                                    format!("{{{{{} {}}}}}", f("org"), f("id"))
                                }}
                                <Outlet/>
                            }
                        }>
                            <Route path=path!("u/:id") view=show/>
                        </ParentRoute>
                        <Route path=path!("/p") view=show/>
                    </Routes>
                </Router>
            };
            futures::executor::block_on(app.to_html_stream_in_order().collect::<String>())
        } else {
            let app = view! {
                <Router>
                    <FlatRoutes fallback=|| "[[nomatch]]">
                        <Route path=path!("/o/:org/u/:id") view=show/>
                        <Route path=path!("/p") view=show/>
                    </FlatRoutes>
                </Router>
            };
            futures::executor::block_on(app.to_html_stream_in_order().collect::<String>())
        }
    });
    owner.cleanup();
    html
}

/// the `[[ … ]]` payload of the rendered page
fn payload(html: &str) -> Option<Vec<String>> {
    let a = html.find("[[")? + 2;
    let b = html[a..].find("]]")? + a;
    Some(html[a..b].split(' ').map(String::from).collect())
}

/// the `{{ … }}` payload the layout of the nested app prints
fn layout_payload(html: &str) -> Option<Vec<String>> {
    let a = html.find("{{")? + 2;
    let b = html[a..].find("}}")? + a;
    Some(html[a..b].split(' ').map(String::from).collect())
}

fn once_seg(seg: &str) -> String {
    String::from_utf8_lossy(&percent_encoding::percent_decode_str(seg).collect::<Vec<u8>>()).into_owned()
}

fn show_map(m: &ParamsMap) -> String {
    // ParamsMap exposes its grouping only through into_iter (k, v) in stored order
    let mut groups: Vec<(String, Vec<String>)> = vec![];
    for (k, v) in m.clone().into_iter() {
        match groups.last_mut() {
            Some((lk, vs)) if lk.as_str() == k.as_ref() => vs.push(v),
            _ => groups.push((k.to_string(), vec![v])),
        }
    }
    show_groups(&groups)
}

fn show_groups(groups: &[(String, Vec<String>)]) -> String {
    if groups.is_empty() {
        return "{}".into();
    }
    groups
        .iter()
        .map(|(k, vs)| {
            format!(
                "{}:{}",
                hex(k.as_bytes()),
                vs.iter().map(|v| hex(v.as_bytes())).collect::<Vec<_>>().join(",")
            )
        })
        .collect::<Vec<_>>()
        .join(";")
}

fn parse_map(s: &str) -> Option<Vec<(String, Vec<String>)>> {
    if s == "{}" {
        return Some(vec![]);
    }
    s.split(';')
        .map(|kv| {
            let (k, vs) = kv.split_once(':')?;
            Some((
                unhex_str(k)?,
                vs.split(',').map(unhex_str).collect::<Option<Vec<_>>>()?,
            ))
        })
        .collect()
}

/// the oracle's notion of "decoded exactly once": the url crate's own
/// form-urlencoded parser, grouped by key in first-appearance order
fn once_decoded(raw_query: &str) -> Vec<(String, Vec<String>)> {
    let mut groups: Vec<(String, Vec<String>)> = vec![];
    for (k, v) in url::form_urlencoded::parse(raw_query.as_bytes()) {
        if let Some(g) = groups.iter_mut().find(|g| g.0 == k) {
            g.1.push(v.to_string());
        } else {
            groups.push((k.to_string(), vec![v.to_string()]));
        }
    }
    groups
}

fn raw_query(target: &str) -> &str {
    let no_frag = target.split('#').next().unwrap_or("");
    no_frag.split_once('?').map(|x| x.1).unwrap_or("")
}

fn op(line: &str) -> String {
    let w: Vec<&str> = line.split_whitespace().collect();
    match w.as_slice() {
        ["case", n] => format!("case {n}"),
        ["escape", h] => {
            let Some(s) = unhex_str(h) else { return "bad-op".into() };
            let e = Url::escape(&s);
            let back = catch_unwind(|| Url::unescape(&e));
            let v = if back.ok().as_deref() == Some(s.as_str()) { "ok" } else { "fail escape-unescape" };
            format!("{} ## {}", hex(e.as_bytes()), v)
        }
        ["unescape", h] => {
            let Some(s) = unhex_str(h) else { return "bad-op".into() };
            match catch_unwind(|| Url::unescape(&s)) {
                Ok(r) => format!("ok {}", hex(r.as_bytes())),
                Err(_) => "panic".into(),
            }
        }
        ["query", h] => {
            let Some(t) = unhex_str(h) else { return "bad-op".into() };
            let spec = once_decoded(raw_query(&t));
            match catch_unwind(|| RequestUrl::new(&t).parse()) {
                Ok(Ok(url)) => {
                    let got = show_map(url.search_params());
                    let v = if got == show_groups(&spec) { "ok" } else { "fail double-decode" };
                    format!("ok {got} ## {v}")
                }
                Ok(Err(e)) => format!("err {e:?} ## fail parse-error"),
                Err(_) => "panic ## fail panic".into(),
            }
        }
        ["pathparam", h] => {
            let Some(seg) = unhex_str(h) else { return "bad-op".into() };
            // what the server does: RequestUrl::parse, then the routers match `url.path()` with a
            // ParamSegment and collect the raw segment into a ParamsMap
            let target = format!("/{seg}?q=1");
            let r = catch_unwind(AssertUnwindSafe(|| {
                let url = RequestUrl::new(&target).parse().ok()?;
                let path = url.path().to_string();
                let m = ParamSegment("id").test(&path)?;
                let map: ParamsMap = m.params().into_iter().collect();
                map.get("id")
            }));
            // decoded exactly once; bytes that are not UTF-8 may only be replaced, never panic
            let once: Option<String> = Some(
                String::from_utf8_lossy(&percent_encoding::percent_decode_str(&seg).collect::<Vec<u8>>())
                    .into_owned(),
            );
            match r {
                Ok(Some(v)) => {
                    let verdict = if Some(&v) == once.as_ref() { "ok" } else { "fail not-once" };
                    format!("ok {} ## {}", hex(v.as_bytes()), verdict)
                }
                Ok(None) => "nomatch ## ok".into(),
                Err(_) => "panic ## fail panic".into(),
            }
        }
        ["routeparam", kind, h1, h2] => {
            let (Some(s1), Some(s2)) = (unhex_str(h1), unhex_str(h2)) else { return "bad-op".into() };
            let nested = match *kind {
                "flat" => false,
                "nested" => true,
                _ => return "bad-op".into(),
            };
            let target = format!("/o/{s1}/u/{s2}");
            match catch_unwind(AssertUnwindSafe(|| render_app(&target, nested))) {
                Ok(html) => match payload(&html).as_deref() {
                    Some([org, id, _, _]) => {
                        let want = (hex(once_seg(&s1).as_bytes()), hex(once_seg(&s2).as_bytes()));
                        let mut v = if (org.as_str(), id.as_str()) == (want.0.as_str(), want.1.as_str()) { "ok" } else { "fail not-once" };
                        // what the parent route's layout read (nested only): its own param, and its child's once the child matched
                        let lay = if nested {
                            match layout_payload(&html).as_deref() {
                                Some([lo, li]) => {
                                    if lo.as_str() != want.0.as_str() || (li.as_str() != "none" && li.as_str() != want.1.as_str()) {
                                        v = "fail layout-not-once";
                                    }
                                    format!(" layout={lo},{li}")
                                }
                                _ => " layout=?".to_string(),
                            }
                        } else {
                            String::new()
                        };
                        format!("ok {org} {id}{lay} ## {v}")
                    }
                    _ => "nomatch ## fail nomatch".into(),
                },
                Err(_) => "panic ## fail panic".into(),
            }
        }
        ["hookquery", h] => {
            let Some(t) = unhex_str(h) else { return "bad-op".into() };
            let spec = once_decoded(raw_query(&t));
            match catch_unwind(AssertUnwindSafe(|| render_app(&t, false))) {
                Ok(html) => match payload(&html).as_deref() {
                    Some([_, _, got, q]) => {
                        // `query_signal::<String>("q")` hands out the (last) value of `q`, unchanged
                        let want_q = spec
                            .iter()
                            .find(|g| g.0 == "q")
                            .and_then(|g| g.1.last())
                            .map(|v| hex(v.as_bytes()))
                            .unwrap_or_else(|| "none".into());
                        let v = if *got != show_groups(&spec) {
                            "fail double-decode"
                        } else if *q != want_q {
                            "fail query-signal"
                        } else {
                            "ok"
                        };
                        format!("ok {got} q={q} ## {v}")
                    }
                    _ => "nomatch ## fail nomatch".into(),
                },
                Err(_) => "panic ## fail panic".into(),
            }
        }
        ["collect", ps] => {
            // pairs `k=v,k=v,…` (hex fields) in iteration order, collected with `FromIterator`
            let mut pairs: Vec<(String, String)> = vec![];
            for kv in ps.split(',') {
                let Some((k, v)) = kv.split_once('=') else { return "bad-op".into() };
                let (Some(k), Some(v)) = (unhex_str(k), unhex_str(v)) else { return "bad-op".into() };
                pairs.push((k, v));
            }
            // independent expectation: keys in first-appearance order, all once-decoded values in order
            let mut spec: Vec<(String, Vec<String>)> = vec![];
            for (k, v) in &pairs {
                let d = once_seg(v);
                match spec.iter_mut().find(|g| &g.0 == k) {
                    Some(g) => g.1.push(d),
                    None => spec.push((k.clone(), vec![d])),
                }
            }
            match catch_unwind(AssertUnwindSafe(|| pairs.clone().into_iter().collect::<ParamsMap>())) {
                Ok(m) => {
                    let got = show_map(&m);
                    let last_ok = spec.iter().all(|g| m.get(&g.0).as_ref() == g.1.last());
                    let v = if got == show_groups(&spec) && last_ok { "ok" } else { "fail collect" };
                    format!("ok {got} ## {v}")
                }
                Err(_) => "panic ## fail panic".into(),
            }
        }
        ["roundtrip", ms] => {
            let Some(groups) = parse_map(ms) else { return "bad-op".into() };
            let r = catch_unwind(|| {
                // build the map without going through `insert` a second time: a map
                // "written to a query string" is any map value the application holds
                let mut m = ParamsMap::new();
                for (i, (k, vs)) in groups.iter().enumerate() {
                    for v in vs {
                        if i % 2 == 0 {
                            // a key written as a string literal in application code: Cow::Borrowed
                            let lit: &'static str = Box::leak(k.clone().into_boxed_str());
                            m.insert(lit, Url::escape(v));
                        } else {
                            m.insert(k.clone(), Url::escape(v));
                        }
                    }
                }
                debug_assert_eq!(show_map(&m), show_groups(&groups));
                m.to_query_string()
            });
            let Ok(qs) = r else { return "panic-build ## fail panic".into() };
            let target = format!("/p{qs}");
            match catch_unwind(|| RequestUrl::new(&target).parse()) {
                Ok(Ok(url)) => {
                    let got = show_map(url.search_params());
                    let v = if got == show_groups(&groups) { "ok" } else { "fail roundtrip" };
                    format!("{} {} ## {}", hex(qs.as_bytes()), got, v)
                }
                Ok(Err(e)) => format!("{} err {e:?} ## fail parse-error", hex(qs.as_bytes())),
                Err(_) => format!("{} panic ## fail panic", hex(qs.as_bytes())),
            }
        }
        _ => "bad-op".into(),
    }
}

// ---------------------------------------------------------------- generator

const ATOMS: &[&str] = &[
    "%", "%25", "%2541", "%41", "%FF", "%25FF", "%C3%A9", "%25C3%25A9", "%c3", "%2", "%zz", "%2B",
    "%26", "%3D", "%23", "%20", "+", "&", "=", "a", "b", "x", "1", "4", "F", "é", "日", "😀", "/",
    "?", ";", "'", "\"", "<", ">", "~", "-", ".", "%E2%82", "%ED%A0%80", "%F0%9F%98%80", "%00", "%2525",
];

fn gen_str(r: &mut Rng, max_atoms: usize, avoid: &[char]) -> String {
    let n = r.below(max_atoms + 1);
    let mut s = String::new();
    for _ in 0..n {
        let a = *r.pick(ATOMS);
        if a.chars().any(|c| avoid.contains(&c)) {
            continue;
        }
        s.push_str(a);
    }
    s
}

fn gen_plain(r: &mut Rng, max: usize) -> String {
    // arbitrary Unicode scalar values, biased to ASCII punctuation
    let n = r.below(max + 1);
    let mut s = String::new();
    for _ in 0..n {
        let c = match r.below(6) {
            0 => char::from_u32(r.below(0x80) as u32).unwrap(),
            1 => *r.pick(&['%', '+', '&', '=', '#', ' ', '?', '/', 'é', '日', '😀', '\u{0}', '\u{7f}', '\u{ffff}', '\u{10ffff}', '\u{800}', '\u{7ff}']),
            2 => char::from_u32(r.below(0x800) as u32).unwrap_or('a'),
            3 => char::from_u32(r.below(0x110000) as u32).unwrap_or('b'),
            _ => *r.pick(&['a', 'b', '4', '1', '2', '5', 'F', '%']),
        };
        s.push(c);
    }
    s
}

fn gen(seed: u64, n: usize, path: &str) -> std::io::Result<()> {
    use std::io::Write;
    let mut r = Rng::new(seed);
    let mut f = std::io::BufWriter::new(std::fs::File::create(path)?);
    for i in 0..n {
        writeln!(f, "case {i}")?;
        match r.below(15) {
            0 | 1 => writeln!(f, "escape {}", hex(gen_plain(&mut r, 8).as_bytes()))?,
            2 => writeln!(f, "unescape {}", hex(gen_str(&mut r, 5, &[]).as_bytes()))?,
            3 | 4 | 5 => {
                // a request target: path ? pairs [# fragment]
                let pairs = r.range(0, 3);
                let mut q = String::new();
                for j in 0..pairs {
                    if j > 0 {
                        q.push('&');
                    }
                    q.push_str(&gen_str(&mut r, 2, &['#', '&', '=']));
                    if r.chance(5, 6) {
                        q.push('=');
                        q.push_str(&gen_str(&mut r, 4, &['#']));
                    }
                }
                let mut t = String::from("/p");
                if pairs > 0 || r.chance(1, 2) {
                    t.push('?');
                    t.push_str(&q);
                }
                if r.chance(1, 6) {
                    t.push('#');
                    t.push_str(&gen_str(&mut r, 2, &[]));
                }
                writeln!(f, "query {}", hex(t.as_bytes()))?
            }
            6 | 7 => {
                // raw path segment as the url crate leaves it in `path()`: ASCII, no `/ ? #`,
                // non-ASCII already percent-encoded
                let s = gen_str(&mut r, 4, &['/', '?', '#', 'é', '日', '😀', '"', '<', '>', '+', '.']);
                if s.is_empty() {
                    writeln!(f, "pathparam 61")?
                } else {
                    writeln!(f, "pathparam {}", hex(s.as_bytes()))?
                }
            }
            10 | 11 => {
                // the same raw-segment domain, through a real <Router> application (flat and nested routes)
                let avoid = ['/', '?', '#', 'é', '日', '😀', '"', '<', '>', '+', '.'];
                let mut seg = |r: &mut Rng| {
                    let s = gen_str(r, 3, &avoid);
                    if s.is_empty() { "%2541".to_string() } else { s }
                };
                let (a, b) = (seg(&mut r), seg(&mut r));
                let kind = if r.chance(2, 3) { "nested" } else { "flat" };
                writeln!(f, "routeparam {kind} {} {}", hex(a.as_bytes()), hex(b.as_bytes()))?
            }
            13 | 14 => {
                // FromIterator over pairs with repeated keys, adjacent and not
                let keys = ["id", "sort", "a%41", "é", ""];
                let n = r.range(1, 5);
                let mut ps: Vec<String> = vec![];
                for _ in 0..n {
                    let k = *r.pick(&keys);
                    let v = gen_str(&mut r, 3, &[]);
                    ps.push(format!("{}={}", hex(k.as_bytes()), hex(v.as_bytes())));
                }
                writeln!(f, "collect {}", ps.join(","))?
            }
            12 => {
                let pairs = r.range(1, 3);
                let mut q = String::new();
                for j in 0..pairs {
                    if j > 0 {
                        q.push('&');
                    }
                    if r.chance(1, 2) {
                        q.push('q');
                    } else {
                        q.push_str(&gen_str(&mut r, 2, &['#', '&', '=']));
                    }
                    q.push('=');
                    if r.chance(1, 3) {
                        q.push_str(*r.pick(&["%20", "+", "%09", "%0A", "%C2%A0"]));
                    }
                    q.push_str(&gen_str(&mut r, 4, &['#']));
                    if r.chance(1, 3) {
                        q.push_str(*r.pick(&["%20", "+", "%09", "%0A", "%C2%A0"]));
                    }
                }
                writeln!(f, "hookquery {}", hex(format!("/p?{q}").as_bytes()))?
            }
            _ => {
                let keys = r.range(0, 3);
                let mut groups: Vec<(String, Vec<String>)> = vec![];
                for _ in 0..keys {
                    let k = if r.chance(1, 2) { gen_plain(&mut r, 3) } else { gen_str(&mut r, 2, &[]) };
                    if groups.iter().any(|g| g.0 == k) {
                        continue;
                    }
                    let vs = (0..r.range(1, 2))
                        .map(|_| if r.chance(2, 3) { gen_plain(&mut r, 5) } else { gen_str(&mut r, 3, &[]) })
                        .collect();
                    groups.push((k, vs));
                }
                writeln!(f, "roundtrip {}", show_groups(&groups))?
            }
        }
    }
    f.flush()
}

fn main() {
    match parse_cli() {
        Cmd::Gen { seed, n, ops, .. } => gen(seed, n, &ops).unwrap(),
        Cmd::Run { ops, out } => {
            quiet_panics();
            run_ops(&ops, &out, op).unwrap()
        }
    }
}
