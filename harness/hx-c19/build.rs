//! Emits `--cfg has_yield_hooks` when the reactive_graph this crate is built against
//! contains the C19 yield-point hook (hooks/yield_points.patch) AND the build carries
//! `--cfg leptos_verif`; otherwise the harness compiles to a stub that reports `no-hooks`
//! for every case (which the check then reports as "property not shown", never as passing).
use std::path::Path;
fn main() {
    println!("cargo:rerun-if-changed=Cargo.toml");
    println!("cargo:rerun-if-env-changed=RUSTFLAGS");
    println!("cargo:rerun-if-env-changed=CARGO_ENCODED_RUSTFLAGS");
    let manifest = std::fs::read_to_string("Cargo.toml").unwrap_or_default();
    // the path dependency line: reactive_graph = { path = "<dir>", ...
    let dir = manifest
        .lines()
        .find(|l| l.trim_start().starts_with("reactive_graph"))
        .and_then(|l| l.split("path = \"").nth(1))
        .and_then(|r| r.split('"').next())
        .unwrap_or("/repo/reactive_graph")
        .to_string();
    let hook = Path::new(&dir).join("src/verif_hooks.rs");
    println!("cargo:rerun-if-changed={}", hook.display());
    let flags = std::env::var("CARGO_ENCODED_RUSTFLAGS").unwrap_or_default()
        + &std::env::var("RUSTFLAGS").unwrap_or_default();
    if hook.exists() && flags.contains("leptos_verif") {
        println!("cargo:rustc-cfg=has_yield_hooks");
        // hooks/yield_points_v2.patch: the `sources:clearing` point
        let src = std::fs::read_to_string(&hook).unwrap_or_default();
        if src.contains("sources:clearing") {
            println!("cargo:rustc-cfg=has_yield_hooks_v2");
        }
    }
}
