//! C19 correspondence harness: real OS threads driven in lock-step through the named yield
//! points of hooks/yield_points.patch (`reactive_graph::verif_hooks`, `--cfg leptos_verif`).
//!
//! Every party of a case is a real thread running real reactive_graph code.  The installed
//! yield callback parks the calling thread at a gated yield point until the controller grants
//! it the next turn; one schedule entry = one *segment* (the code between two yield points).
//! A thread that blocks on a real lock inside its segment is detected (it sleeps in the kernel
//! without having reached a yield point), stays "in flight" and is re-examined after every
//! later step; a watchdog turns anything else that does not come back into `hang`.
//!
//! Op grammar (one op per case; thread ids are single digits, `-` = empty schedule):
//!   case <name>
//!   await <ready|value|ref> <awaiters> <polls> <sched>   party 0 = producer (completes the async
//!        derived's future and polls its task), parties 1.. = awaiters polling by hand
//!   awaitr <ready|value|ref> <awaiters> <polls> <reloads> <sched>   the same with <reloads> further loads (party 0
//!        writes the derived's source, the task stores loading = true and awaits the next fetcher, ...)
//!   dnotify <k> <sched>                                  party 0 = the derived's thread (its task runs `notify_subs`),
//!        parties 1..k call `derived.notify()`; afterwards party 0 writes the derived's source: it must reload
//!   dwrite <ready|value|ref> <polls> <sched>             party 0 is inside `derived.update(|v| ..)` (value write-locked),
//!        party 1 polls the loaded derived by hand
//!   chan <polls> <m1,m2,..> <sched>                      party 0 = receiver task (poll budget),
//!        parties 1.. = senders doing m_i notifies on handles of the same channel
//!   memo <c|d> <prog>/<prog>[/<prog>] <sched>            memo = sig*10, initially clean|dirty;
//!        prog = comma separated ops: g (memo.get) s<v> (sig.set v) h (hold memo.read()) d (drop it)
//!   graph <spec> <c|d> <gates> <prog>/<prog> <sched>     a DAG of memos over one signal (initially 1):
//!        spec = comma separated memo definitions x<c><src> (src*c) a<c><src> (src+c) d<c><src> (src/c)
//!        p<src><src> (sum, read in that order), <src> = s | m<i>; gates = m (the memo:* points incl.
//!        memo:cleared / memo:unlocked) and/or l (sources:clearing); needs hooks/yield_points_v2.patch; prog ops g<i> (memo i .get) s<v> (set)
//!   derived <spec> <prog>/<prog>[/<prog>] <sched>        an ArcAsyncDerived = (last memo of graph <spec> over signal a) * 1000
//!        + signal b (a = 1, b = 10); its task lives on party 0's executor; ops a<v> b<v> (set a / b) g<i> and,
//!        party 0 only, p (poll the executor); party 0 polls once more when all are done; final value = from scratch
//!   effect <spec> <prog>/<prog>[/<prog>] <sched>         the same with an `Effect::new` (its task on party 0's executor) that
//!        computes and logs that value; oracle: the LAST logged value = from scratch
//!   imm <spec> <prog>                                    single thread: an `ImmediateEffect` reading the last memo of
//!        the graph <spec> (see `graph`), then the ops s<v> / g<i>; a hang is `fail hang`
//!   sig <prog>/<prog>[/<prog>] <sched>                   plain signal (initially 1), no hooks: prog ops
//!        r (get) s<v> (set) w<v> .. u (one `sig.update(|n| { *n = v; <the ops up to u> })`: the closure runs
//!        with the value write-locked, as every update does)
//!   stress subs <rounds>                                 two threads re-run memos on one signal (unsubscribe +
//!        subscribe) next to an idle third subscriber; after every round all three must be notified (testing only)
//!   stress writes <family> <threads> <iters>             concurrent increments through one write-handle family
//!        (rw rwguard arcrw arcrwguard write writeguard arcwrite arcwriteguard), no reader; no increment lost
//!   stress effect <seed> <writers> <iters>               free-running threads + watchdog (testing only)
//! Both sides append the same tail to the schedule (3 rounds of 8 entries per party), so every
//! run is a complete one; an entry for a finished / parked-and-not-woken / in-flight party is a no-op.
//!
//! Output: the parties' outcomes and the final values, then `## ok` or `## fail <class>` where the
//! verdict is the property's oracle on what the real threads did: nobody parked forever although the
//! value is ready / the notification was sent; nobody blocked forever; no panic; final values are
//! those of a sequential order.
use hx_common::*;

#[cfg(not(has_yield_hooks))]
fn op(line: &str) -> String {
    let w: Vec<&str> = line.split_whitespace().collect();
    match w.as_slice() {
        ["case", n] => format!("case {n}"),
        _ => "no-hooks (reactive_graph was built without hooks/yield_points.patch or without --cfg leptos_verif)".into(),
    }
}

#[cfg(has_yield_hooks)]
mod real {
    use super::*;
    use futures::{channel::oneshot, Stream};
    use reactive_graph::{
        computed::{ArcAsyncDerived, ArcMemo},
        effect::Effect,
        owner::Owner,
        signal::ArcRwSignal,
        traits::{Get, GetUntracked, Set},
        verif_hooks::{set_yield_hook, verif_channel},
    };
    use std::{
        cell::RefCell,
        future::Future,
        panic::{catch_unwind, AssertUnwindSafe},
        pin::Pin,
        sync::{
            atomic::{AtomicBool, AtomicUsize, Ordering::SeqCst},
            Arc, Condvar, Mutex, Once,
        },
        task::{Context, Poll},
        time::{Duration, Instant},
    };

    // ------------------------------------------------------------ lock-step engine

    struct St {
        grant: Vec<bool>,
        arrivals: Vec<u64>,
        finished: Vec<bool>,
        last: Vec<&'static str>,
        trace: Vec<Vec<&'static str>>,
        tids: Vec<Option<u32>>,
        /// the party has switched its gates off (sequential post-phase on its own thread)
        open: Vec<bool>,
        released: bool,
    }

    pub struct Shared {
        m: Mutex<St>,
        cv: Condvar,
        /// per party: the yield-point names at which that party is pre-empted
        gates: Vec<Vec<&'static str>>,
    }

    thread_local! {
        static ME: RefCell<Option<(Arc<Shared>, usize)>> = const { RefCell::new(None) };
    }

    fn lock(sh: &Shared) -> std::sync::MutexGuard<'_, St> {
        sh.m.lock().unwrap_or_else(|e| e.into_inner())
    }

    impl Shared {
        /// park the calling party until the controller grants it a turn; true = case was released
        fn yield_at(&self, id: usize, name: &'static str) -> bool {
            let mut st = lock(self);
            if st.released {
                return true;
            }
            st.arrivals[id] += 1;
            st.last[id] = name;
            st.trace[id].push(name);
            self.cv.notify_all();
            while !st.grant[id] && !st.released {
                st = self.cv.wait(st).unwrap_or_else(|e| e.into_inner());
            }
            st.grant[id] = false;
            st.released
        }
        fn seen(&self, id: usize, name: &str) -> bool {
            lock(self).trace[id].iter().any(|n| *n == name)
        }
    }

    /// the process-wide callback given to reactive_graph
    fn hook(name: &'static str) {
        let me = ME.with(|m| m.borrow().clone());
        if let Some((sh, id)) = me {
            if sh.gates[id].iter().any(|g| *g == name) && !lock(&sh).open[id] {
                sh.yield_at(id, name);
            }
        }
    }

    fn install_hook() {
        static ONCE: Once = Once::new();
        ONCE.call_once(|| set_yield_hook(Some(Arc::new(hook))));
    }

    /// the calling party runs the rest of its program without being pre-empted at hook points
    fn open_gates() {
        let me = ME.with(|m| m.borrow().clone());
        if let Some((sh, id)) = me {
            lock(&sh).open[id] = true;
        }
    }

    fn close_gates() {
        let me = ME.with(|m| m.borrow().clone());
        if let Some((sh, id)) = me {
            lock(&sh).open[id] = false;
        }
    }

    /// harness-level yield point inside a party program
    fn yield_here(name: &'static str) -> bool {
        let me = ME.with(|m| m.borrow().clone());
        match me {
            Some((sh, id)) => sh.yield_at(id, name),
            None => true,
        }
    }

    fn my_tid() -> Option<u32> {
        let p = std::fs::read_link("/proc/thread-self").ok()?;
        p.file_name()?.to_str()?.parse().ok()
    }

    /// Where a thread of this process sleeps: `Some(addr)` = inside a futex wait on `addr`,
    /// `None` = running / runnable / anything else.  (/proc/self/task/<tid>/syscall: number 202 =
    /// futex on x86_64, 98 on aarch64; first argument = the futex word.)
    fn futex_wait_addr(tid: u32) -> Option<usize> {
        let stat = std::fs::read_to_string(format!("/proc/self/task/{tid}/stat")).ok()?;
        let rest = &stat[stat.rfind(')')? + 1..];
        if rest.trim_start().chars().next()? != 'S' {
            return None;
        }
        let sc = std::fs::read_to_string(format!("/proc/self/task/{tid}/syscall")).ok()?;
        let mut it = sc.split_whitespace();
        let nr = it.next()?;
        if nr != "202" && nr != "98" {
            return None;
        }
        usize::from_str_radix(it.next()?.trim_start_matches("0x"), 16).ok()
    }

    #[derive(Clone, Copy, PartialEq, Debug)]
    enum Progress {
        Arrived,
        Finished,
        Blocked,
        Hang,
    }

    pub struct Engine {
        pub sh: Arc<Shared>,
        n: usize,
        inflight: Vec<bool>,
        mark: Vec<u64>,
        handles: Vec<Option<std::thread::JoinHandle<()>>>,
        pub hang: bool,
    }

    impl Engine {
        pub fn new(gates: Vec<Vec<&'static str>>) -> Engine {
            install_hook();
            let n = gates.len();
            let sh = Arc::new(Shared {
                m: Mutex::new(St {
                    grant: vec![false; n],
                    arrivals: vec![0; n],
                    finished: vec![false; n],
                    last: vec![""; n],
                    trace: vec![vec![]; n],
                    tids: vec![None; n],
                    open: vec![false; n],
                    released: false,
                }),
                cv: Condvar::new(),
                gates,
            });
            Engine { sh, n, inflight: vec![false; n], mark: vec![0; n], handles: (0..n).map(|_| None).collect(), hang: false }
        }

        /// start party `id`; the body runs on its own OS thread and must begin with `yield_here("h:start")`
        /// (after any set-up that has to happen on that thread)
        pub fn spawn(&mut self, id: usize, body: impl FnOnce() + Send + 'static) {
            let sh = self.sh.clone();
            let h = std::thread::Builder::new()
                .stack_size(512 * 1024)
                .spawn(move || {
                    ME.with(|m| *m.borrow_mut() = Some((sh.clone(), id)));
                    lock(&sh).tids[id] = my_tid();
                    let _ = catch_unwind(AssertUnwindSafe(body));
                    let mut st = lock(&sh);
                    st.finished[id] = true;
                    sh.cv.notify_all();
                })
                .expect("spawn");
            self.handles[id] = Some(h);
        }

        /// wait until party `t` has arrived at a yield point after arrival number `c`, finished, or is blocked
        fn wait_progress(&self, t: usize, c: u64, long: bool) -> Progress {
            let deadline = Instant::now() + Duration::from_millis(if long { 8000 } else { 4000 });
            let mut sleepy = 0;
            let mut last_addr: Option<usize> = None;
            loop {
                let tid = {
                    let st = lock(&self.sh);
                    if st.finished[t] {
                        return Progress::Finished;
                    }
                    if st.arrivals[t] > c {
                        return Progress::Arrived;
                    }
                    let (st, _) = self
                        .sh
                        .cv
                        .wait_timeout(st, Duration::from_micros(if sleepy == 0 { 150 } else { 500 }))
                        .unwrap_or_else(|e| e.into_inner());
                    if st.finished[t] {
                        return Progress::Finished;
                    }
                    if st.arrivals[t] > c {
                        return Progress::Arrived;
                    }
                    st.tids[t]
                };
                // blocked = asleep in a futex that is not one of the engine's own (mutex / condvar
                // words live inside `Shared`), on the same word for several consecutive samples
                let lo = Arc::as_ptr(&self.sh) as usize;
                let hi = lo + std::mem::size_of::<Shared>();
                match tid.and_then(futex_wait_addr) {
                    Some(a) if !(lo..hi).contains(&a) => {
                        if last_addr == Some(a) {
                            sleepy += 1
                        } else {
                            sleepy = 1;
                            last_addr = Some(a)
                        }
                    }
                    _ => {
                        sleepy = 0;
                        last_addr = None
                    }
                }
                // ~4 ms on one foreign futex word: long enough that a thread merely waiting for a briefly
                // held allocator / runtime lock under heavy machine load is not mistaken for a blocked one
                if sleepy >= 8 {
                    let st = lock(&self.sh);
                    if st.finished[t] {
                        return Progress::Finished;
                    }
                    if st.arrivals[t] > c {
                        return Progress::Arrived;
                    }
                    return Progress::Blocked;
                }
                if Instant::now() > deadline {
                    return Progress::Hang;
                }
            }
        }

        /// wait until every party has reached its first yield point
        pub fn wait_all_started(&mut self) {
            for t in 0..self.n {
                // a starting thread cannot be blocked on a lock of the code under test: keep waiting
                let deadline = Instant::now() + Duration::from_secs(5);
                loop {
                    match self.wait_progress(t, 0, true) {
                        Progress::Arrived | Progress::Finished => break,
                        Progress::Blocked if Instant::now() < deadline => continue,
                        _ => {
                            self.hang = true;
                            break;
                        }
                    }
                }
            }
        }

        pub fn finished(&self, t: usize) -> bool {
            lock(&self.sh).finished[t]
        }
        pub fn last(&self, t: usize) -> &'static str {
            lock(&self.sh).last[t]
        }
        pub fn in_flight(&self, t: usize) -> bool {
            self.inflight[t]
        }

        fn settle(&mut self) {
            loop {
                let mut changed = false;
                for u in 0..self.n {
                    if self.inflight[u] {
                        match self.wait_progress(u, self.mark[u], false) {
                            Progress::Arrived | Progress::Finished => {
                                self.inflight[u] = false;
                                changed = true;
                            }
                            Progress::Blocked => {}
                            Progress::Hang => {
                                self.hang = true;
                                return;
                            }
                        }
                    }
                }
                if !changed {
                    return;
                }
            }
        }

        /// one schedule entry; `skip(t)` = party t is parked at a harness-level point and not runnable
        pub fn step(&mut self, t: usize, skip: &dyn Fn(&Engine, usize) -> bool) {
            if t >= self.n || self.hang || self.finished(t) || self.inflight[t] || skip(self, t) {
                return;
            }
            {
                let mut st = lock(&self.sh);
                self.mark[t] = st.arrivals[t];
                st.grant[t] = true;
                self.sh.cv.notify_all();
            }
            match self.wait_progress(t, self.mark[t], false) {
                Progress::Arrived | Progress::Finished => {}
                Progress::Blocked => self.inflight[t] = true,
                Progress::Hang => self.hang = true,
            }
            self.settle();
        }

        pub fn run(&mut self, sched: &[usize], skip: &dyn Fn(&Engine, usize) -> bool) {
            for &t in sched {
                self.step(t, skip);
            }
            for _ in 0..3 {
                for t in 0..self.n {
                    for _ in 0..8 {
                        self.step(t, skip);
                    }
                }
            }
        }

        /// end of case: let everything that can still run go, join what finishes, abandon the rest
        pub fn release(&mut self) {
            {
                let mut st = lock(&self.sh);
                st.released = true;
                self.sh.cv.notify_all();
            }
            let deadline = Instant::now() + Duration::from_millis(200);
            for t in 0..self.n {
                loop {
                    if self.finished(t) {
                        if let Some(h) = self.handles[t].take() {
                            let _ = h.join();
                        }
                        break;
                    }
                    if self.inflight[t] || Instant::now() > deadline {
                        // really stuck (deadlock): abandon the thread
                        self.handles[t].take();
                        break;
                    }
                    std::thread::sleep(Duration::from_micros(200));
                }
            }
        }
    }

    fn parse_sched(s: &str) -> Option<Vec<usize>> {
        if s == "-" {
            return Some(vec![]);
        }
        s.chars().map(|c| c.to_digit(10).map(|d| d as usize)).collect()
    }

    // ------------------------------------------------------------ scenario: await

    const AWAIT_GATES: [&[&str]; 3] = [
        &["ready:loaded", "ready:pushed"],
        &["await:loaded", "await:pushed"],
        &["await_ref:loaded", "await_ref:pushed"],
    ];

    struct AwaiterLog {
        trace: String,
        woken: Arc<AtomicBool>,
        parked: bool,
        done: bool,
    }

    fn run_await(kind: usize, n_aw: usize, polls: usize, reloads: usize, sched: &[usize]) -> String {
        let mut gates: Vec<Vec<&'static str>> =
            vec![vec!["notify_subs:enter", "notify_subs:stored", "notify_subs:drained"]];
        for _ in 0..n_aw {
            gates.push(AWAIT_GATES[kind].to_vec());
        }
        let mut eng = Engine::new(gates);
        let slot: Arc<Mutex<Option<ArcAsyncDerived<u32>>>> = Arc::new(Mutex::new(None));
        let producer_done = Arc::new(AtomicBool::new(false));
        let logs: Vec<Arc<Mutex<AwaiterLog>>> = (0..n_aw)
            .map(|_| {
                Arc::new(Mutex::new(AwaiterLog {
                    trace: String::new(),
                    woken: Arc::new(AtomicBool::new(false)),
                    parked: false,
                    done: false,
                }))
            })
            .collect();
        {
            let slot = slot.clone();
            let producer_done = producer_done.clone();
            let sh = eng.sh.clone();
            eng.spawn(0, move || {
                sched::install();
                let owner = Owner::new();
                owner.set();
                // one fetcher (oneshot) per load; a reload is triggered by writing `src` on this thread
                let src = ArcRwSignal::new(0u32);
                let mut txs = vec![];
                let mut rxs = std::collections::VecDeque::new();
                for _ in 0..=reloads {
                    let (tx, rx) = oneshot::channel::<u32>();
                    txs.push(tx);
                    rxs.push_back(rx);
                }
                let rxs = Arc::new(Mutex::new(rxs));
                let d = {
                    let src = src.clone();
                    ArcAsyncDerived::new(move || {
                        let _ = src.get();
                        let rx = rxs.lock().unwrap().pop_front();
                        async move {
                            match rx {
                                Some(rx) => rx.await.unwrap_or(0),
                                None => 0,
                            }
                        }
                    })
                };
                // the derived's task: consumes the initial notification, stores loading = true, awaits the fetcher
                sched::run_until_idle(16);
                *slot.lock().unwrap() = Some(d.clone());
                for (k, tx) in txs.into_iter().enumerate() {
                    if k == 0 {
                        if yield_here("h:start") {
                            return;
                        }
                    } else {
                        // the previous load is complete: start the next one
                        if yield_here("h:reload") {
                            return;
                        }
                        src.set(k as u32);
                        sched::run_until_idle(16);
                        if yield_here("h:load") {
                            return;
                        }
                    }
                    let _ = tx.send(7 + k as u32);
                    loop {
                        // polls the task: fut completes -> set_inner_value -> value.write().await -> notify_subs
                        sched::run_until_idle(16);
                        if lock(&sh).trace[0].iter().filter(|n| **n == "notify_subs:drained").count() > k {
                            break;
                        }
                        // the value lock is read-held by an awaiter inside its poll: the task is Pending on it
                        if yield_here("h:idle") {
                            return;
                        }
                    }
                }
                producer_done.store(true, SeqCst);
                drop(owner);
            });
        }
        for i in 0..n_aw {
            let slot = slot.clone();
            let log = logs[i].clone();
            eng.spawn(1 + i, move || {
                if yield_here("h:start") {
                    return;
                }
                let d = slot.lock().unwrap().clone().expect("derived");
                let (waker, flag) = sched::flag_waker();
                log.lock().unwrap().woken = flag.clone();
                let mut cx = Context::from_waker(&waker);
                enum F {
                    Ready(Pin<Box<dyn Future<Output = ()>>>),
                    Value(Pin<Box<dyn Future<Output = u32>>>),
                    Ref(ArcAsyncDerived<u32>),
                }
                let mut f = match kind {
                    0 => F::Ready(Box::pin(d.ready())),
                    1 => F::Value(Box::pin(std::future::IntoFuture::into_future(d.clone()))),
                    _ => F::Ref(d.clone()),
                };
                let mut left = polls;
                while left > 0 {
                    left -= 1;
                    let r: Option<String> = match &mut f {
                        F::Ready(f) => match f.as_mut().poll(&mut cx) {
                            Poll::Ready(()) => Some("R".into()),
                            Poll::Pending => None,
                        },
                        F::Value(f) => match f.as_mut().poll(&mut cx) {
                            Poll::Ready(v) => Some(format!("R{v}")),
                            Poll::Pending => None,
                        },
                        F::Ref(d) => {
                            let mut fut = Box::pin(d.by_ref());
                            match fut.as_mut().poll(&mut cx) {
                                Poll::Ready(g) => Some(format!("R{}", *g)),
                                Poll::Pending => None,
                            }
                        }
                    };
                    match r {
                        Some(s) => {
                            let mut l = log.lock().unwrap();
                            l.trace.push_str(&s);
                            l.done = true;
                            return;
                        }
                        None => {
                            {
                                let mut l = log.lock().unwrap();
                                l.trace.push('P');
                                l.parked = true;
                            }
                            if yield_here("h:park") {
                                return;
                            }
                            // granted only when the flag waker has fired
                            flag.store(false, SeqCst);
                            log.lock().unwrap().parked = false;
                        }
                    }
                }
                log.lock().unwrap().done = true;
            });
        }
        eng.wait_all_started();
        let logs2 = logs.clone();
        let skip = move |e: &Engine, t: usize| -> bool {
            t >= 1 && e.last(t) == "h:park" && !logs2[t - 1].lock().unwrap().woken.load(SeqCst)
        };
        eng.run(sched, &skip);
        // observation (sequential, after the run)
        let p = if producer_done.load(SeqCst) { "done" } else if eng.in_flight(0) { "blocked" } else { "wait" };
        let ready_now = {
            // loading == false  <=>  a fresh ready() future is Ready (polled on this thread, which is no party)
            let d = slot.lock().unwrap().clone();
            match d {
                Some(d) => {
                    let w = sched::noop_waker();
                    let mut cx = Context::from_waker(&w);
                    let mut f = Box::pin(d.ready());
                    f.as_mut().poll(&mut cx).is_ready()
                }
                None => false,
            }
        };
        let fin_val = slot
            .lock()
            .unwrap()
            .as_ref()
            .and_then(|d| catch_unwind(AssertUnwindSafe(|| d.get_untracked())).ok().flatten());
        let mut out = format!("p={p}");
        let mut lost = false;
        let mut stuck = eng.hang;
        for (i, l) in logs.iter().enumerate() {
            let l = l.lock().unwrap();
            let st = if l.done && l.trace.contains('R') {
                "ready"
            } else if l.done {
                "gaveup"
            } else if eng.in_flight(1 + i) {
                stuck = true;
                "blocked"
            } else if l.parked && eng.last(1 + i) == "h:park" {
                if l.woken.load(SeqCst) {
                    "woken"
                } else {
                    if ready_now {
                        lost = true;
                    }
                    "parked"
                }
            } else {
                stuck = true;
                "mid"
            };
            out.push_str(&format!(" a{}={}/{}", i + 1, if l.trace.is_empty() { "-" } else { &l.trace }, st));
        }
        out.push_str(&format!(
            " fin={}:{}",
            if ready_now { "ready" } else { "loading" },
            fin_val.map(|v| v.to_string()).unwrap_or("none".into())
        ));
        if p != "done" {
            stuck = true;
        }
        eng.release();
        let verdict = if stuck {
            "fail hang"
        } else if lost {
            "fail lost-wakeup"
        } else {
            "ok"
        };
        format!("{out} ## {verdict}")
    }

    // ------------------------------------------------------------ scenario: dnotify / dwrite

    const NOTIFY_GATES: &[&str] = &["notify_subs:enter", "notify_subs:stored", "notify_subs:drained"];

    /// party 0 = the async derived's own thread (completes the fetcher, polls the task: `notify_subs`),
    /// parties 1..=k call `derived.notify()` (the public `Notify` impl = `notify_subs`) once each.
    /// When everybody is done party 0 writes the derived's source signal and runs its executor:
    /// the derived must load again (its state must not be stuck at `Notifying`).
    fn run_dnotify(k: usize, sched: &[usize]) -> String {
        use reactive_graph::traits::Notify;
        let mut eng = Engine::new((0..=k).map(|_| NOTIFY_GATES.to_vec()).collect());
        let slot: Arc<Mutex<Option<ArcAsyncDerived<u32>>>> = Arc::new(Mutex::new(None));
        let calls = Arc::new(AtomicUsize::new(0));
        let post: Arc<Mutex<Option<String>>> = Arc::new(Mutex::new(None));
        {
            let slot = slot.clone();
            let calls = calls.clone();
            let post = post.clone();
            let sh = eng.sh.clone();
            eng.spawn(0, move || {
                sched::install();
                let owner = Owner::new();
                owner.set();
                let src = ArcRwSignal::new(1u32);
                let (tx, rx) = oneshot::channel::<u32>();
                let rx = Arc::new(Mutex::new(Some(rx)));
                let d = {
                    let src = src.clone();
                    let calls = calls.clone();
                    ArcAsyncDerived::new(move || {
                        calls.fetch_add(1, SeqCst);
                        let v = src.get();
                        let rx = rx.lock().unwrap().take();
                        async move {
                            match rx {
                                Some(rx) => rx.await.unwrap_or(0),
                                None => v,
                            }
                        }
                    })
                };
                sched::run_until_idle(16);
                *slot.lock().unwrap() = Some(d.clone());
                if yield_here("h:start") {
                    return;
                }
                let _ = tx.send(7);
                loop {
                    sched::run_until_idle(16);
                    if sh.seen(0, "notify_subs:drained") {
                        break;
                    }
                    if yield_here("h:idle") {
                        return;
                    }
                }
                // granted only when every notifier has returned
                if yield_here("h:post") {
                    return;
                }
                open_gates();
                src.set(5);
                sched::run_until_idle(64);
                let v = catch_unwind(AssertUnwindSafe(|| d.get_untracked())).ok().flatten();
                *post.lock().unwrap() = Some(v.map(|v| v.to_string()).unwrap_or("none".into()));
                drop(owner);
            });
        }
        let done: Vec<Arc<AtomicBool>> = (0..k).map(|_| Arc::new(AtomicBool::new(false))).collect();
        for i in 0..k {
            let slot = slot.clone();
            let done = done[i].clone();
            eng.spawn(1 + i, move || {
                if yield_here("h:start") {
                    return;
                }
                let d = slot.lock().unwrap().clone().expect("derived");
                d.notify();
                done.store(true, SeqCst);
            });
        }
        eng.wait_all_started();
        let done2 = done.clone();
        let skip = move |e: &Engine, t: usize| -> bool {
            t == 0 && e.last(0) == "h:post" && !done2.iter().all(|d| d.load(SeqCst))
        };
        eng.run(sched, &skip);
        let stuck = eng.hang || (0..=k).any(|t| !eng.finished(t));
        let post = post.lock().unwrap().clone();
        let c = calls.load(SeqCst);
        eng.release();
        let out = format!("calls={c} fin={}", post.clone().unwrap_or("-".into()));
        let verdict = if stuck || post.is_none() {
            "fail hang"
        } else if c < 2 {
            "fail notifying-stuck"
        } else {
            "ok"
        };
        format!("{out} ## {verdict}")
    }

    /// party 0 = a thread inside `derived.update(|v| ..)` (the closure runs with the value's async lock
    /// write-held, as every write through the `Write` impl does); party 1 = an awaiter polling by hand.
    /// The derived is already loaded (`loading = false`).
    fn run_dwrite(kind: usize, polls: usize, sched: &[usize]) -> String {
        use reactive_graph::traits::Update;
        let mut eng = Engine::new(vec![vec![], AWAIT_GATES[kind].to_vec()]);
        let slot: Arc<Mutex<Option<ArcAsyncDerived<u32>>>> = Arc::new(Mutex::new(None));
        let wdone = Arc::new(AtomicBool::new(false));
        let log = Arc::new(Mutex::new(AwaiterLog {
            trace: String::new(),
            woken: Arc::new(AtomicBool::new(false)),
            parked: false,
            done: false,
        }));
        {
            let slot = slot.clone();
            let wdone = wdone.clone();
            eng.spawn(0, move || {
                sched::install();
                let owner = Owner::new();
                owner.set();
                let d = ArcAsyncDerived::new(move || async move { 7u32 });
                sched::run_until_idle(32);
                *slot.lock().unwrap() = Some(d.clone());
                if yield_here("h:start") {
                    return;
                }
                let mut released = false;
                d.update(|v| {
                    *v = Some(9);
                    released = yield_here("h:in-update");
                });
                if released {
                    return;
                }
                wdone.store(true, SeqCst);
                drop(owner);
            });
        }
        {
            let slot = slot.clone();
            let log = log.clone();
            eng.spawn(1, move || {
                if yield_here("h:start") {
                    return;
                }
                let d = slot.lock().unwrap().clone().expect("derived");
                let (waker, flag) = sched::flag_waker();
                log.lock().unwrap().woken = flag.clone();
                let mut cx = Context::from_waker(&waker);
                let mut fut_v: Pin<Box<dyn Future<Output = u32>>> = Box::pin(std::future::IntoFuture::into_future(d.clone()));
                let mut fut_r: Pin<Box<dyn Future<Output = ()>>> = Box::pin(d.ready());
                let mut left = polls;
                while left > 0 {
                    left -= 1;
                    let r: Option<String> = match kind {
                        0 => match fut_r.as_mut().poll(&mut cx) {
                            Poll::Ready(()) => Some("R".into()),
                            Poll::Pending => None,
                        },
                        1 => match fut_v.as_mut().poll(&mut cx) {
                            Poll::Ready(v) => Some(format!("R{v}")),
                            Poll::Pending => None,
                        },
                        _ => {
                            let mut fut = Box::pin(d.by_ref());
                            match fut.as_mut().poll(&mut cx) {
                                Poll::Ready(g) => Some(format!("R{}", *g)),
                                Poll::Pending => None,
                            }
                        }
                    };
                    match r {
                        Some(s) => {
                            let mut l = log.lock().unwrap();
                            l.trace.push_str(&s);
                            l.done = true;
                            return;
                        }
                        None => {
                            {
                                let mut l = log.lock().unwrap();
                                l.trace.push('P');
                                l.parked = true;
                            }
                            if yield_here("h:park") {
                                return;
                            }
                            flag.store(false, SeqCst);
                            log.lock().unwrap().parked = false;
                        }
                    }
                }
                log.lock().unwrap().done = true;
            });
        }
        eng.wait_all_started();
        let log2 = log.clone();
        let skip = move |e: &Engine, t: usize| -> bool {
            t == 1 && e.last(1) == "h:park" && !log2.lock().unwrap().woken.load(SeqCst)
        };
        eng.run(sched, &skip);
        let w = if wdone.load(SeqCst) { "done" } else { "wait" };
        let l = log.lock().unwrap();
        let mut lost = false;
        let mut stuck = eng.hang || w != "done";
        let st = if l.done && l.trace.contains('R') {
            "ready"
        } else if l.done {
            "gaveup"
        } else if l.parked && eng.last(1) == "h:park" {
            if l.woken.load(SeqCst) {
                "woken"
            } else {
                lost = w == "done";
                "parked"
            }
        } else {
            stuck = true;
            "mid"
        };
        let out = format!("w={w} a1={}/{}", if l.trace.is_empty() { "-" } else { &l.trace }, st);
        drop(l);
        eng.release();
        let verdict = if stuck {
            "fail hang"
        } else if lost {
            "fail lost-wakeup-writer"
        } else {
            "ok"
        };
        format!("{out} ## {verdict}")
    }

    // ------------------------------------------------------------ scenario: chan

    fn run_chan(polls: usize, notifies: &[usize], sched: &[usize]) -> String {
        let mut gates: Vec<Vec<&'static str>> = vec![vec!["recv:registered"]];
        for _ in notifies {
            gates.push(vec!["notify:stored"]);
        }
        let mut eng = Engine::new(gates);
        let (master, rx) = verif_channel();
        let rx = Arc::new(Mutex::new(Some(rx)));
        let (waker, flag) = sched::flag_waker();
        let runs = Arc::new(AtomicUsize::new(0));
        let rdone = Arc::new(AtomicBool::new(false));
        {
            let rx = rx.clone();
            let runs = runs.clone();
            let rdone = rdone.clone();
            let flag = flag.clone();
            eng.spawn(0, move || {
                let mut cx = Context::from_waker(&waker);
                let mut left = polls;
                if yield_here("h:start") {
                    return;
                }
                loop {
                    if left == 0 {
                        rdone.store(true, SeqCst);
                        return;
                    }
                    left -= 1;
                    let r = {
                        let mut g = rx.lock().unwrap();
                        Pin::new(g.as_mut().unwrap()).poll_next(&mut cx)
                    };
                    match r {
                        Poll::Ready(Some(())) => {
                            runs.fetch_add(1, SeqCst);
                            if yield_here("h:poll") {
                                return;
                            }
                        }
                        Poll::Ready(None) => {
                            rdone.store(true, SeqCst);
                            return;
                        }
                        Poll::Pending => {
                            if yield_here("h:park") {
                                return;
                            }
                            flag.store(false, SeqCst);
                            if yield_here("h:poll") {
                                return;
                            }
                        }
                    }
                }
            });
        }
        let sdone: Vec<Arc<AtomicUsize>> = notifies.iter().map(|_| Arc::new(AtomicUsize::new(0))).collect();
        for (i, &m) in notifies.iter().enumerate() {
            let mut tx = master.clone_handle();
            let done = sdone[i].clone();
            eng.spawn(1 + i, move || {
                for k in 0..m {
                    if yield_here(if k == 0 { "h:start" } else { "h:next" }) {
                        std::mem::forget(tx);
                        return;
                    }
                    tx.notify();
                    done.fetch_add(1, SeqCst);
                }
                if m == 0 {
                    yield_here("h:start");
                }
                // keep the channel alive: dropping the last handle wakes the receiver (Inner::drop)
                std::mem::forget(tx);
            });
        }
        eng.wait_all_started();
        let flag2 = flag.clone();
        let skip = move |e: &Engine, t: usize| -> bool { t == 0 && e.last(0) == "h:park" && !flag2.load(SeqCst) };
        eng.run(sched, &skip);
        let all_sent = sdone.iter().zip(notifies).all(|(d, m)| d.load(SeqCst) == *m);
        let state = if rdone.load(SeqCst) {
            "done"
        } else if eng.in_flight(0) {
            "blocked"
        } else {
            match eng.last(0) {
                "h:park" => "parked",
                "h:poll" | "h:start" => "idle",
                _ => "mid",
            }
        };
        let woken = flag.load(SeqCst);
        let stuck = eng.hang || !all_sent || state == "mid" || state == "blocked";
        eng.release();
        // the flag, observed by one more poll on this thread after all parties are gone
        let set = {
            let w = sched::noop_waker();
            let mut cx = Context::from_waker(&w);
            let mut g = rx.lock().unwrap();
            matches!(Pin::new(g.as_mut().unwrap()).poll_next(&mut cx), Poll::Ready(Some(())))
        };
        let sent: Vec<String> = sdone.iter().map(|d| d.load(SeqCst).to_string()).collect();
        let out = format!(
            "runs={} recv={} woken={} set={} sent={}",
            runs.load(SeqCst),
            state,
            woken as u8,
            set as u8,
            if sent.is_empty() { "-".into() } else { sent.join(",") }
        );
        std::mem::forget(master);
        let verdict = if stuck {
            "fail hang"
        } else if state == "parked" && !woken && set {
            "fail lost-notify"
        } else {
            "ok"
        };
        format!("{out} ## {verdict}")
    }

    // ------------------------------------------------------------ scenario: memo

    #[derive(Clone, Copy, PartialEq, Debug)]
    enum MOp {
        Get,
        Set(u32),
        Hold,
        Drop,
    }

    fn parse_prog(s: &str) -> Option<Vec<MOp>> {
        if s == "-" {
            return Some(vec![]);
        }
        s.split(',')
            .map(|o| match o {
                "g" => Some(MOp::Get),
                "h" => Some(MOp::Hold),
                "d" => Some(MOp::Drop),
                _ => o.strip_prefix('s').and_then(|v| v.parse().ok()).filter(|v| *v < 1000).map(MOp::Set),
            })
            .collect()
    }

    const MEMO_GATES: &[&str] =
        &["memo:before-take", "memo:taken", "memo:before-reactivity", "memo:reactivity-held", "memo:released"];

    fn run_memo(clean: bool, progs: &[Vec<MOp>], sched: &[usize]) -> String {
        let n = progs.len();
        let mut eng = Engine::new((0..n).map(|_| MEMO_GATES.to_vec()).collect());
        let sig = ArcRwSignal::new(1u32);
        let memo = {
            let sig = sig.clone();
            ArcMemo::new(move |_| sig.get() * 10)
        };
        if clean {
            let _ = memo.get_untracked();
        }
        let results: Vec<Arc<Mutex<Vec<String>>>> = (0..n).map(|_| Arc::new(Mutex::new(vec![]))).collect();
        for (i, prog) in progs.iter().enumerate() {
            let prog = prog.clone();
            let res = results[i].clone();
            let sig = sig.clone();
            let memo = memo.clone();
            eng.spawn(i, move || {
                let mut guard = None;
                for (k, op) in prog.iter().enumerate() {
                    if yield_here(if k == 0 { "h:start" } else { "h:next" }) {
                        return;
                    }
                    let r = match *op {
                        MOp::Get => match catch_unwind(AssertUnwindSafe(|| memo.get_untracked())) {
                            Ok(v) => v.to_string(),
                            Err(_) => "panic".into(),
                        },
                        MOp::Set(v) => match catch_unwind(AssertUnwindSafe(|| sig.set(v))) {
                            Ok(()) => ".".into(),
                            Err(_) => "panic".into(),
                        },
                        MOp::Hold => match catch_unwind(AssertUnwindSafe(|| memo.read_untracked_guard())) {
                            // the guard maps lazily: `unwrap()` of the memo's `Option` runs at deref
                            Ok(g) => match catch_unwind(AssertUnwindSafe(|| *g)) {
                                Ok(v) => {
                                    guard = Some(g);
                                    format!("h{v}")
                                }
                                Err(_) => {
                                    drop(g);
                                    "panic".into()
                                }
                            },
                            Err(_) => "panic".into(),
                        },
                        MOp::Drop => {
                            guard = None;
                            ".".into()
                        }
                    };
                    res.lock().unwrap().push(r);
                }
                if prog.is_empty() {
                    yield_here("h:start");
                }
                drop(guard);
            });
        }
        eng.wait_all_started();
        eng.run(sched, &|_, _| false);
        let mut out = String::new();
        let mut dead = eng.hang;
        let mut panicked = false;
        let mut seen_vals: Vec<u32> = vec![1];
        for p in progs {
            for o in p {
                if let MOp::Set(v) = o {
                    seen_vals.push(*v)
                }
            }
        }
        let mut bad = false;
        for i in 0..n {
            let r = results[i].lock().unwrap();
            let mut parts: Vec<String> = r.clone();
            for _ in r.len()..progs[i].len() {
                parts.push("?".into());
            }
            if !eng.finished(i) {
                dead = true;
            }
            for (k, s) in r.iter().enumerate() {
                if s == "panic" {
                    panicked = true
                } else if matches!(progs[i][k], MOp::Get | MOp::Hold) {
                    let v: u32 = s.trim_start_matches('h').parse().unwrap_or(u32::MAX);
                    if !seen_vals.iter().any(|x| x * 10 == v) {
                        bad = true
                    }
                }
            }
            out.push_str(&format!("p{}={} ", i, if parts.is_empty() { "-".into() } else { parts.join(",") }));
        }
        eng.release();
        let (fin, stale) = if dead {
            ("fin=-".to_string(), false)
        } else {
            let s = sig.get_untracked();
            match catch_unwind(AssertUnwindSafe(|| memo.get_untracked())) {
                Ok(m) => (format!("fin={m}:{s}"), m != s * 10),
                Err(_) => {
                    panicked = true;
                    (format!("fin=panic:{s}"), false)
                }
            }
        };
        out.push_str(&fin);
        let verdict = if dead {
            "fail guard-deadlock"
        } else if panicked {
            "fail memo-read-panic"
        } else if stale {
            "fail memo-stale"
        } else if bad {
            "fail memo-bad-value"
        } else {
            "ok"
        };
        format!("{out} ## {verdict}")
    }

    trait GuardExt {
        type G: std::ops::Deref<Target = u32>;
        fn read_untracked_guard(&self) -> Self::G;
    }
    impl GuardExt for ArcMemo<u32> {
        type G = <ArcMemo<u32> as reactive_graph::traits::ReadUntracked>::Value;
        fn read_untracked_guard(&self) -> Self::G {
            reactive_graph::traits::ReadUntracked::read_untracked(self)
        }
    }

    // ------------------------------------------------------------ scenario: graph

    #[derive(Clone, Copy, PartialEq, Debug)]
    enum GSrc {
        Sig,
        Memo(usize),
    }
    #[derive(Clone, Copy, PartialEq, Debug)]
    enum GFn {
        Mul(u64),
        Add(u64),
        Div(u64),
        Plus,
    }
    #[derive(Clone, Debug)]
    struct GDef {
        f: GFn,
        reads: Vec<GSrc>,
    }
    #[derive(Clone, Copy, PartialEq, Debug)]
    enum GOp {
        Get(usize),
        Set(u64),
    }

    /// `x<c><src>` = src*c, `a<c><src>` = src+c, `d<c><src>` = src/c, `p<src><src>` = first + second
    /// (read in that order); `<src>` = `s` (the signal) or `m<i>` (an earlier memo, one digit)
    fn parse_graph(spec: &str) -> Option<Vec<GDef>> {
        let mut defs: Vec<GDef> = vec![];
        for tok in spec.split(',') {
            let cs: Vec<char> = tok.chars().collect();
            let mut i = 1;
            let src = |i: &mut usize, n: usize| -> Option<GSrc> {
                match cs.get(*i)? {
                    's' => {
                        *i += 1;
                        Some(GSrc::Sig)
                    }
                    'm' => {
                        let d = cs.get(*i + 1)?.to_digit(10)? as usize;
                        *i += 2;
                        (d < n).then_some(GSrc::Memo(d))
                    }
                    _ => None,
                }
            };
            let n = defs.len();
            let def = match cs.first()? {
                'p' => {
                    let a = src(&mut i, n)?;
                    let b = src(&mut i, n)?;
                    GDef { f: GFn::Plus, reads: vec![a, b] }
                }
                k @ ('x' | 'a' | 'd') => {
                    let mut c: u64 = 0;
                    let mut any = false;
                    while let Some(d) = cs.get(i).and_then(|c| c.to_digit(10)) {
                        c = c * 10 + d as u64;
                        i += 1;
                        any = true;
                    }
                    if !any || c >= 1000 || (*k == 'd' && c == 0) {
                        return None;
                    }
                    let a = src(&mut i, n)?;
                    GDef { f: match k { 'x' => GFn::Mul(c), 'a' => GFn::Add(c), _ => GFn::Div(c) }, reads: vec![a] }
                }
                _ => return None,
            };
            if i != cs.len() {
                return None;
            }
            defs.push(def);
        }
        (!defs.is_empty() && defs.len() <= 5).then_some(defs)
    }

    fn parse_gprog(s: &str, n: usize) -> Option<Vec<GOp>> {
        if s == "-" {
            return Some(vec![]);
        }
        s.split(',')
            .map(|o| {
                let (c, v) = o.split_at(1.min(o.len()));
                let v: u64 = v.parse().ok()?;
                match c {
                    "g" => (v < n as u64).then_some(GOp::Get(v as usize)),
                    "s" => (v < 1000).then_some(GOp::Set(v)),
                    _ => None,
                }
            })
            .collect()
    }

    fn apply_fn(f: GFn, a: &[u64]) -> u64 {
        match f {
            GFn::Mul(c) => a[0] * c,
            GFn::Add(c) => a[0] + c,
            GFn::Div(c) => a[0] / c,
            GFn::Plus => a[0] + a[1],
        }
    }

    /// from-scratch values of all memos for a signal value (the oracle's reference)
    fn scratch(defs: &[GDef], sig: u64) -> Vec<u64> {
        let mut vals: Vec<u64> = vec![];
        for d in defs {
            let a: Vec<u64> = d.reads.iter().map(|s| match s { GSrc::Sig => sig, GSrc::Memo(j) => vals[*j] }).collect();
            vals.push(apply_fn(d.f, &a));
        }
        vals
    }

    /// a DAG of `ArcMemo`s over one `ArcRwSignal` (initially 1); parties get memos / set the signal
    fn run_graph(defs: &[GDef], clean: bool, gates: &str, progs: &[Vec<GOp>], sched: &[usize]) -> String {
        let n = progs.len();
        let mut g: Vec<&'static str> = vec![];
        if gates.contains('m') {
            g.extend_from_slice(MEMO_GATES);
            // v2: a thread that releases a memo's lock parks right after the release, so that a thread
            // blocked on that lock runs to its next yield point alone (deterministic replay)
            g.push("memo:cleared");
            g.push("memo:unlocked");
        }
        if gates.contains('l') {
            g.push("sources:clearing");
        }
        let mut eng = Engine::new((0..n).map(|_| g.clone()).collect());
        let sig = ArcRwSignal::new(1u64);
        let mut memos: Vec<ArcMemo<u64>> = vec![];
        for d in defs {
            let srcs: Vec<(GSrc, Option<ArcMemo<u64>>)> = d
                .reads
                .iter()
                .map(|s| (*s, match s { GSrc::Memo(j) => Some(memos[*j].clone()), GSrc::Sig => None }))
                .collect();
            let sig = sig.clone();
            let f = d.f;
            memos.push(ArcMemo::new(move |_| {
                let a: Vec<u64> = srcs.iter().map(|(_, m)| match m { Some(m) => m.get(), None => sig.get() }).collect();
                apply_fn(f, &a)
            }));
        }
        if clean {
            for m in &memos {
                let _ = m.get_untracked();
            }
        }
        let results: Vec<Arc<Mutex<Vec<String>>>> = (0..n).map(|_| Arc::new(Mutex::new(vec![]))).collect();
        for (i, prog) in progs.iter().enumerate() {
            let prog = prog.clone();
            let res = results[i].clone();
            let sig = sig.clone();
            let memos = memos.clone();
            eng.spawn(i, move || {
                for (k, op) in prog.iter().enumerate() {
                    if yield_here(if k == 0 { "h:start" } else { "h:next" }) {
                        return;
                    }
                    let r = match *op {
                        GOp::Get(j) => match catch_unwind(AssertUnwindSafe(|| memos[j].get_untracked())) {
                            Ok(v) => v.to_string(),
                            Err(_) => "panic".into(),
                        },
                        GOp::Set(v) => match catch_unwind(AssertUnwindSafe(|| sig.set(v))) {
                            Ok(()) => ".".into(),
                            Err(_) => "panic".into(),
                        },
                    };
                    res.lock().unwrap().push(r);
                }
                if prog.is_empty() {
                    yield_here("h:start");
                }
            });
        }
        eng.wait_all_started();
        eng.run(sched, &|_, _| false);
        let mut out = String::new();
        let mut dead = eng.hang;
        let mut panicked = false;
        let mut bad = false;
        let mut hist: Vec<Vec<u64>> = vec![scratch(defs, 1)];
        for p in progs {
            for o in p {
                if let GOp::Set(v) = o {
                    hist.push(scratch(defs, *v));
                }
            }
        }
        for i in 0..n {
            let r = results[i].lock().unwrap();
            let mut parts: Vec<String> = r.clone();
            for _ in r.len()..progs[i].len() {
                parts.push("?".into());
            }
            if !eng.finished(i) {
                dead = true;
            }
            for (k, s) in r.iter().enumerate() {
                if s == "panic" {
                    panicked = true
                } else if let GOp::Get(j) = progs[i][k] {
                    let v: u64 = s.parse().unwrap_or(u64::MAX);
                    if !hist.iter().any(|h| h[j] == v) {
                        bad = true
                    }
                }
            }
            out.push_str(&format!("p{}={} ", i, if parts.is_empty() { "-".into() } else { parts.join(",") }));
        }
        eng.release();
        let mut stale = false;
        if dead {
            out.push_str("fin=-");
        } else {
            // every operation has returned: read all memos again, in index order
            let s = sig.get_untracked();
            let want = scratch(defs, s);
            let mut fin: Vec<String> = vec![];
            for (j, m) in memos.iter().enumerate() {
                match catch_unwind(AssertUnwindSafe(|| m.get_untracked())) {
                    Ok(v) => {
                        stale |= v != want[j];
                        fin.push(v.to_string())
                    }
                    Err(_) => {
                        panicked = true;
                        fin.push("panic".into())
                    }
                }
            }
            out.push_str(&format!("fin={}:{s}", fin.join(",")));
        }
        let verdict = if dead {
            "fail memo-deadlock"
        } else if panicked {
            "fail memo-read-panic"
        } else if stale {
            "fail memo-stale"
        } else if bad {
            "fail memo-bad-value"
        } else {
            "ok"
        };
        format!("{out} ## {verdict}")
    }

    // ------------------------------------------------------------ scenario: derived

    #[derive(Clone, Copy, PartialEq, Debug)]
    enum DOp {
        Get(usize),
        SetA(u64),
        SetB(u64),
        Poll,
    }

    fn parse_dprog(s: &str, n: usize, party: usize) -> Option<Vec<DOp>> {
        if s == "-" {
            return Some(vec![]);
        }
        s.split(',')
            .map(|o| {
                if o == "p" {
                    return (party == 0).then_some(DOp::Poll);
                }
                let (c, v) = o.split_at(1.min(o.len()));
                let v: u64 = v.parse().ok()?;
                match c {
                    "g" => (v < n as u64).then_some(DOp::Get(v as usize)),
                    "a" => (v < 1000).then_some(DOp::SetA(v)),
                    "b" => (v < 1000).then_some(DOp::SetB(v)),
                    _ => None,
                }
            })
            .collect()
    }

    /// An `ArcAsyncDerived` = (last memo of the graph over signal `a`) * 1000 + signal `b`, its task on
    /// party 0's executor (polled by the op `p` and once more when everybody is done).  Other parties
    /// write the signals / read memos while the task is inside `needs_rerun`'s source check (pre-empted
    /// at the memo:* points of the memo it is checking).  Oracle: final value = from-scratch.
    fn run_derived(as_effect: bool, defs: &[GDef], progs: &[Vec<DOp>], sched: &[usize]) -> String {
        let n = progs.len();
        let mut g: Vec<&'static str> = MEMO_GATES.to_vec();
        g.push("memo:cleared");
        g.push("memo:unlocked");
        let mut eng = Engine::new((0..n).map(|_| g.clone()).collect());
        type Handles = (ArcRwSignal<u64>, ArcRwSignal<u64>, Vec<ArcMemo<u64>>);
        let slot: Arc<Mutex<Option<Handles>>> = Arc::new(Mutex::new(None));
        let results: Vec<Arc<Mutex<Vec<String>>>> = (0..n).map(|_| Arc::new(Mutex::new(vec![]))).collect();
        let fin: Arc<Mutex<Option<String>>> = Arc::new(Mutex::new(None));
        let others_done: Vec<Arc<AtomicBool>> = (1..n).map(|_| Arc::new(AtomicBool::new(false))).collect();
        let run_op = |op: DOp, h: &Handles| -> String {
            match op {
                DOp::Get(j) => match catch_unwind(AssertUnwindSafe(|| h.2[j].get_untracked())) {
                    Ok(v) => v.to_string(),
                    Err(_) => "panic".into(),
                },
                DOp::SetA(v) => match catch_unwind(AssertUnwindSafe(|| h.0.set(v))) {
                    Ok(()) => ".".into(),
                    Err(_) => "panic".into(),
                },
                DOp::SetB(v) => match catch_unwind(AssertUnwindSafe(|| h.1.set(v))) {
                    Ok(()) => ".".into(),
                    Err(_) => "panic".into(),
                },
                DOp::Poll => {
                    match catch_unwind(AssertUnwindSafe(|| sched::run_until_idle(64))) {
                        Ok(_) => ".".into(),
                        Err(_) => "panic".into(),
                    }
                }
            }
        };
        {
            let defs = defs.to_vec();
            let prog = progs[0].clone();
            let (slot, res, fin) = (slot.clone(), results[0].clone(), fin.clone());
            eng.spawn(0, move || {
                sched::install();
                // set-up (first load included) runs unpreempted
                open_gates();
                let owner = Owner::new();
                owner.set();
                let a = ArcRwSignal::new(1u64);
                let b = ArcRwSignal::new(10u64);
                let mut memos: Vec<ArcMemo<u64>> = vec![];
                for d in &defs {
                    let srcs: Vec<Option<ArcMemo<u64>>> =
                        d.reads.iter().map(|s| match s { GSrc::Memo(j) => Some(memos[*j].clone()), GSrc::Sig => None }).collect();
                    let a = a.clone();
                    let f = d.f;
                    memos.push(ArcMemo::new(move |_| {
                        let x: Vec<u64> = srcs.iter().map(|m| match m { Some(m) => m.get(), None => a.get() }).collect();
                        apply_fn(f, &x)
                    }));
                }
                // the node under test: an async derived, or an `Effect` logging what it computes
                let elog: Arc<Mutex<Vec<u64>>> = Arc::new(Mutex::new(vec![]));
                let (derived, effect) = {
                    let last = memos.last().unwrap().clone();
                    let b = b.clone();
                    if as_effect {
                        let elog = elog.clone();
                        (
                            None,
                            Some(Effect::new(move |_| {
                                let x = last.get();
                                let y = b.get();
                                elog.lock().unwrap().push(x * 1000 + y);
                            })),
                        )
                    } else {
                        (
                            Some(ArcAsyncDerived::new(move || {
                                let x = last.get();
                                let y = b.get();
                                async move { x * 1000 + y }
                            })),
                            None,
                        )
                    }
                };
                sched::run_until_idle(64);
                close_gates();
                let h: Handles = (a.clone(), b.clone(), memos.clone());
                *slot.lock().unwrap() = Some(h.clone());
                for (k, op) in prog.iter().enumerate() {
                    if yield_here(if k == 0 { "h:start" } else { "h:next" }) {
                        return;
                    }
                    let r = run_op(*op, &h);
                    res.lock().unwrap().push(r);
                }
                if prog.is_empty() && yield_here("h:start") {
                    return;
                }
                // granted only when every other party has returned
                if yield_here("h:post") {
                    return;
                }
                open_gates();
                sched::run_until_idle(64);
                let v = match &derived {
                    Some(d) => catch_unwind(AssertUnwindSafe(|| d.get_untracked())).ok().flatten(),
                    None => elog.lock().unwrap().last().copied(),
                };
                drop(effect);
                // then every memo once more, in index order
                let ms: Vec<String> = memos
                    .iter()
                    .map(|m| match catch_unwind(AssertUnwindSafe(|| m.get_untracked())) {
                        Ok(v) => v.to_string(),
                        Err(_) => "panic".into(),
                    })
                    .collect();
                *fin.lock().unwrap() = Some(format!(
                    "{}:{},{} m={}",
                    v.map(|v| v.to_string()).unwrap_or("none".into()),
                    a.get_untracked(),
                    b.get_untracked(),
                    ms.join(",")
                ));
                drop(owner);
            });
        }
        for i in 1..n {
            let prog = progs[i].clone();
            let (slot, res, done) = (slot.clone(), results[i].clone(), others_done[i - 1].clone());
            eng.spawn(i, move || {
                if yield_here("h:start") {
                    return;
                }
                let h = slot.lock().unwrap().clone().expect("handles");
                for (k, op) in prog.iter().enumerate() {
                    if k > 0 && yield_here("h:next") {
                        return;
                    }
                    let r = run_op(*op, &h);
                    res.lock().unwrap().push(r);
                }
                done.store(true, SeqCst);
            });
        }
        eng.wait_all_started();
        let od = others_done.clone();
        let skip = move |e: &Engine, t: usize| -> bool {
            t == 0 && e.last(0) == "h:post" && !od.iter().all(|d| d.load(SeqCst))
        };
        eng.run(sched, &skip);
        let mut out = String::new();
        let mut dead = eng.hang;
        let mut panicked = false;
        for i in 0..n {
            let r = results[i].lock().unwrap();
            let mut parts: Vec<String> = r.clone();
            for _ in r.len()..progs[i].len() {
                parts.push("?".into());
            }
            if !eng.finished(i) {
                dead = true;
            }
            panicked |= r.iter().any(|s| s == "panic");
            out.push_str(&format!("p{}={} ", i, if parts.is_empty() { "-".into() } else { parts.join(",") }));
        }
        let f = fin.lock().unwrap().clone();
        eng.release();
        let mut stale = false;
        let mut memo_stale = false;
        match &f {
            Some(f) if !dead => {
                out.push_str(&format!("fin={f}"));
                // fin = value:a,b m=m0,m1,..
                let (head, ms) = f.split_once(" m=").unwrap();
                let (v, ab) = head.split_once(':').unwrap();
                let (a, b) = ab.split_once(',').unwrap();
                let sc = scratch(defs, a.parse().unwrap());
                let want = sc.last().unwrap() * 1000 + b.parse::<u64>().unwrap();
                stale = v != want.to_string();
                let got: Vec<&str> = ms.split(',').collect();
                panicked |= got.iter().any(|x| *x == "panic");
                memo_stale = got.iter().zip(&sc).any(|(g, w)| *g != "panic" && *g != w.to_string());
            }
            _ => {
                dead = true;
                out.push_str("fin=-");
            }
        }
        let verdict = if dead {
            "fail hang"
        } else if panicked {
            "fail memo-read-panic"
        } else if memo_stale {
            // the memo itself lost a write (F-C19-3); the derived then faithfully shows the stale memo
            "fail memo-stale"
        } else if stale {
            if as_effect {
                "fail effect-stale"
            } else {
                "fail derived-stale"
            }
        } else {
            "ok"
        };
        format!("{out} ## {verdict}")
    }

    // ------------------------------------------------------------ scenario: imm

    /// single thread: an `ImmediateEffect` (runs synchronously inside `mark_check` / `mark_dirty`) that reads
    /// the LAST memo of the graph and logs what it read; ops `s<v>` (set the signal) and `g<i>`.  A hang
    /// (the thread never comes back from an op) is reported through the engine's blocked-thread detection.
    fn run_imm(defs: &[GDef], prog: &[GOp]) -> String {
        use reactive_graph::effect::ImmediateEffect;
        let mut eng = Engine::new(vec![vec![]]);
        let log: Arc<Mutex<Vec<u64>>> = Arc::new(Mutex::new(vec![]));
        let res: Arc<Mutex<Vec<String>>> = Arc::new(Mutex::new(vec![]));
        let fin: Arc<Mutex<Option<String>>> = Arc::new(Mutex::new(None));
        {
            let defs = defs.to_vec();
            let prog = prog.to_vec();
            let (log, res, fin) = (log.clone(), res.clone(), fin.clone());
            eng.spawn(0, move || {
                let owner = Owner::new();
                owner.set();
                let sig = ArcRwSignal::new(1u64);
                let mut memos: Vec<ArcMemo<u64>> = vec![];
                for d in &defs {
                    let srcs: Vec<Option<ArcMemo<u64>>> =
                        d.reads.iter().map(|s| match s { GSrc::Memo(j) => Some(memos[*j].clone()), GSrc::Sig => None }).collect();
                    let sig = sig.clone();
                    let f = d.f;
                    memos.push(ArcMemo::new(move |_| {
                        let a: Vec<u64> = srcs.iter().map(|m| match m { Some(m) => m.get(), None => sig.get() }).collect();
                        apply_fn(f, &a)
                    }));
                }
                if yield_here("h:start") {
                    return;
                }
                let watched = memos.last().unwrap().clone();
                let effect = {
                    let log = log.clone();
                    ImmediateEffect::new(move || {
                        let v = watched.get();
                        log.lock().unwrap().push(v);
                    })
                };
                for op in &prog {
                    let r = match *op {
                        GOp::Get(j) => match catch_unwind(AssertUnwindSafe(|| memos[j].get_untracked())) {
                            Ok(v) => v.to_string(),
                            Err(_) => "panic".into(),
                        },
                        GOp::Set(v) => match catch_unwind(AssertUnwindSafe(|| sig.set(v))) {
                            Ok(()) => ".".into(),
                            Err(_) => "panic".into(),
                        },
                    };
                    res.lock().unwrap().push(r);
                }
                let f: Vec<String> = memos.iter().map(|m| m.get_untracked().to_string()).collect();
                *fin.lock().unwrap() = Some(format!("{}:{}", f.join(","), sig.get_untracked()));
                drop(effect);
                drop(owner);
            });
        }
        eng.wait_all_started();
        eng.run(&[0], &|_, _| false);
        let dead = eng.hang || !eng.finished(0);
        let r = res.lock().unwrap().clone();
        let mut parts = r.clone();
        for _ in r.len()..prog.len() {
            parts.push("?".into());
        }
        let l: Vec<String> = log.lock().unwrap().iter().map(|v| v.to_string()).collect();
        let f = fin.lock().unwrap().clone();
        eng.release();
        // oracle: the effect saw the watched memo's from-scratch value after every completed write,
        // exactly once per change
        let mut want: Vec<u64> = vec![*scratch(defs, 1).last().unwrap()];
        for o in prog {
            if let GOp::Set(v) = o {
                let w = *scratch(defs, *v).last().unwrap();
                if *want.last().unwrap() != w {
                    want.push(w);
                }
            }
        }
        let want: Vec<String> = want.iter().map(|v| v.to_string()).collect();
        // compared observable: op results, the LAST value the effect logged, final values.  (How often the
        // synchronous effect runs during one propagation, and which intermediate values it sees, is not
        // C19's subject; the full log goes to the `##` detail only.)
        let out = format!(
            "p0={} last={} fin={}",
            if parts.is_empty() { "-".into() } else { parts.join(",") },
            l.last().cloned().unwrap_or("-".into()),
            f.clone().unwrap_or("-".into())
        );
        let verdict = if dead || f.is_none() {
            "fail hang".to_string()
        } else if r.iter().any(|x| x == "panic") {
            "fail memo-read-panic".to_string()
        } else if l.last() != want.last() {
            "fail effect-stale".to_string()
        } else {
            format!("ok log={}", l.join(","))
        };
        format!("{out} ## {verdict}")
    }

    // ------------------------------------------------------------ scenario: sig

    #[derive(Clone, Copy, PartialEq, Debug)]
    enum SOp {
        Read,
        Set(u32),
        HoldWrite(u32),
        Unhold,
    }

    fn parse_sprog(s: &str) -> Option<Vec<SOp>> {
        if s == "-" {
            return Some(vec![]);
        }
        s.split(',')
            .map(|o| match o {
                "r" => Some(SOp::Read),
                "u" => Some(SOp::Unhold),
                _ => {
                    let (c, v) = o.split_at(1.min(o.len()));
                    let v: u32 = v.parse().ok().filter(|v| *v < 1000)?;
                    match c {
                        "s" => Some(SOp::Set(v)),
                        "w" => Some(SOp::HoldWrite(v)),
                        _ => None,
                    }
                }
            })
            .collect()
    }

    /// Runs the ops of one party from `*k` on.  `w<v>` is `sig.update(|n| { *n = v; ...following ops... })`:
    /// the ops up to the matching `u` run inside the update closure, i.e. while the signal's value
    /// lock is write-held by this thread (an `update` in progress, ordinary use of the API).
    /// Returns true when the case was released.
    fn sig_exec(
        sig: &ArcRwSignal<u32>,
        prog: &[SOp],
        k: &mut usize,
        res: &Mutex<Vec<String>>,
        inside: bool,
    ) -> bool {
        use reactive_graph::traits::Update;
        while *k < prog.len() {
            if yield_here(if *k == 0 { "h:start" } else { "h:next" }) {
                return true;
            }
            let op = prog[*k];
            *k += 1;
            match op {
                SOp::Read => {
                    let r = match catch_unwind(AssertUnwindSafe(|| sig.get_untracked())) {
                        Ok(v) => v.to_string(),
                        Err(_) => "panic".into(),
                    };
                    res.lock().unwrap().push(r);
                }
                SOp::Set(v) => {
                    let r = match catch_unwind(AssertUnwindSafe(|| sig.set(v))) {
                        Ok(()) => ".".to_string(),
                        Err(_) => "panic".into(),
                    };
                    res.lock().unwrap().push(r);
                }
                SOp::HoldWrite(v) => {
                    let mut released = false;
                    let r = catch_unwind(AssertUnwindSafe(|| {
                        sig.update(|n| {
                            *n = v;
                            res.lock().unwrap().push(".".into());
                            released = sig_exec(sig, prog, k, res, true);
                        })
                    }));
                    if r.is_err() {
                        res.lock().unwrap().push("panic".into());
                    }
                    if released {
                        return true;
                    }
                }
                SOp::Unhold => {
                    res.lock().unwrap().push(".".into());
                    if inside {
                        return false;
                    }
                }
            }
        }
        false
    }

    /// plain signal, no hooks needed: reads take the value lock with `try_read` (signal/guards.rs
    /// `Plain::try_new`), writes block; `w<v>` .. `u` is one `update` whose closure spans schedule entries
    fn run_sig(progs: &[Vec<SOp>], sched: &[usize]) -> String {
        let n = progs.len();
        let mut eng = Engine::new((0..n).map(|_| vec![]).collect());
        let sig = ArcRwSignal::new(1u32);
        let results: Vec<Arc<Mutex<Vec<String>>>> =
            (0..n).map(|_| Arc::new(Mutex::new(vec![]))).collect();
        for (i, prog) in progs.iter().enumerate() {
            let prog = prog.clone();
            let res = results[i].clone();
            let sig = sig.clone();
            eng.spawn(i, move || {
                let mut k = 0usize;
                sig_exec(&sig, &prog, &mut k, &res, false);
                if prog.is_empty() {
                    yield_here("h:start");
                }
            });
        }
        eng.wait_all_started();
        eng.run(sched, &|_, _| false);
        let mut out = String::new();
        let mut dead = eng.hang;
        let mut panicked = false;
        for i in 0..n {
            let r = results[i].lock().unwrap();
            let mut parts: Vec<String> = r.clone();
            for _ in r.len()..progs[i].len() {
                parts.push("?".into());
            }
            if !eng.finished(i) {
                dead = true;
            }
            panicked |= r.iter().any(|s| s == "panic");
            out.push_str(&format!("p{}={} ", i, if parts.is_empty() { "-".into() } else { parts.join(",") }));
        }
        eng.release();
        if dead {
            out.push_str("fin=-");
        } else {
            out.push_str(&format!("fin={}", sig.get_untracked()));
        }
        let verdict = if dead {
            "fail hang"
        } else if panicked {
            "fail read-during-write"
        } else {
            "ok"
        };
        format!("{out} ## {verdict}")
    }

    // ------------------------------------------------------------ stress (testing only)

    /// Bounded real-thread stress (testing, no lock-step): subscribe / unsubscribe on ONE signal's subscriber
    /// set from two threads with an idle third subscriber.  Per round the main thread re-runs m1, m2, v in
    /// this order (subscriber list [m1, m2, v]); two workers then re-run m1 and m2 at the same time (each
    /// drops its sources = `remove_subscriber` on the shared signal, and subscribes again); then the shared
    /// signal is written: every one of the three must be notified.  At HEAD find-and-remove is one critical
    /// section, so a failure here can only come from a changed implementation (no false alarm).
    fn run_stress_subs(rounds: usize) -> String {
        let (txr, rxr) = std::sync::mpsc::channel::<String>();
        std::thread::spawn(move || {
            use std::sync::Barrier;
            let memo_sum = |p: &ArcRwSignal<u64>, s: &ArcRwSignal<u64>| {
                let (p, s) = (p.clone(), s.clone());
                ArcMemo::new(move |_| p.get() * 1_000_000 + s.get())
            };
            let s = ArcRwSignal::new(0u64);
            let ps: Vec<ArcRwSignal<u64>> = (0..3).map(|_| ArcRwSignal::new(0u64)).collect();
            let ms: Vec<ArcMemo<u64>> = ps.iter().map(|p| memo_sum(p, &s)).collect();
            let barrier = Arc::new(Barrier::new(3));
            let stop = Arc::new(AtomicBool::new(false));
            let mut hs = vec![];
            for i in 0..2 {
                let (p, m, barrier, stop) = (ps[i].clone(), ms[i].clone(), barrier.clone(), stop.clone());
                hs.push(std::thread::spawn(move || {
                    let mut round = 0u64;
                    loop {
                        barrier.wait();
                        if stop.load(SeqCst) {
                            break;
                        }
                        round += 1;
                        p.set(round);
                        let _ = m.get_untracked();
                        barrier.wait();
                    }
                }));
            }
            let mut failure = None;
            let t0 = Instant::now();
            for round in 1..=rounds as u64 {
                for i in 0..3 {
                    ps[i].set(round - 1);
                    let _ = ms[i].get_untracked();
                }
                barrier.wait();
                barrier.wait();
                s.set(round);
                let got: Vec<u64> = ms.iter().map(|m| m.get_untracked()).collect();
                let want = vec![round * 1_000_000 + round, round * 1_000_000 + round, (round - 1) * 1_000_000 + round];
                if got != want {
                    failure = Some(format!("lost round={round} got={got:?} want={want:?}"));
                    break;
                }
                if t0.elapsed() > Duration::from_secs(20) {
                    break;
                }
            }
            stop.store(true, SeqCst);
            barrier.wait();
            for h in hs {
                let _ = h.join();
            }
            let _ = txr.send(failure.unwrap_or("kept".into()));
        });
        match rxr.recv_timeout(Duration::from_secs(40)) {
            Ok(s) if s == "kept" => "kept ## ok".into(),
            Ok(s) => format!("{} ## fail subscriber-lost", s.replace(' ', "_")),
            Err(_) => "hang ## fail hang".into(),
        }
    }

    /// Bounded real-thread stress (testing): `threads` threads increment one signal `iters` times each through
    /// one write-handle family, nobody reads; every write path blocks for the value lock, so no increment may
    /// be lost: final value = threads * iters.
    fn run_stress_writes(family: &str, threads: usize, iters: usize) -> String {
        use reactive_graph::{
            signal::{arc_signal, signal, RwSignal},
            traits::{Update, Write},
        };
        let family = family.to_string();
        let (txr, rxr) = std::sync::mpsc::channel::<String>();
        std::thread::spawn(move || {
            let owner = Owner::new();
            owner.set();
            let want = (threads * iters) as u64;
            let run = |f: Arc<dyn Fn() + Send + Sync>| {
                let hs: Vec<_> = (0..threads)
                    .map(|_| {
                        let f = f.clone();
                        std::thread::spawn(move || {
                            for _ in 0..iters {
                                f()
                            }
                        })
                    })
                    .collect();
                for h in hs {
                    let _ = h.join();
                }
            };
            let got: u64 = match family.as_str() {
                "rw" => {
                    let s = RwSignal::new(0u64);
                    run(Arc::new(move || s.update(|n| *n += 1)));
                    s.get_untracked()
                }
                "rwguard" => {
                    let s = RwSignal::new(0u64);
                    run(Arc::new(move || *s.write() += 1));
                    s.get_untracked()
                }
                "arcrw" => {
                    let s = ArcRwSignal::new(0u64);
                    let s2 = s.clone();
                    run(Arc::new(move || s2.update(|n| *n += 1)));
                    s.get_untracked()
                }
                "arcrwguard" => {
                    let s = ArcRwSignal::new(0u64);
                    let s2 = s.clone();
                    run(Arc::new(move || *s2.write() += 1));
                    s.get_untracked()
                }
                "write" => {
                    let (r, w) = signal(0u64);
                    run(Arc::new(move || w.update(|n| *n += 1)));
                    r.get_untracked()
                }
                "writeguard" => {
                    let (r, w) = signal(0u64);
                    run(Arc::new(move || *w.write() += 1));
                    r.get_untracked()
                }
                "arcwrite" => {
                    let (r, w) = arc_signal(0u64);
                    run(Arc::new(move || w.update(|n| *n += 1)));
                    r.get_untracked()
                }
                _ => {
                    let (r, w) = arc_signal(0u64);
                    run(Arc::new(move || *w.write() += 1));
                    r.get_untracked()
                }
            };
            let _ = txr.send(if got == want { "exact".into() } else { format!("lost got={got} want={want}") });
            drop(owner);
        });
        match rxr.recv_timeout(Duration::from_secs(40)) {
            Ok(s) if s == "exact" => "exact ## ok".into(),
            Ok(s) => format!("{} ## fail write-lost", s.replace(' ', "_")),
            Err(_) => "hang ## fail hang".into(),
        }
    }

    fn run_stress_effect(seed: u64, writers: usize, iters: usize) -> String {
        let (txr, rxr) = std::sync::mpsc::channel::<String>();
        std::thread::spawn(move || {
            sched::install();
            let owner = Owner::new();
            owner.set();
            let sig = ArcRwSignal::new(0u64);
            let seen = Arc::new(Mutex::new((0u64, 0usize)));
            let _e = {
                let sig = sig.clone();
                let seen = seen.clone();
                Effect::new(move |_| {
                    // `try_get`: a read that collides with a concurrent write fails (try_read,
                    // finding F-C19-4); the effect is subscribed before the read, so the write's
                    // notification re-runs it.  The stress is about that notification path.
                    if let Some(v) = sig.try_get() {
                        let mut s = seen.lock().unwrap();
                        s.0 = v;
                        s.1 += 1;
                    }
                })
            };
            sched::run_until_idle(64);
            let stop = Arc::new(AtomicUsize::new(0));
            let mut hs = vec![];
            for w in 0..writers {
                let sig = sig.clone();
                let stop = stop.clone();
                let mut r = Rng::new(seed.wrapping_mul(31).wrapping_add(w as u64));
                hs.push(std::thread::spawn(move || {
                    for k in 0..iters {
                        sig.set(((w as u64 + 1) << 32) | (k as u64 + 1));
                        for _ in 0..r.below(200) {
                            std::hint::spin_loop();
                        }
                        if r.chance(1, 8) {
                            std::thread::yield_now();
                        }
                    }
                    stop.fetch_add(1, SeqCst);
                }));
            }
            // the executor thread keeps polling while the writers run
            let t0 = Instant::now();
            while stop.load(SeqCst) < writers && t0.elapsed() < Duration::from_secs(8) {
                sched::run_until_idle(64);
                std::hint::spin_loop();
            }
            for h in hs {
                let _ = h.join();
            }
            sched::run_until_idle(1024);
            let fin = sig.get_untracked();
            let s = *seen.lock().unwrap();
            let idle = sched::ready().is_empty();
            let _ = txr.send(if s.0 == fin && idle { "converged".into() } else { format!("stale seen={} final={} idle={}", s.0, fin, idle) });
            drop(owner);
        });
        match rxr.recv_timeout(Duration::from_secs(10)) {
            Ok(s) if s == "converged" => "converged ## ok".into(),
            Ok(s) => format!("{s} ## fail effect-not-converged"),
            Err(_) => "hang ## fail hang".into(),
        }
    }

    pub fn op(line: &str) -> String {
        let w: Vec<&str> = line.split_whitespace().collect();
        match w.as_slice() {
            ["case", n] => {
                // tag = scenario family (the case name without its running number)
                let tag = n.trim_end_matches(|c: char| c.is_ascii_digit()).trim_end_matches('-');
                format!("case {n} tags={}", if tag.is_empty() { "case" } else { tag })
            }
            ["await", kind, n_aw, polls, s] => {
                let kind = match *kind {
                    "ready" => 0,
                    "value" => 1,
                    "ref" => 2,
                    _ => return "bad-op".into(),
                };
                let (Ok(n_aw), Ok(polls), Some(s)) = (n_aw.parse::<usize>(), polls.parse::<usize>(), parse_sched(s)) else {
                    return "bad-op".into();
                };
                if n_aw == 0 || n_aw > 3 || polls == 0 || polls > 4 {
                    return "bad-op".into();
                }
                run_await(kind, n_aw, polls, 0, &s)
            }
            ["awaitr", kind, n_aw, polls, reloads, s] => {
                let kind = match *kind {
                    "ready" => 0,
                    "value" => 1,
                    "ref" => 2,
                    _ => return "bad-op".into(),
                };
                let (Ok(n_aw), Ok(polls), Ok(reloads), Some(s)) =
                    (n_aw.parse::<usize>(), polls.parse::<usize>(), reloads.parse::<usize>(), parse_sched(s))
                else {
                    return "bad-op".into();
                };
                if n_aw == 0 || n_aw > 3 || polls == 0 || polls > 4 || reloads > 2 {
                    return "bad-op".into();
                }
                run_await(kind, n_aw, polls, reloads, &s)
            }
            ["dnotify", k, s] => {
                let (Ok(k), Some(s)) = (k.parse::<usize>(), parse_sched(s)) else { return "bad-op".into() };
                if k == 0 || k > 3 {
                    return "bad-op".into();
                }
                run_dnotify(k, &s)
            }
            ["dwrite", kind, polls, s] => {
                let kind = match *kind {
                    "ready" => 0,
                    "value" => 1,
                    "ref" => 2,
                    _ => return "bad-op".into(),
                };
                let (Ok(polls), Some(s)) = (polls.parse::<usize>(), parse_sched(s)) else { return "bad-op".into() };
                if polls == 0 || polls > 4 {
                    return "bad-op".into();
                }
                run_dwrite(kind, polls, &s)
            }
            ["chan", polls, ms, s] => {
                let ms: Option<Vec<usize>> =
                    if *ms == "-" { Some(vec![]) } else { ms.split(',').map(|m| m.parse().ok()).collect() };
                let (Ok(polls), Some(ms), Some(s)) = (polls.parse::<usize>(), ms, parse_sched(s)) else {
                    return "bad-op".into();
                };
                if polls > 6 || ms.len() > 3 || ms.iter().any(|m| *m > 4) {
                    return "bad-op".into();
                }
                run_chan(polls, &ms, &s)
            }
            ["memo", init, progs, s] => {
                let clean = match *init {
                    "c" => true,
                    "d" => false,
                    _ => return "bad-op".into(),
                };
                let progs: Option<Vec<Vec<MOp>>> = progs.split('/').map(parse_prog).collect();
                let (Some(progs), Some(s)) = (progs, parse_sched(s)) else { return "bad-op".into() };
                if progs.is_empty() || progs.len() > 3 || progs.iter().any(|p| p.len() > 4) {
                    return "bad-op".into();
                }
                run_memo(clean, &progs, &s)
            }
            ["graph", spec, init, gates, progs, s] => {
                let clean = match *init {
                    "c" => true,
                    "d" => false,
                    _ => return "bad-op".into(),
                };
                let Some(defs) = parse_graph(spec) else { return "bad-op".into() };
                if gates.is_empty() || !gates.chars().all(|c| c == 'm' || c == 'l' || c == '-') {
                    return "bad-op".into();
                }
                let progs: Option<Vec<Vec<GOp>>> = progs.split('/').map(|p| parse_gprog(p, defs.len())).collect();
                let (Some(progs), Some(s)) = (progs, parse_sched(s)) else { return "bad-op".into() };
                if progs.is_empty() || progs.len() > 3 || progs.iter().any(|p| p.len() > 4) {
                    return "bad-op".into();
                }
                if !cfg!(has_yield_hooks_v2) {
                    return "no-hooks-v2 (reactive_graph lacks hooks/yield_points_v2.patch)".into();
                }
                run_graph(&defs, clean, gates, &progs, &s)
            }
            [kind @ ("derived" | "effect"), spec, progs, s] => {
                let Some(defs) = parse_graph(spec) else { return "bad-op".into() };
                let progs: Option<Vec<Vec<DOp>>> =
                    progs.split('/').enumerate().map(|(i, p)| parse_dprog(p, defs.len(), i)).collect();
                let (Some(progs), Some(s)) = (progs, parse_sched(s)) else { return "bad-op".into() };
                if progs.is_empty() || progs.len() > 3 || progs.iter().any(|p| p.len() > 5) {
                    return "bad-op".into();
                }
                if !cfg!(has_yield_hooks_v2) {
                    return "no-hooks-v2 (reactive_graph lacks hooks/yield_points_v2.patch)".into();
                }
                run_derived(*kind == "effect", &defs, &progs, &s)
            }
            ["imm", spec, prog] => {
                let Some(defs) = parse_graph(spec) else { return "bad-op".into() };
                let Some(prog) = parse_gprog(prog, defs.len()) else { return "bad-op".into() };
                if prog.len() > 6 {
                    return "bad-op".into();
                }
                run_imm(&defs, &prog)
            }
            ["sig", progs, s] => {
                let progs: Option<Vec<Vec<SOp>>> = progs.split('/').map(parse_sprog).collect();
                let (Some(progs), Some(s)) = (progs, parse_sched(s)) else { return "bad-op".into() };
                if progs.is_empty() || progs.len() > 3 || progs.iter().any(|p| p.len() > 4) {
                    return "bad-op".into();
                }
                run_sig(&progs, &s)
            }
            ["stress", "subs", rounds] => {
                let Ok(rounds) = rounds.parse::<usize>() else { return "bad-op".into() };
                if rounds == 0 || rounds > 2_000_000 {
                    return "bad-op".into();
                }
                run_stress_subs(rounds)
            }
            ["stress", "writes", family, threads, iters] => {
                let (Ok(th), Ok(it)) = (threads.parse::<usize>(), iters.parse::<usize>()) else { return "bad-op".into() };
                if !["rw", "rwguard", "arcrw", "arcrwguard", "write", "writeguard", "arcwrite", "arcwriteguard"].contains(family)
                    || th == 0
                    || th > 4
                    || it > 1_000_000
                {
                    return "bad-op".into();
                }
                run_stress_writes(family, th, it)
            }
            ["stress", "effect", seed, writers, iters] => {
                let (Ok(seed), Ok(wr), Ok(it)) = (seed.parse::<u64>(), writers.parse::<usize>(), iters.parse::<usize>()) else {
                    return "bad-op".into();
                };
                if wr == 0 || wr > 4 || it > 100000 {
                    return "bad-op".into();
                }
                run_stress_effect(seed, wr, it)
            }
            _ => "bad-op".into(),
        }
    }
}

#[cfg(has_yield_hooks)]
use real::op;

// ---------------------------------------------------------------- generator

/// all interleavings of `counts[i]` entries of thread i
fn interleavings(counts: &[usize], cur: &mut Vec<usize>, left: &mut Vec<usize>, out: &mut Vec<String>) {
    if left.iter().all(|c| *c == 0) {
        out.push(if cur.is_empty() { "-".into() } else { cur.iter().map(|d| d.to_string()).collect() });
        return;
    }
    for t in 0..counts.len() {
        if left[t] > 0 {
            left[t] -= 1;
            cur.push(t);
            interleavings(counts, cur, left, out);
            cur.pop();
            left[t] += 1;
        }
    }
}

fn all_interleavings(counts: &[usize]) -> Vec<String> {
    let mut out = vec![];
    interleavings(counts, &mut vec![], &mut counts.to_vec(), &mut out);
    out
}

fn random_sched(r: &mut Rng, counts: &[usize]) -> String {
    let mut left = counts.to_vec();
    let mut s = String::new();
    loop {
        let total: usize = left.iter().sum();
        if total == 0 {
            break;
        }
        // bursty: stay on the same thread with probability 1/3
        let mut k = r.below(total);
        let mut t = 0;
        while k >= left[t] {
            k -= left[t];
            t += 1;
        }
        left[t] -= 1;
        s.push(char::from_digit(t as u32, 10).unwrap());
    }
    if s.is_empty() {
        "-".into()
    } else {
        s
    }
}

fn gen(seed: u64, n: usize, path: &str, tier: &str) -> std::io::Result<()> {
    use std::io::Write;
    let mut r = Rng::new(seed);
    let mut f = std::io::BufWriter::new(std::fs::File::create(path)?);
    let k = std::cell::Cell::new(0usize);
    let emit = |f: &mut std::io::BufWriter<std::fs::File>, tag: &str, line: String| -> std::io::Result<()> {
        writeln!(f, "case {tag}-{}", k.get())?;
        k.set(k.get() + 1);
        writeln!(f, "{line}")
    };
    // exhaustive part: every interleaving of the instrumented segments
    // (segment counts are upper bounds: an entry for a finished party is a no-op, so some
    // schedules are equivalent; equivalent schedules are cheap and harmless)
    for kind in ["ready", "value", "ref"] {
        for s in all_interleavings(&[4, 3]) {
            emit(&mut f, "await2", format!("await {kind} 1 2 {s}"))?;
        }
    }
    for s in all_interleavings(&[4, 3, 3]) {
        emit(&mut f, "await3", format!("await ready 2 2 {s}"))?;
    }
    for s in all_interleavings(&[4, 2]) {
        emit(&mut f, "chan2", format!("chan 2 1 {s}"))?;
    }
    for s in all_interleavings(&[5, 4]) {
        emit(&mut f, "chan2", format!("chan 3 2 {s}"))?;
    }
    for s in all_interleavings(&[4, 2, 2]) {
        emit(&mut f, "chan3", format!("chan 2 1,1 {s}"))?;
    }
    for (init, progs, counts) in [
        ("d", "g/g", vec![6, 6]),
        ("c", "g/s2", vec![1, 1]),
        ("d", "g/s2", vec![6, 1]),
        ("c", "s2,g/g", vec![7, 6]),
        ("d", "g/h,s2,d", vec![6, 8]),
    ] {
        let all = all_interleavings(&counts);
        let cap = if tier == "thorough" { usize::MAX } else { 400 };
        if all.len() <= cap {
            for s in all {
                emit(&mut f, "memo2", format!("memo {init} {progs} {s}"))?;
            }
        } else {
            for _ in 0..cap {
                let s = random_sched(&mut r, &counts);
                emit(&mut f, "memo2", format!("memo {init} {progs} {s}"))?;
            }
        }
    }
    for (progs, counts) in [
        ("w5,u/r", vec![2, 1]),
        ("w5,u/s7,r", vec![2, 2]),
        ("w5,r,u/r,s3", vec![3, 2]),
        ("s2,r/s3,r", vec![2, 2]),
        ("w5,u/w6,u", vec![2, 2]),
    ] {
        for s in all_interleavings(&counts) {
            emit(&mut f, "sig2", format!("sig {progs} {s}"))?;
        }
    }
    // the await path across reloads with two or three awaiters (late re-polls into a refilled waker list)
    for (kind, n_aw, reloads, counts) in [
        ("value", 2, 1, vec![10, 9, 9]),
        ("ready", 2, 1, vec![10, 9, 9]),
        ("ref", 2, 1, vec![10, 9, 9]),
        ("value", 3, 1, vec![10, 9, 9, 9]),
        ("value", 1, 2, vec![15, 12]),
        ("value", 2, 2, vec![15, 12, 12]),
    ] {
        for _ in 0..(if tier == "thorough" { 2000 } else { 150 }) {
            let sc = random_sched(&mut r, &counts);
            emit(&mut f, "awaitr", format!("awaitr {kind} {n_aw} 4 {reloads} {sc}"))?;
        }
    }
    // an async derived over a memo source and a direct signal: marks from other threads while its task checks
    if cfg!(has_yield_hooks_v2) {
        for (spec, progs, counts) in [
            ("d100s", "a2,p/b20", vec![12, 2]),
            ("d100s", "a2,p,p/b20,b30", vec![14, 3]),
            ("d100s", "a2,p,a300,p/b20,a5", vec![24, 3]),
            ("x2s", "a2,p,p/b20,a3", vec![20, 3]),
            ("a1s,d100m0", "a2,p,p/b20,g1", vec![24, 8]),
            ("x0s,a1s,pm0m1", "a2,p,p/b20,a3,g2", vec![34, 20]),
            ("d100s", "a2,p/b20/a3,b40", vec![12, 2, 3]),
            ("d2s", "a2,p,a3,p/b20,b21,g0", vec![22, 9]),
        ] {
            for _ in 0..(if tier == "thorough" { 1500 } else { 100 }) {
                let sc = random_sched(&mut r, &counts);
                emit(&mut f, "derived", format!("derived {spec} {progs} {sc}"))?;
            }
        }
    }
    // the same for an Effect task (its own update loop under cross-thread marks)
    if cfg!(has_yield_hooks_v2) {
        for (spec, progs, counts) in [
            ("d100s", "a2,p/b20", vec![12, 2]),
            ("d100s", "a2,p,p/b20,b30", vec![14, 3]),
            ("d100s", "a2,p,a300,p/b20,a5", vec![24, 3]),
            ("x2s", "a2,p,p/b20,a3", vec![20, 3]),
            ("a1s,d100m0", "a2,p,p/b20,g1", vec![24, 8]),
            ("x0s,a1s,pm0m1", "a2,p,p/b20,a3,g2", vec![34, 20]),
            ("d100s", "a2,p/b20/a3,b40", vec![12, 2, 3]),
            ("d2s", "a2,p,a3,p/b20,b21,g0", vec![22, 9]),
        ] {
            for _ in 0..(if tier == "thorough" { 1500 } else { 100 }) {
                let sc = random_sched(&mut r, &counts);
                emit(&mut f, "effect", format!("effect {spec} {progs} {sc}"))?;
            }
        }
    }
    // single thread, an ImmediateEffect on a memo / memo chain / diamond (F-C19-9: self-deadlock before 0488c9f)
    for spec in ["x2s", "d2s", "a1s,a1m0", "d2s,x3m0,a1m1", "x0s,a1s,pm0m1", "a0s,d100m0,pm1m0", "a1s,a2s,pm0m1,x3m2"] {
        let k = spec.split(',').count();
        for prog in ["s2", "s2,s2,s3", "s1", format!("g{},s5,g{}", k - 1, k - 1).as_str(), "s300,s301,s2", "-"] {
            emit(&mut f, "imm", format!("imm {spec} {prog}"))?;
        }
    }
    // concurrent notify_subs on one async derived; awaiting a loaded derived while it is written
    for s in all_interleavings(&[5, 4]) {
        emit(&mut f, "dnotify", format!("dnotify 1 {s}"))?;
    }
    for _ in 0..(if tier == "thorough" { 3000 } else { 250 }) {
        let s = random_sched(&mut r, &[5, 4, 4]);
        emit(&mut f, "dnotify", format!("dnotify 2 {s}"))?;
    }
    for kind in ["ready", "value", "ref"] {
        for s in all_interleavings(&[2, 3]) {
            emit(&mut f, "dwrite", format!("dwrite {kind} 2 {s}"))?;
        }
    }
    // memo graphs (Check state, several sources, mark propagation): random schedules over fixed shapes
    {
        let l = "ml";
        let shapes: [(&str, &str, &[&str], [usize; 2]); 12] = [
            // the diamond of seed r2-3: zero = s*0, plus1 = s+1, sum = zero + plus1
            ("x0s,a1s,pm0m1", "m", &["s2,g2/g1", "g2/s2,g1", "s2,g2/g2", "s2,g2/s3,g1"], [26, 14]),
            ("x0s,a1s,pm0m1", l, &["s2,g2/g1", "s2,g2/s3"], [34, 14]),
            // an unchanged intermediate read first, its own source second
            ("a0s,d100m0,pm1m0", "m", &["s2,g2/g0", "s2,g2/s3,g2", "s2,g2/g1"], [26, 12]),
            ("a0s,d100m0,pm1m0", l, &["s2,g2/s3", "s2,g2/g0"], [34, 12]),
            // chains
            ("a1s,a1m0", "m", &["s2,g1/g0", "s2,g1/s3", "g1/s2,g1"], [14, 12]),
            ("a1s,a1m0", l, &["s2,g1/s3", "s2,g1/g0", "s2,g1/s3,g1"], [18, 14]),
            ("a1s,x2m0,a1m1", "m", &["s2,g2/g1", "s2,g2/s3,g0"], [22, 14]),
            ("a1s,x2m0,a1m1", l, &["s2,g2/s3"], [30, 8]),
            // two memos over the signal, a sum over both and a reader on top
            ("a1s,a2s,pm0m1,x3m2", "m", &["s2,g3/g2", "s2,g3/s5,g1"], [40, 20]),
            ("d2s,d3s,pm0m1", "m", &["s6,g2/s7,g2", "s4,g2/g1"], [26, 16]),
            ("d2s,pm0s", "m", &["s2,g1/s3,g1", "s3,g1/g0"], [16, 14]),
            ("d2s,pm0s", l, &["s2,g1/s3", "s3,g1/s4,g1"], [22, 16]),
        ];
        // the whole scenario needs hooks/yield_points_v2.patch
        let per = if !cfg!(has_yield_hooks_v2) { 0 } else if tier == "thorough" { 400 } else { 40 };
        for (spec, gates, progs, counts) in shapes {
            for pr in progs {
                for init in ["c", "d"] {
                    for _ in 0..(if init == "c" { per } else { per / 4 }) {
                        let sc = random_sched(&mut r, &counts);
                        emit(&mut f, "graph", format!("graph {spec} {init} {gates} {pr} {sc}"))?;
                    }
                }
            }
        }
    }
    // thorough: the larger exhaustive sets
    if tier == "thorough" {
        for kind in ["value", "ref"] {
            for s in all_interleavings(&[4, 3, 3]) {
                emit(&mut f, "await3", format!("await {kind} 2 2 {s}"))?;
            }
        }
        for s in all_interleavings(&[4, 4, 4]) {
            emit(&mut f, "chan3", format!("chan 2 2,2 {s}"))?;
        }
    }
    // random part
    // bounded real-thread stress ops (testing; the model answers the constant expected outcome)
    for _ in 0..(if tier == "thorough" { 20 } else { 5 }) {
        emit(&mut f, "stress", format!("stress subs {}", if tier == "thorough" { 200000 } else { 60000 }))?;
    }
    for fam in ["rw", "rwguard", "arcrw", "arcrwguard", "write", "writeguard", "arcwrite", "arcwriteguard"] {
        for th in [2usize, 3] {
            emit(&mut f, "stress", format!("stress writes {fam} {th} {}", if tier == "thorough" { 200000 } else { 30000 }))?;
        }
    }
    let stress = if tier == "thorough" { 40 } else { 4 };
    for i in 0..stress {
        emit(&mut f, "stress", format!("stress effect {} {} {}", r.next() % 100000, 1 + i % 3, if tier == "thorough" { 20000 } else { 2000 }))?;
    }
    while k.get() < n {
        match r.below(10) {
            0..=2 => {
                let kind = *r.pick(&["ready", "value", "ref"]);
                let n_aw = r.range(1, 3);
                let polls = r.range(1, 3);
                let mut counts = vec![4];
                for _ in 0..n_aw {
                    counts.push(3 * polls.min(2) + 1);
                }
                let s = random_sched(&mut r, &counts);
                emit(&mut f, "await-r", format!("await {kind} {n_aw} {polls} {s}"))?;
            }
            3..=5 => {
                let polls = r.range(0, 5);
                let ns = r.range(1, 3);
                let ms: Vec<usize> = (0..ns).map(|_| r.range(0, 3)).collect();
                let mut counts = vec![2 * polls + 2];
                for m in &ms {
                    counts.push(2 * m);
                }
                let s = random_sched(&mut r, &counts);
                emit(
                    &mut f,
                    "chan-r",
                    format!("chan {polls} {} {s}", ms.iter().map(|m| m.to_string()).collect::<Vec<_>>().join(",")),
                )?;
            }
            6 => {
                // plain signal, two parties (a third could race with the second for a released lock)
                let mut progs = vec![];
                let mut counts = vec![];
                for _ in 0..2 {
                    let len = r.range(1, 3);
                    let mut ops: Vec<String> = vec![];
                    let mut held = false;
                    for _ in 0..len {
                        match r.below(5) {
                            0 | 1 => ops.push("r".into()),
                            2 => {
                                if !held {
                                    ops.push(format!("s{}", r.range(2, 9)))
                                }
                            }
                            _ => {
                                if held {
                                    ops.push("u".into());
                                    held = false
                                } else {
                                    ops.push(format!("w{}", r.range(2, 9)));
                                    held = true
                                }
                            }
                        }
                    }
                    if held {
                        ops.push("u".into());
                    }
                    if ops.is_empty() {
                        ops.push("r".into());
                    }
                    counts.push(ops.len());
                    progs.push(ops.join(","));
                }
                let s = random_sched(&mut r, &counts);
                emit(&mut f, "sig-r", format!("sig {} {s}", progs.join("/")))?;
            }
            _ => {
                // two parties only: with three, two threads blocked on the same lock race for it for real
                let init = *r.pick(&["c", "d"]);
                let mut progs = vec![];
                let mut counts = vec![];
                let holder = r.chance(1, 6);
                for p in 0..2 {
                    let len = r.range(1, 3);
                    let mut ops: Vec<String> = vec![];
                    let mut held = false;
                    let mut c = 0;
                    for _ in 0..len {
                        match r.below(if holder && p == 1 { 6 } else { 4 }) {
                            0 | 1 => {
                                if held {
                                    continue; // a get while this thread holds its own guard self-deadlocks
                                }
                                ops.push("g".into());
                                c += 6
                            }
                            2 | 3 => {
                                ops.push(format!("s{}", r.range(2, 5)));
                                c += 1
                            }
                            _ => {
                                if held {
                                    ops.push("d".into());
                                    held = false;
                                    c += 1
                                } else {
                                    ops.push("h".into());
                                    held = true;
                                    c += 6
                                }
                            }
                        }
                    }
                    if held {
                        ops.push("d".into());
                        c += 1;
                    }
                    if ops.is_empty() {
                        ops.push("g".into());
                        c += 6;
                    }
                    progs.push(ops.join(","));
                    counts.push(c);
                }
                let s = random_sched(&mut r, &counts);
                emit(&mut f, "memo-r", format!("memo {init} {} {s}", progs.join("/")))?;
            }
        }
    }
    f.flush()
}

fn main() {
    match parse_cli() {
        Cmd::Gen { seed, n, ops, tier } => gen(seed, n, &ops, &tier).unwrap(),
        Cmd::Run { ops, out } => {
            if std::env::var_os("C19_LOUD").is_none() {
                quiet_panics();
            }
            run_ops(&ops, &out, op).unwrap()
        }
    }
}
