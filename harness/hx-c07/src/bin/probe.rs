use futures::channel::oneshot;
use futures::Stream;
use hx_common::sched;
use leptos::prelude::*;
use std::pin::Pin;
use std::task::{Context, Poll};
use tachys::view::any_view::AnyView;

fn poll_all(label: &str, mut s: Pin<Box<dyn Stream<Item = String>>>, mut between: impl FnMut(usize)) {
    let w = sched::noop_waker();
    let mut cx = Context::from_waker(&w);
    for i in 0..20 {
        match s.as_mut().poll_next(&mut cx) {
            Poll::Ready(Some(c)) => println!("{label} poll{i}: chunk {c:?}"),
            Poll::Ready(None) => { println!("{label} poll{i}: END"); return; }
            Poll::Pending => println!("{label} poll{i}: Pending (ready tasks {:?})", sched::ready()),
        }
        between(i);
    }
}

fn mk(rx1: oneshot::Receiver<String>, rx2: oneshot::Receiver<String>) -> AnyView {
    view! {
        <div>
            <b>"A"</b>
            <ErrorBoundary fallback=|_| view!{ <s>"err"</s> }>
            <b>"E1"</b>
            {Suspend::new(async move { let v = rx1.await.unwrap(); view!{ <i>{v}</i> } })}
            <b>"E2"</b>
            </ErrorBoundary>
            <b>"B"</b>
            <Suspense fallback=|| view!{ <u>"load"</u> }>
                <p>"in"</p>
                {Suspend::new(async move { let v = rx2.await.unwrap(); view!{ <em>{v}</em> } })}
            </Suspense>
            <b>"C"</b>
        </div>
    }.into_any()
}

fn main() {
    sched::install();
    for ooo in [false, true] {
        for order in 0..2 {
            sched::reset();
            let owner = Owner::new();
            let (tx1, rx1) = oneshot::channel();
            let (tx2, rx2) = oneshot::channel();
            let mut txs = vec![Some(tx1), Some(tx2)];
            let stream = owner.with(|| {
                let v = mk(rx1, rx2);
                if ooo { v.to_html_stream_out_of_order() } else { v.to_html_stream_in_order() }
            });
            let o2 = owner.clone();
            let label = format!("ooo={ooo} order={order}");
            println!("-- {label} tasks after render: {:?}", sched::ready());
            poll_all(&label, Box::pin(stream), |i| {
                o2.with(|| {
                    let k = if order == 0 { i } else { 1usize.wrapping_sub(i) };
                    if i < 2 {
                        if let Some(tx) = txs[k].take() { let _ = tx.send(format!("v{k}")); }
                    }
                    let n = sched::run_until_idle(100);
                    println!("   ran {n} task polls");
                });
            });
            // resolved
            sched::reset();
            let owner = Owner::new();
            let (tx1, rx1) = oneshot::channel();
            let (tx2, rx2) = oneshot::channel();
            tx1.send("v0".to_string()).unwrap(); tx2.send("v1".to_string()).unwrap();
            let html = owner.with(|| {
                let v = mk(rx1, rx2);
                let mut f = Box::pin(v.resolve());
                let w = sched::noop_waker();
                let mut cx = Context::from_waker(&w);
                for _ in 0..50 {
                    if let Poll::Ready(r) = std::future::Future::poll(f.as_mut(), &mut cx) { return Some(r.to_html()); }
                    sched::run_until_idle(100);
                }
                None
            });
            println!("resolved: {html:?}");
        }
    }
}
