//! C07 correspondence harness: the real `tachys::ssr::StreamBuilder` / `impl Stream::poll_next`,
//! `Suspend`, leptos `<Suspense>`/`<Transition>`/`<Await>`/`<ErrorBoundary>`, `to_html_stream_in_order()` /
//! `to_html_stream_out_of_order()` from /repo's working tree, polled by hand.
//!
//! Op grammar (ASCII strings as hex, `-` = empty / none):
//!   case <n>
//!   prog <io|ooo> <done0> <P…>   level A: a builder program run against `StreamBuilder::new(None | Some(vec![0]))`
//!                                through the public API, then `finish()`                         -> ok
//!   view <io|ooo>[b][n] <done0> <V…>  level B: a view built from the description, rendered with
//!                                `to_html_stream_in_order()` / `to_html_stream_out_of_order()`; `b`: the `_branching`
//!                                variants (observable: a run of branch marker comments as one `<!--b-->`; ids and
//!                                nesting are checked here on the real text); `n`: `provide_nonce()` first (leptos
//!                                `nonce` feature; the random nonce is shown as `NONCE`)                -> ok
//!   viewf <io|ooo> <done0> <V…>  level B, free interleaving: `poll` does NOT drain the executor first and prints `-` (the model
//!                                cannot know which boundary futures are ready then); only the oracles and the final document count -> ok
//!   drain                        level B: run the executor until idle                                       -> ok
//!   send <k,…>                   complete the oneshot futures k                                  -> ok
//!   run <i,…|->                  level B: `poll_nth_ready(i)` for each i (executor order), no-op on level A -> ok
//!   poll                         (level B: executor drained FIFO first) one `poll_next` with a no-op waker
//!                                -> item <hex> | pending | done | panic | dead      [## per-poll oracle, level B]
//!   end <check|nocheck>          -> doc <hex> [## ok | fail …]   doc = concat (io) / apply_scripts(concat) (ooo)
//! <done0>: futures completed before rendering (`now_or_never` paths).
//! P tokens: s<hex> push_sync | a<f>[ P… ] push_async (future: await f, sub-builder new(clone_id()), run body,
//!   finish().take_chunks()) | f<hex> push_fallback(InertElement(html)) | o<f>[ P… ] push_async_out_of_order(Some(view))
//!   | O<f> push_async_out_of_order(None) | n<f>:<hexnonce>[ P… ] …_with_nonce | i next_id | F `*buf = take(buf).finish()`
//!   | b[ P… ] StreamBuilder::new(clone_id()) + body + append (what ErrorBoundary does);  <f> = k or k.k2 (all of them)
//! V tokens: t<hex> text | e<tag>[ V… ] element | q[ V… ] tuple | l[ V… ] Vec | s<k>[ V… ] Suspend::new(async{rx_k.await; (V…)})
//!   | S<fb|->[ V… ] <Suspense fallback=<u>fb</u>|()> | T<fb|->[ V… ] <Transition> | A<k>[ V… ] <Await future=rx_k>
//!   | B[ V… ] <ErrorBoundary> | u<k>[ V… ] Suspend awaiting an OnceResource | g<o|r|d><k>[ V… ] `move || res.get().map(|_| (V…))`
//!   on an OnceResource / Resource / AsyncDerived created before the view is built | L / M a LocalResource read / awaited
//!   | W<k> a LocalResource awaited after future k | I[ V… ] tachys Island | C[ V… ] tachys IslandChildren
//!   <Await> on an even future is `blocking`; every <Transition> gets a `set_pending` signal
use futures::channel::oneshot;
use futures::future::{FutureExt, Shared};
use futures::Stream;
use hx_common::*;
use leptos::prelude::*;
use std::collections::{HashMap, HashSet};
use std::panic::{catch_unwind, AssertUnwindSafe};
use std::pin::Pin;
use std::sync::{Arc, Mutex};
use std::task::{Context, Poll};
use tachys::html::attribute::{any_attribute::AnyAttribute, Attribute};
use tachys::html::InertElement;
use tachys::hydration::Cursor;
use tachys::ssr::StreamBuilder;
use tachys::view::add_attr::AddAnyAttr;
use tachys::view::any_view::AnyView;
use tachys::view::{Position, PositionState, Render, RenderHtml};

// ------------------------------------------------------------------ futures under harness control

type Rx = Shared<oneshot::Receiver<()>>;

#[derive(Clone, Copy)]
enum AnyRes {
    O(OnceResource<u32>),
    R(Resource<u32>),
    D(AsyncDerived<u32>),
}
impl AnyRes {
    fn get(&self) -> Option<u32> {
        match self {
            AnyRes::O(r) => r.get(),
            AnyRes::R(r) => r.get(),
            AnyRes::D(r) => r.get(),
        }
    }
}

#[derive(Default)]
struct EnvInner {
    chans: Mutex<HashMap<usize, (Option<oneshot::Sender<()>>, Rx)>>,
    sent: Mutex<HashSet<usize>>,
    /// the server resources of the case, created (under the root owner) before the view is built, as a component
    /// body does: one per (kind, future)
    res: Mutex<HashMap<(char, usize), AnyRes>>,
    /// `<Transition set_pending=…>`: the signal of every Transition that can resolve on the server
    pending: Mutex<Vec<RwSignal<bool>>>,
    /// `<Await blocking=true>` (every Await on an even future): futures that were awaited by one
    blocking: Mutex<Vec<usize>>,
}
#[derive(Clone, Default)]
struct Env(Arc<EnvInner>);
impl Env {
    fn rx(&self, k: usize) -> Rx {
        let mut m = self.0.chans.lock().unwrap();
        m.entry(k)
            .or_insert_with(|| {
                let (tx, rx) = oneshot::channel();
                (Some(tx), rx.shared())
            })
            .1
            .clone()
    }
    fn send(&self, k: usize) {
        let _ = self.rx(k);
        let tx = self.0.chans.lock().unwrap().get_mut(&k).and_then(|e| e.0.take());
        if let Some(tx) = tx {
            let _ = tx.send(());
        }
        self.0.sent.lock().unwrap().insert(k);
    }
    fn new_res(&self, kind: char, k: usize) -> AnyRes {
        let rx = self.rx(k);
        match kind {
            'o' => AnyRes::O(OnceResource::new(async move {
                let _ = rx.await;
                7u32
            })),
            'r' => AnyRes::R(Resource::new(
                || (),
                move |_| {
                    let rx = rx.clone();
                    async move {
                        let _ = rx.await;
                        7u32
                    }
                },
            )),
            _ => AnyRes::D(AsyncDerived::new(move || {
                let rx = rx.clone();
                async move {
                    let _ = rx.await;
                    7u32
                }
            })),
        }
    }
    fn res(&self, kind: char, k: usize) -> AnyRes {
        if let Some(r) = self.0.res.lock().unwrap().get(&(kind, k)) {
            return *r;
        }
        let r = self.new_res(kind, k);
        self.0.res.lock().unwrap().insert((kind, k), r);
        r
    }
    fn is_sent(&self, k: usize) -> bool {
        self.0.sent.lock().unwrap().contains(&k)
    }
    fn wait(&self, deps: &[usize]) -> impl std::future::Future<Output = ()> + Send + 'static {
        let rxs: Vec<Rx> = deps.iter().map(|k| self.rx(*k)).collect();
        async move {
            for rx in rxs {
                let _ = rx.await;
            }
        }
    }
}

// ------------------------------------------------------------------ level A: builder programs

#[derive(Clone, Debug)]
enum Op {
    Sync(String),
    Async(Vec<usize>, Vec<Op>),
    Fallback(String),
    Ooo { deps: Vec<usize>, replace: bool, body: Vec<Op>, nonce: Option<String> },
    NextId,
    Sub(Vec<Op>),
    Finish,
}

fn parse_deps(s: &str) -> Option<Vec<usize>> {
    if s.is_empty() || s == "-" {
        return Some(vec![]);
    }
    s.split('.').map(|x| x.parse().ok()).collect()
}

fn parse_ops(toks: &[&str], i: &mut usize) -> Option<Vec<Op>> {
    let mut out = vec![];
    while *i < toks.len() {
        let t = toks[*i];
        if t == "]" || t == "][" {
            return Some(out);
        }
        *i += 1;
        let body = |i: &mut usize| -> Option<Vec<Op>> {
            let b = parse_ops(toks, i)?;
            if toks.get(*i) == Some(&"]") {
                *i += 1;
                Some(b)
            } else {
                None
            }
        };
        let (k, arg) = t.split_at(1);
        match k {
            "s" => out.push(Op::Sync(unhex_str(arg)?)),
            "f" => out.push(Op::Fallback(unhex_str(arg)?)),
            "i" if arg.is_empty() => out.push(Op::NextId),
            "F" if arg.is_empty() => out.push(Op::Finish),
            "b" if arg == "[" => out.push(Op::Sub(body(i)?)),
            "a" => {
                let deps = parse_deps(arg.strip_suffix('[')?)?;
                out.push(Op::Async(deps, body(i)?))
            }
            "o" => {
                let deps = parse_deps(arg.strip_suffix('[')?)?;
                out.push(Op::Ooo { deps, replace: true, body: body(i)?, nonce: None })
            }
            "O" => out.push(Op::Ooo { deps: parse_deps(arg)?, replace: false, body: vec![], nonce: None }),
            "n" => {
                let (f, nh) = arg.strip_suffix('[')?.split_once(':')?;
                let deps = parse_deps(f)?;
                let nonce = Some(unhex_str(nh)?);
                out.push(Op::Ooo { deps, replace: true, body: body(i)?, nonce })
            }
            _ => return None,
        }
    }
    Some(out)
}

fn run_prog(ops: &[Op], buf: &mut StreamBuilder, position: &mut Position, env: &Env) {
    for op in ops {
        match op {
            Op::Sync(s) => buf.push_sync(s),
            Op::Async(deps, body) => {
                let id = buf.clone_id();
                let fut = env.wait(deps);
                let env2 = env.clone();
                let body = body.clone();
                let mut pos = *position;
                buf.push_async(async move {
                    fut.await;
                    let mut b = StreamBuilder::new(id);
                    run_prog(&body, &mut b, &mut pos, &env2);
                    b.finish().take_chunks()
                });
            }
            Op::Fallback(s) => {
                let mut p = *position;
                buf.push_fallback(InertElement::new(s.clone()), &mut p, false, vec![]);
            }
            Op::Ooo { deps, replace, body, nonce } => {
                let fut = env.wait(deps);
                let env2 = env.clone();
                let body = body.clone();
                let replace = *replace;
                let view_fut = async move {
                    fut.await;
                    if replace {
                        Some(ProgView { ops: body, env: env2 })
                    } else {
                        None
                    }
                };
                match nonce {
                    None => buf.push_async_out_of_order(view_fut, position, false, vec![]),
                    Some(n) => buf.push_async_out_of_order_with_nonce(
                        view_fut,
                        position,
                        false,
                        Some(Arc::from(n.as_str())),
                        vec![],
                    ),
                }
            }
            Op::NextId => buf.next_id(),
            Op::Finish => {
                let b = std::mem::take(buf);
                *buf = b.finish();
            }
            Op::Sub(body) => {
                let mut nb = StreamBuilder::new(buf.clone_id());
                let mut pos = *position;
                run_prog(body, &mut nb, &mut pos, env);
                buf.append(nb);
            }
        }
    }
}

/// a view whose `to_html_async_with_buf` runs a builder program (how the sub-builder of an
/// out-of-order chunk is filled through the public API)
struct ProgView {
    ops: Vec<Op>,
    env: Env,
}
impl Render for ProgView {
    type State = ();
    fn build(self) {}
    fn rebuild(self, _: &mut ()) {}
}
impl AddAnyAttr for ProgView {
    type Output<SomeNewAttr: Attribute> = ProgView;
    fn add_any_attr<NewAttr: Attribute>(self, _attr: NewAttr) -> Self::Output<NewAttr> {
        self
    }
}
impl RenderHtml for ProgView {
    type AsyncOutput = Self;
    type Owned = Self;
    const MIN_LENGTH: usize = 0;
    fn dry_resolve(&mut self) {}
    async fn resolve(self) -> Self {
        self
    }
    fn to_html_with_buf(self, _: &mut String, _: &mut Position, _: bool, _: bool, _: Vec<AnyAttribute>) {}
    fn to_html_async_with_buf<const OUT_OF_ORDER: bool>(
        self,
        buf: &mut StreamBuilder,
        position: &mut Position,
        _escape: bool,
        _mark_branches: bool,
        _extra_attrs: Vec<AnyAttribute>,
    ) {
        run_prog(&self.ops, buf, position, &self.env)
    }
    fn hydrate<const FROM_SERVER: bool>(self, _: &Cursor, _: &PositionState) -> Self::State {}
    fn into_owned(self) -> Self {
        self
    }
}

/// independent reference: the document a fully resolved program stands for
fn doc_of(ops: &[Op], ooo: bool) -> String {
    let mut out = String::new();
    let mut i = 0;
    while i < ops.len() {
        match (&ops[i], ops.get(i + 1)) {
            (Op::Fallback(fb), Some(Op::Ooo { replace, body, .. })) if ooo => {
                if *replace {
                    out.push_str(&doc_of(body, ooo))
                } else {
                    out.push_str(fb)
                }
                i += 1;
            }
            (Op::Sync(s), _) | (Op::Fallback(s), _) => out.push_str(s),
            (Op::Async(_, body), _) | (Op::Sub(body), _) => out.push_str(&doc_of(body, ooo)),
            (Op::Ooo { .. }, _) | (Op::NextId, _) | (Op::Finish, _) => {}
        }
        i += 1;
    }
    out
}

// ------------------------------------------------------------------ level B: views

#[derive(Clone, Debug)]
enum V {
    Text(String),
    El(String, Vec<V>),
    Tup(Vec<V>),
    List(Vec<V>),
    Suspend(usize, Vec<V>),
    Suspense { fb: Option<String>, transition: bool, kids: Vec<V> },
    Await(usize, Vec<V>),
    Eb(Vec<V>),
    /// `Suspend::new(async { once_resource.await; (V…) })`
    ResSuspend(usize, Vec<V>),
    /// `move || res.get().map(|_| (V…))`, res = OnceResource ('o') / Resource ('r') / AsyncDerived ('d')
    ResRead(char, usize, Vec<V>),
    /// a LocalResource read by a boundary's children: `move || local.get()` (true) or awaited first thing in a
    /// Suspend (false)
    LocalRead(bool),
    /// `Suspend::new(async { rx_k.await; local.await; … })`
    LocalAwait(usize),
    /// `tachys::html::islands::Island::new("isl", (V…))` / `IslandChildren::new((V…))`: what `#[island]` expands to
    Island(bool, Vec<V>),
}

fn parse_views(toks: &[&str], i: &mut usize) -> Option<Vec<V>> {
    let mut out = vec![];
    while *i < toks.len() {
        let t = toks[*i];
        if t == "]" {
            return Some(out);
        }
        *i += 1;
        let body = |i: &mut usize| -> Option<Vec<V>> {
            let b = parse_views(toks, i)?;
            if toks.get(*i) == Some(&"]") {
                *i += 1;
                Some(b)
            } else {
                None
            }
        };
        let (k, arg) = t.split_at(1);
        match k {
            "t" => out.push(V::Text(unhex_str(arg)?)),
            "e" => {
                let tag = arg.strip_suffix('[')?.to_string();
                // e<tag>[@<hex title>][ … ]
                let base = tag.split('@').next().unwrap_or("");
                if !TAGS.contains(&base) || tag.split('@').nth(1).is_some_and(|h| unhex_str(h).is_none()) {
                    return None;
                }
                out.push(V::El(tag, body(i)?))
            }
            "q" if arg == "[" => out.push(V::Tup(body(i)?)),
            "l" if arg == "[" => out.push(V::List(body(i)?)),
            "s" => {
                let f = arg.strip_suffix('[')?.parse().ok()?;
                out.push(V::Suspend(f, body(i)?))
            }
            "S" | "T" => {
                let fb = arg.strip_suffix('[')?;
                let fb = if fb == "-" { None } else { Some(fb.to_string()) };
                out.push(V::Suspense { fb, transition: k == "T", kids: body(i)? })
            }
            "A" => {
                let f = arg.strip_suffix('[')?.parse().ok()?;
                out.push(V::Await(f, body(i)?))
            }
            "B" if arg == "[" => out.push(V::Eb(body(i)?)),
            "u" => {
                let f = arg.strip_suffix('[')?.parse().ok()?;
                out.push(V::ResSuspend(f, body(i)?))
            }
            "g" => {
                let a = arg.strip_suffix('[')?;
                let kind = a.chars().next()?;
                if !matches!(kind, 'o' | 'r' | 'd') {
                    return None;
                }
                let f = a[1..].parse().ok()?;
                out.push(V::ResRead(kind, f, body(i)?))
            }
            "I" if arg == "[" => out.push(V::Island(true, body(i)?)),
            "C" if arg == "[" => out.push(V::Island(false, body(i)?)),
            "L" if arg.is_empty() => out.push(V::LocalRead(true)),
            "M" if arg.is_empty() => out.push(V::LocalRead(false)),
            "W" => out.push(V::LocalAwait(arg.parse().ok()?)),
            _ => return None,
        }
    }
    Some(out)
}

const TAGS: &[&str] = &["div", "p", "span", "b", "i", "em", "u", "section", "textarea"];

/// `tag` or `tag@<hex>`: the element with a `title` attribute of that value
fn el(tag: &str, child: AnyView) -> AnyView {
    use leptos::html::*;
    let (tag, title) = match tag.split_once('@') {
        Some((t, h)) => (t, unhex_str(h)),
        None => (tag, None),
    };
    macro_rules! mk {
        ($f:ident) => {
            match title {
                Some(t) => $f().title(t).child(child).into_any(),
                None => $f().child(child).into_any(),
            }
        };
    }
    match tag {
        "div" => mk!(div),
        "p" => mk!(p),
        "span" => mk!(span),
        "b" => mk!(b),
        "i" => mk!(i),
        "em" => mk!(em),
        "u" => mk!(u),
        "textarea" => mk!(textarea),
        _ => mk!(section),
    }
}

/// strings that need escaping where they are printed: text, `<textarea>` text (RCDATA: `</textarea>` would end it, a
/// leading line feed is dropped by the parser), attribute values; stream syntax of the out-of-order protocol as text
const HOSTILE: &[&str] = &[
    "a<b", "x&y", "1>0", "&amp;", "</textarea><p>g</p>", "\nlf", "\n", "q\"u", "<!--s-1-o-->", "<template id=\"1-f\">",
    "</script>", "</template>", "<!>", "if a<b && c>d {",
];

fn esc_text(s: &str) -> String {
    s.replace('&', "&amp;").replace('<', "&lt;").replace('>', "&gt;")
}

fn tuple_of(mut vs: Vec<AnyView>) -> AnyView {
    match vs.len() {
        0 => ().into_any(),
        1 => vs.pop().unwrap(),
        2 => {
            let b = vs.pop().unwrap();
            let a = vs.pop().unwrap();
            (a, b).into_any()
        }
        3 => {
            let c = vs.pop().unwrap();
            let b = vs.pop().unwrap();
            let a = vs.pop().unwrap();
            (a, b, c).into_any()
        }
        _ => {
            let rest = vs.split_off(3);
            let c = vs.pop().unwrap();
            let b = vs.pop().unwrap();
            let a = vs.pop().unwrap();
            (a, b, c, tuple_of(rest)).into_any()
        }
    }
}

fn fb_view(fb: Option<String>) -> AnyView {
    match fb {
        Some(t) => leptos::html::u().child(t).into_any(),
        None => ().into_any(),
    }
}

fn build_all(kids: &[V], env: &Env) -> AnyView {
    tuple_of(kids.iter().map(|k| build(k, env)).collect())
}

/// the view as an application would write it
fn build(v: &V, env: &Env) -> AnyView {
    match v {
        V::Text(s) => s.clone().into_any(),
        V::El(tag, kids) => el(tag, build_all(kids, env)),
        V::Tup(kids) => build_all(kids, env),
        V::List(kids) => kids.iter().map(|k| build(k, env)).collect::<Vec<AnyView>>().into_any(),
        V::Suspend(k, kids) => {
            let rx = env.rx(*k);
            let kids = kids.clone();
            let env = env.clone();
            Suspend::new(async move {
                let _ = rx.await;
                build_all(&kids, &env)
            })
            .into_any()
        }
        V::Suspense { fb, transition, kids } => {
            let fb = fb.clone();
            let kids = kids.clone();
            let env = env.clone();
            if *transition {
                // a signal that follows "some resource read under this boundary is still loading"
                let sig = RwSignal::new(false);
                if !has_local(&kids) {
                    env.0.pending.lock().unwrap().push(sig);
                }
                view! {
                    <Transition fallback=move || fb_view(fb.clone()) set_pending=sig.write_only()>
                        {build_all(&kids, &env)}
                    </Transition>
                }
                .into_any()
            } else {
                view! { <Suspense fallback=move || fb_view(fb.clone())>{build_all(&kids, &env)}</Suspense> }
                    .into_any()
            }
        }
        V::Await(k, kids) => {
            let rx = env.rx(*k);
            let kids = kids.clone();
            // a blocking resource (`defer_stream`) on every even future: the stream itself is the same, the integration
            // waits for the deferred futures before it sends the first chunk
            let blocking = *k % 2 == 0;
            if blocking {
                env.0.blocking.lock().unwrap().push(*k);
            }
            let env = env.clone();
            view! {
                <Await
                    future=async move {
                        let _ = rx.await;
                        7u32
                    }
                    blocking=blocking
                    children=move |_d: &u32| build_all(&kids, &env)
                />
            }
            .into_any()
        }
        V::Eb(kids) => {
            let kids = kids.clone();
            let env = env.clone();
            view! {
                <ErrorBoundary fallback=|_errors| leptos::html::s().child("err")>
                    {build_all(&kids, &env)}
                </ErrorBoundary>
            }
            .into_any()
        }
        V::ResSuspend(k, kids) => {
            // created where the view is built (with the boundary that waits for it)
            let AnyRes::O(res) = env.new_res('o', *k) else { unreachable!() };
            let kids = kids.clone();
            let env = env.clone();
            Suspend::new(async move {
                let _d = res.await;
                build_all(&kids, &env)
            })
            .into_any()
        }
        V::ResRead(kind, k, kids) => {
            let res = env.res(*kind, *k);
            let kids = kids.clone();
            let env = env.clone();
            (move || res.get().map(|_| build_all(&kids, &env))).into_any()
        }
        V::Island(true, kids) => tachys::html::islands::Island::new("isl", build_all(kids, env)).into_any(),
        V::Island(false, kids) => tachys::html::islands::IslandChildren::new(build_all(kids, env)).into_any(),
        V::LocalRead(sync) => {
            let local = LocalResource::new(|| async { 1u8 });
            if *sync {
                (move || local.get().map(|d| leptos::html::i().child(format!("local{d}")))).into_any()
            } else {
                Suspend::new(async move {
                    let d = local.await;
                    leptos::html::i().child(format!("local{d}"))
                })
                .into_any()
            }
        }
        V::LocalAwait(k) => {
            let rx = env.rx(*k);
            let local = LocalResource::new(|| async { 1u8 });
            Suspend::new(async move {
                let _ = rx.await;
                let d = local.await;
                leptos::html::i().child(format!("local{d}"))
            })
            .into_any()
        }
    }
}

/// a LocalResource is read by the children of this boundary: on the server it keeps its fallback
fn has_local(kids: &[V]) -> bool {
    kids.iter().any(|k| match k {
        V::LocalRead(_) | V::LocalAwait(_) => true,
        V::El(_, k) | V::Island(_, k) | V::Tup(k) | V::List(k) | V::Eb(k) => has_local(k),
        _ => false,
    })
}

/// the same view with every asynchronous part replaced by its resolved content: the
/// synchronous `to_html()` of this is the reference document
fn build_resolved(v: &V) -> AnyView {
    let all = |kids: &[V]| tuple_of(kids.iter().map(build_resolved).collect());
    match v {
        V::Text(s) => s.clone().into_any(),
        V::El(tag, kids) => el(tag, all(kids)),
        V::Island(true, kids) => tachys::html::islands::Island::new("isl", all(kids)).into_any(),
        V::Island(false, kids) => tachys::html::islands::IslandChildren::new(all(kids)).into_any(),
        V::Tup(kids) => all(kids),
        V::List(kids) => kids.iter().map(build_resolved).collect::<Vec<AnyView>>().into_any(),
        V::Suspend(_, kids) | V::Await(_, kids) | V::Eb(kids) => all(kids),
        V::ResSuspend(_, kids) | V::ResRead(_, _, kids) => all(kids),
        V::Suspense { fb, kids, .. } => {
            if has_local(kids) {
                fb_view(fb.clone())
            } else {
                all(kids)
            }
        }
        V::LocalRead(_) | V::LocalAwait(_) => ().into_any(),
    }
}

#[derive(Clone, Copy, PartialEq)]
enum Ctx {
    Top,
    Direct,
    Nested,
}

fn has_eb(v: &V) -> bool {
    match v {
        V::Text(_) => false,
        V::Eb(_) => true,
        V::El(_, k) | V::Island(_, k) | V::Tup(k) | V::List(k) | V::Suspend(_, k) | V::Await(_, k) => k.iter().any(has_eb),
        V::ResSuspend(_, k) | V::ResRead(_, _, k) => k.iter().any(has_eb),
        V::LocalRead(_) | V::LocalAwait(_) => false,
        V::Suspense { kids, .. } => kids.iter().any(has_eb),
    }
}

/// F-C07-6: a server resource read synchronously inside the output of a Suspend / of another read under a boundary
/// (Rust twin of `noLate`)
fn has_late_read(c: Ctx, v: &V) -> bool {
    let nest = |c: Ctx| if c == Ctx::Top { Ctx::Top } else { Ctx::Nested };
    match v {
        V::Text(_) | V::LocalRead(_) | V::LocalAwait(_) => false,
        V::El(_, k) | V::Island(_, k) | V::Tup(k) | V::List(k) | V::Eb(k) => k.iter().any(|x| has_late_read(c, x)),
        V::Suspend(_, k) | V::ResSuspend(_, k) => k.iter().any(|x| has_late_read(nest(c), x)),
        V::ResRead(_, _, k) => c == Ctx::Nested || k.iter().any(|x| has_late_read(nest(c), x)),
        V::Suspense { kids, .. } => kids.iter().any(|x| has_late_read(Ctx::Direct, x)),
        V::Await(_, k) => k.iter().any(|x| has_late_read(Ctx::Nested, x)),
    }
}

fn late_reads(c: Ctx, v: &V, out: &mut Vec<usize>) {
    let nest = |c: Ctx| if c == Ctx::Top { Ctx::Top } else { Ctx::Nested };
    match v {
        V::Text(_) | V::LocalRead(_) | V::LocalAwait(_) => {}
        V::El(_, k) | V::Island(_, k) | V::Tup(k) | V::List(k) | V::Eb(k) => k.iter().for_each(|x| late_reads(c, x, out)),
        V::Suspend(_, k) | V::ResSuspend(_, k) => k.iter().for_each(|x| late_reads(nest(c), x, out)),
        V::ResRead(_, f, k) => {
            if c == Ctx::Nested {
                out.push(*f)
            }
            k.iter().for_each(|x| late_reads(nest(c), x, out))
        }
        V::Suspense { kids, .. } => kids.iter().for_each(|x| late_reads(Ctx::Direct, x, out)),
        V::Await(_, k) => k.iter().for_each(|x| late_reads(Ctx::Nested, x, out)),
    }
}

fn res_reads(v: &V, out: &mut Vec<(char, usize)>) {
    match v {
        V::Text(_) | V::LocalRead(_) | V::LocalAwait(_) => {}
        V::ResRead(kind, f, k) => {
            out.push((*kind, *f));
            k.iter().for_each(|x| res_reads(x, out))
        }
        V::El(_, k) | V::Island(_, k) | V::Tup(k) | V::List(k) | V::Eb(k) | V::Suspend(_, k) | V::ResSuspend(_, k) | V::Await(_, k) => {
            k.iter().for_each(|x| res_reads(x, out))
        }
        V::Suspense { kids, .. } => kids.iter().for_each(|x| res_reads(x, out)),
    }
}

/// text, elements, tuples, Vecs, islands only: `to_html_branching()` is defined by the same types
fn sync_only(v: &V) -> bool {
    match v {
        V::Text(_) => true,
        V::El(_, k) | V::Island(_, k) | V::Tup(k) | V::List(k) => k.iter().all(sync_only),
        _ => false,
    }
}

/// a Suspend outside every boundary: its out-of-order chunk is pushed without the nonce (F-C07-8)
fn has_top_suspend(v: &V) -> bool {
    match v {
        V::Text(_) | V::LocalRead(_) | V::LocalAwait(_) | V::Suspense { .. } | V::Await(..) => false,
        V::Suspend(..) | V::ResSuspend(..) => true,
        V::El(_, k) | V::Island(_, k) | V::Tup(k) | V::List(k) | V::Eb(k) | V::ResRead(_, _, k) => k.iter().any(has_top_suspend),
    }
}

fn has_nested_suspend(c: Ctx, v: &V) -> bool {
    match v {
        V::Text(_) => false,
        V::El(_, k) | V::Island(_, k) | V::Tup(k) | V::List(k) | V::Eb(k) => k.iter().any(|x| has_nested_suspend(c, x)),
        V::Suspend(_, k) | V::ResSuspend(_, k) => match c {
            Ctx::Top => k.iter().any(|x| has_nested_suspend(Ctx::Top, x)),
            Ctx::Direct => k.iter().any(|x| has_nested_suspend(Ctx::Nested, x)),
            Ctx::Nested => true,
        },
        V::ResRead(_, _, k) => k.iter().any(|x| has_nested_suspend(c, x)),
        V::LocalRead(_) | V::LocalAwait(_) => false,
        V::Suspense { kids, .. } => kids.iter().any(|x| has_nested_suspend(Ctx::Direct, x)),
        // <Await> = <Suspense><Suspend>…: its children are the output of a Suspend under a Suspense
        V::Await(_, k) => k.iter().any(|x| has_nested_suspend(Ctx::Nested, x)),
    }
}

/// per-token facts for the per-poll oracle
#[derive(Default)]
struct Facts {
    /// content token -> futures that must have completed before it may be displayed
    content: Vec<(String, Vec<usize>)>,
    /// boundary: fallback token, futures it waits for, a content token of the enclosing asynchronous
    /// region (None = top level)
    boundaries: Vec<(String, Vec<usize>, Option<String>)>,
}

fn direct_deps(v: &V, out: &mut Vec<usize>) {
    match v {
        V::Text(_) | V::Suspense { .. } | V::Await(..) | V::LocalRead(_) | V::LocalAwait(_) => {}
        // `Suspend::resolve` resolves its output too (fix-c07-4)
        V::Suspend(k, kids) | V::ResSuspend(k, kids) | V::ResRead(_, k, kids) => {
            out.push(*k);
            kids.iter().for_each(|x| direct_deps(x, out))
        }
        V::El(_, k) | V::Island(_, k) | V::Tup(k) | V::List(k) | V::Eb(k) => k.iter().for_each(|x| direct_deps(x, out)),
    }
}

/// a content token of the synchronous part of a region (not inside a deeper asynchronous node)
fn region_token(kids: &[V]) -> Option<String> {
    for k in kids {
        match k {
            V::Text(s) => return Some(s.clone()),
            V::El(_, k) | V::Island(_, k) | V::Tup(k) | V::List(k) | V::Eb(k) => {
                if let Some(t) = region_token(k) {
                    return Some(t);
                }
            }
            _ => {}
        }
    }
    None
}

/// `region`: Some(None) = top level, Some(Some(t)) = inside an asynchronous region whose sync part shows token t,
/// None = inside an asynchronous region without a token of its own (visibility unknown)
fn facts(v: &V, need: &Vec<usize>, region: &Option<Option<String>>, f: &mut Facts) {
    match v {
        V::Text(s) if s.is_empty() => {}
        V::Text(s) => f.content.push((esc_text(s), need.clone())),
        V::El(_, k) | V::Island(_, k) | V::Tup(k) | V::List(k) | V::Eb(k) => k.iter().for_each(|x| facts(x, need, region, f)),
        V::Suspend(k, kids) | V::Await(k, kids) | V::ResSuspend(k, kids) | V::ResRead(_, k, kids) => {
            let mut need2 = need.clone();
            need2.push(*k);
            let r2 = region_token(kids).map(Some);
            kids.iter().for_each(|x| facts(x, &need2, &r2, f));
        }
        V::LocalRead(_) | V::LocalAwait(_) => {}
        V::Suspense { fb, kids, .. } if has_local(kids) => {
            // the fallback stays for good (usize::MAX is never sent); the children are never shown
            if let (Some(fb), Some(region)) = (fb, region) {
                f.boundaries.push((fb.clone(), vec![usize::MAX], region.clone()));
            }
            let mut toks = vec![];
            fn all_tokens(v: &V, out: &mut Vec<String>) {
                match v {
                    V::Text(s) => out.push(s.clone()),
                    V::El(_, k) | V::Island(_, k) | V::Tup(k) | V::List(k) | V::Eb(k) | V::Suspend(_, k) | V::Await(_, k)
                    | V::ResSuspend(_, k) | V::ResRead(_, _, k) => k.iter().for_each(|x| all_tokens(x, out)),
                    V::Suspense { kids, .. } => kids.iter().for_each(|x| all_tokens(x, out)),
                    V::LocalRead(_) | V::LocalAwait(_) => {}
                }
            }
            kids.iter().for_each(|x| all_tokens(x, &mut toks));
            for t in toks {
                f.content.push((t, vec![usize::MAX]));
            }
        }
        V::Suspense { fb, kids, .. } => {
            let mut deps = vec![];
            kids.iter().for_each(|x| direct_deps(x, &mut deps));
            if let (Some(fb), Some(region)) = (fb, region) {
                f.boundaries.push((fb.clone(), deps.clone(), region.clone()));
            }
            // the children of a boundary are shown only once everything it waits for has completed
            let mut need2 = need.clone();
            need2.extend(deps);
            let r2 = region_token(kids).map(Some);
            kids.iter().for_each(|x| facts(x, &need2, &r2, f));
        }
    }
}

// ------------------------------------------------------------------ the client side (Rust twin of applyScripts)

fn apply_scripts(stream: &str) -> String {
    let mut dom = String::new();
    let mut tpls: Vec<(String, String)> = vec![];
    let mut input = stream;
    loop {
        let Some(p) = input.find("<template id=\"") else { break };
        let rest = &input[p + 14..];
        let Some(q) = rest.find("\">") else { break };
        let tid = &rest[..q];
        let rest2 = &rest[q + 2..];
        let Some(r) = rest2.find("</template>") else { break };
        let content = &rest2[..r];
        let rest3 = &rest2[r + 11..];
        let Some(s) = rest3.find("</script>") else { break };
        let script = &rest3[..s];
        dom.push_str(&input[..p]);
        tpls.push((tid.to_string(), content.to_string()));
        input = &rest3[s + 9..];
        // what the script does
        let Some(a) = script.find("let id = \"") else { continue };
        let after = &script[a + 10..];
        let Some(b) = after.find('"') else { continue };
        let id = &after[..b];
        let replace = script.contains("range.deleteContents()");
        let open = format!("<!--s-{id}o-->");
        let close = format!("<!--s-{id}c-->");
        let (Some(po), Some(pc)) = (dom.rfind(&open), dom.rfind(&close)) else { continue };
        if replace {
            let want = format!("{id}f");
            let Some((_, tpl)) = tpls.iter().find(|(k, _)| *k == want) else { continue };
            let start = if pc < po { pc } else { po };
            dom = format!("{}{}{}", &dom[..start], tpl, &dom[pc + close.len()..]);
        } else {
            let mut d = format!("{}{}", &dom[..pc], &dom[pc + close.len()..]);
            if let Some(po2) = d.rfind(&open) {
                d = format!("{}{}", &d[..po2], &d[po2 + open.len()..]);
            }
            dom = d;
        }
    }
    dom.push_str(input);
    dom
}

fn count(hay: &str, needle: &str) -> usize {
    hay.matches(needle).count()
}

// ------------------------------------------------------------------ one case

struct Case {
    env: Env,
    owner: Owner,
    stream: Option<Pin<Box<StreamBuilder>>>,
    ooo: bool,
    level_b: bool,
    reference: String,
    raw: String,
    facts: Facts,
    known_class: bool,
    dead: bool,
    finished: bool,
    free: bool,
    /// every base future of the case; `ended`: the stream has returned `Ready(None)` once
    all_futs: Vec<usize>,
    ended: bool,
    /// the `_branching` streams; the nonce provided to the view (random: the observable shows `NONCE`)
    branching: bool,
    nonce: Option<String>,
    /// level A: the nonces the program passes to `push_async_out_of_order_with_nonce`
    prog_nonces: Vec<String>,
    /// branching modes, a view without any future: `to_html_branching()` of the same view (type ids as `T`)
    plain_branching: Option<String>,
}

fn nonces_of_ops(ops: &[Op], out: &mut Vec<String>) {
    for o in ops {
        match o {
            Op::Async(_, b) | Op::Sub(b) => nonces_of_ops(b, out),
            Op::Ooo { body, nonce, .. } => {
                out.extend(nonce.clone());
                nonces_of_ops(body, out)
            }
            _ => {}
        }
    }
}

/// every `<script nonce="…">` carries one of the given nonces as its attribute value (read the way an HTML parser
/// does: up to the next double quote)
fn nonce_attrs_ok(raw: &str, nonces: &[String]) -> bool {
    let mut rest = raw;
    while let Some(p) = rest.find("<script nonce=\"") {
        let after = &rest[p + 15..];
        let Some(q) = after.find('"') else { return false };
        if !nonces.iter().any(|n| n == &after[..q]) || !after[q + 1..].starts_with('>') {
            return false;
        }
        rest = &after[q..];
    }
    true
}

/// the observable form of a chunk: the random nonce as `NONCE`, `{:?}` of a `TypeId` (AnyView's branch id) as `T`
fn norm(c: &Case, s: &str) -> String {
    let mut s = match &c.nonce {
        Some(n) => s.replace(n.as_str(), "NONCE"),
        None => s.to_string(),
    };
    if c.branching {
        let mut out = String::new();
        while let Some(p) = s.find("TypeId(") {
            let Some(q) = s[p..].find(')') else { break };
            out.push_str(&s[..p]);
            out.push('T');
            s = s[p + q + 1..].to_string();
        }
        out.push_str(&s);
        s = out;
    }
    s
}

/// branching modes, the printed observable: every maximal run of branch marker comments as one `<!--b-->` (the model
/// knows where markers are, not their ids: `{:?}` of a `TypeId`, `0`/`1` of an `Either`, …; the ids and their nesting
/// are checked on the real text by `strip_branches`)
fn collapse_branches(s: &str) -> String {
    let mut out = String::new();
    let mut rest = s;
    let mut in_run = false;
    loop {
        if rest.starts_with("<!--bo-") || rest.starts_with("<!--bc-") {
            let Some(q) = rest.find("-->") else { break };
            if !in_run {
                out.push_str("<!--b-->");
                in_run = true;
            }
            rest = &rest[q + 3..];
            continue;
        }
        let Some(ch) = rest.chars().next() else { break };
        in_run = false;
        out.push(ch);
        rest = &rest[ch.len_utf8()..];
    }
    out.push_str(rest);
    out
}

/// the document without branch marker comments; None if they are not properly nested
fn strip_branches(s: &str) -> Option<String> {
    let mut out = String::new();
    let mut stack: Vec<String> = vec![];
    let mut rest = s;
    loop {
        let (po, pc) = (rest.find("<!--bo-"), rest.find("<!--bc-"));
        let (p, open) = match (po, pc) {
            (None, None) => break,
            (Some(a), None) => (a, true),
            (None, Some(b)) => (b, false),
            (Some(a), Some(b)) => if a < b { (a, true) } else { (b, false) },
        };
        out.push_str(&rest[..p]);
        let after = &rest[p + 7..];
        let q = after.find("-->")?;
        let id = after[..q].to_string();
        if open {
            stack.push(id)
        } else if stack.pop() != Some(id) {
            return None;
        }
        rest = &after[q + 3..];
    }
    out.push_str(rest);
    if stack.is_empty() { Some(out) } else { None }
}

thread_local! {
    static CASE: std::cell::RefCell<Option<Case>> = const { std::cell::RefCell::new(None) };
}

fn new_owner() -> Owner {
    use hydration_context::{SharedContext, SsrSharedContext};
    let sc = Arc::new(SsrSharedContext::new()) as Arc<dyn SharedContext + Send + Sync>;
    Owner::new_root(Some(sc))
}

fn drop_case() {
    let old = CASE.with(|c| c.borrow_mut().take());
    if let Some(mut c) = old {
        let owner = c.owner.clone();
        owner.with(|| drop(c.stream.take()));
        drop(c);
        owner.unset();
    }
    sched::reset();
}

fn start(level_b: bool, free: bool, mode: &str, d0: &str, toks: &[&str]) -> String {
    drop_case();
    // <io|ooo>[b][n]: b = the `_branching` streams (branch marker comments), n = a nonce is provided (leptos `nonce`)
    let (base, flags) = if let Some(r) = mode.strip_prefix("ooo") { ("ooo", r) } else if let Some(r) = mode.strip_prefix("io") { ("io", r) } else { return "bad-op".into() };
    let ooo = base == "ooo";
    let (branching, with_nonce) = match flags {
        "" => (false, false),
        "b" => (true, false),
        "n" => (false, true),
        "bn" => (true, true),
        _ => return "bad-op".into(),
    };
    if !level_b && (branching || with_nonce) {
        return "bad-op".into();
    }
    let Some(done0) = (if d0 == "-" { Some(vec![]) } else { d0.split(',').map(|x| x.parse::<usize>().ok()).collect() })
    else {
        return "bad-op".into();
    };
    let env = Env::default();
    for k in &done0 {
        env.send(*k);
    }
    let owner = new_owner();
    let mut i = 0;
    let case = if level_b {
        let Some(vs) = parse_views(toks, &mut i) else { return "bad-op".into() };
        if i != toks.len() {
            return "bad-op".into();
        }
        let root = V::Tup(vs);
        let mut nonce = None;
        let stream = owner.with(|| {
            if with_nonce {
                leptos::nonce::provide_nonce();
                nonce = leptos::nonce::use_nonce().map(|n| n.to_string());
            }
            let mut reads = vec![];
            res_reads(&root, &mut reads);
            for (kind, k) in reads {
                let _ = env.res(kind, k);
            }
            let view = build(&root, &env);
            match (ooo, branching) {
                (true, false) => view.to_html_stream_out_of_order(),
                (false, false) => view.to_html_stream_in_order(),
                (true, true) => view.to_html_stream_out_of_order_branching(),
                (false, true) => view.to_html_stream_in_order_branching(),
            }
        });
        let reference = new_owner().with(|| build_resolved(&root).to_html());
        let plain_branching = {
            if branching && sync_only(&root) {
                let o = new_owner();
                let r = o.with(|| build(&root, &Env::default()).to_html_branching());
                Some(r)
            } else {
                None
            }
        };
        let mut f = Facts::default();
        facts(&root, &vec![], &Some(None), &mut f);
        // F-C07-6 (class sync-read-late): the boundary does not wait for such a read; the per-poll oracles do not apply
        let known_class = has_late_read(Ctx::Top, &root);
        let mut all_futs = vec![];
        needed_futs(std::slice::from_ref(&root), &mut all_futs);
        Case {
            env, owner, stream: Some(Box::pin(stream)), ooo, level_b, reference, raw: String::new(), facts: f,
            known_class, dead: false, finished: false, free, all_futs, ended: false, branching, nonce, prog_nonces: vec![],
            plain_branching,
        }
    } else {
        let Some(ops) = parse_ops(toks, &mut i) else { return "bad-op".into() };
        if i != toks.len() {
            return "bad-op".into();
        }
        let mut all_futs = vec![];
        futs_of_ops(&ops, &mut all_futs);
        let stream = owner.with(|| {
            let mut b = StreamBuilder::new(if ooo { Some(vec![0]) } else { None });
            run_prog(&ops, &mut b, &mut Position::FirstChild, &env);
            b.finish()
        });
        Case {
            env, owner, stream: Some(Box::pin(stream)), ooo, level_b, reference: doc_of(&ops, ooo), raw: String::new(),
            facts: Facts::default(), known_class: false, dead: false, finished: false, free, all_futs, ended: false,
            branching: false, nonce: None, prog_nonces: { let mut n = vec![]; nonces_of_ops(&ops, &mut n); n },
            plain_branching: None,
        }
    };
    CASE.with(|c| *c.borrow_mut() = Some(case));
    "ok".into()
}

/// a consumer stops at the first `Ready(None)`: it must not come before every future has completed, and nothing
/// may be yielded after it
fn end_oracle(c: &Case, now_done: bool, yielded: bool) -> Option<String> {
    if c.known_class {
        return None;
    }
    if now_done && !c.all_futs.iter().all(|k| c.env.is_sent(*k)) {
        return Some("fail ended-before-all-futures-completed".into());
    }
    if c.ended && yielded {
        return Some("fail chunk-after-end".into());
    }
    None
}

fn poll_oracle(c: &Case) -> Option<String> {
    if !c.level_b || c.known_class {
        return None;
    }
    let d = if c.ooo { apply_scripts(&c.raw) } else { c.raw.clone() };
    for (tok, need) in &c.facts.content {
        let needle = format!(">{tok}<");
        if count(&c.raw, &needle) > 1 {
            return Some(format!("fail chunk-twice {tok}"));
        }
        if d.contains(&needle) && !need.iter().all(|k| c.env.is_sent(*k)) {
            return Some(format!("fail content-before-ready {tok}"));
        }
    }
    for (fb, deps, region) in &c.facts.boundaries {
        let needle = format!("<u>{fb}</u>");
        if count(&c.raw, &needle) > 1 {
            return Some(format!("fail chunk-twice {fb}"));
        }
        if c.ooo {
            let visible = match region {
                None => !d.is_empty(),
                Some(t) => d.contains(&format!(">{t}<")),
            };
            if visible && !deps.iter().all(|k| c.env.is_sent(*k)) && !d.contains(&needle) {
                return Some(format!("fail fallback-missing {fb}"));
            }
        }
    }
    Some("ok".into())
}

fn op(line: &str) -> String {
    let w: Vec<&str> = line.split_whitespace().collect();
    match w.as_slice() {
        ["case", n] => {
            drop_case();
            // the generator puts the case's tags into its name: <id>~tag~tag
            let tags: Vec<&str> = n.split('~').skip(1).collect();
            if tags.is_empty() {
                format!("case {n}")
            } else {
                format!("case {n} tags={}", tags.join(","))
            }
        }
        ["prog", mode, d0, toks @ ..] => start(false, false, mode, d0, toks),
        ["view", mode, d0, toks @ ..] => start(true, false, mode, d0, toks),
        ["viewf", mode, d0, toks @ ..] => start(true, true, mode, d0, toks),
        ["drain"] => CASE.with(|c| {
            let c = c.borrow();
            let Some(c) = c.as_ref() else { return "bad-op".to_string() };
            if c.level_b {
                c.owner.with(|| sched::run_until_idle(100_000));
            }
            "ok".into()
        }),
        ["send", ks] => {
            let Some(ks) = ks.split(',').map(|x| x.parse::<usize>().ok()).collect::<Option<Vec<_>>>() else {
                return "bad-op".into();
            };
            CASE.with(|c| {
                let c = c.borrow();
                let Some(c) = c.as_ref() else { return "bad-op".to_string() };
                for k in ks {
                    c.env.send(k);
                }
                "ok".into()
            })
        }
        ["run", is] => {
            let Some(is) = (if *is == "-" {
                Some(vec![])
            } else {
                is.split(',').map(|x| x.parse::<usize>().ok()).collect::<Option<Vec<_>>>()
            }) else {
                return "bad-op".into();
            };
            CASE.with(|c| {
                let c = c.borrow();
                let Some(c) = c.as_ref() else { return "bad-op".to_string() };
                if c.level_b {
                    c.owner.with(|| {
                        for i in is {
                            sched::poll_nth_ready(i);
                        }
                    });
                }
                "ok".into()
            })
        }
        ["poll"] => CASE.with(|c| {
            let mut c = c.borrow_mut();
            let Some(c) = c.as_mut() else { return "bad-op".to_string() };
            if c.dead {
                return "dead".into();
            }
            let owner = c.owner.clone();
            if c.level_b && !c.free {
                owner.with(|| sched::run_until_idle(100_000));
            }
            let free = c.free;
            let waker = sched::noop_waker();
            let mut cx = Context::from_waker(&waker);
            let stream = c.stream.as_mut().unwrap();
            let r = catch_unwind(AssertUnwindSafe(|| owner.with(|| stream.as_mut().poll_next(&mut cx))));
            match r {
                Err(_) => {
                    c.dead = true;
                    "panic".into()
                }
                Ok(Poll::Pending) => if free { "-".into() } else { "pending".into() },
                Ok(Poll::Ready(None)) => {
                    c.finished = true;
                    let o = if free { "-" } else { "done" };
                    let e = end_oracle(c, true, false);
                    c.ended = true;
                    match e.or_else(|| poll_oracle(c)) {
                        Some(v) => format!("{o} ## {v}"),
                        None => o.into(),
                    }
                }
                Ok(Poll::Ready(Some(s))) => {
                    let s = norm(c, &s);
                    c.finished = false;
                    c.raw.push_str(&s);
                    let empty = if s.is_empty() { Some("fail empty-chunk".to_string()) } else { None };
                    let shown = if c.branching { collapse_branches(&s) } else { s.clone() };
                    let o = if free { "-".to_string() } else { format!("item {}", hex(shown.as_bytes())) };
                    match empty.or_else(|| poll_oracle(c)) {
                        Some(v) => format!("{o} ## {v}"),
                        None => o,
                    }
                }
            }
        }),
        ["end", chk] => CASE.with(|c| {
            let c = c.borrow();
            let Some(c) = c.as_ref() else { return "bad-op".to_string() };
            let doc = if c.ooo { apply_scripts(&c.raw) } else { c.raw.clone() };
            // <Transition set_pending> / <Await blocking>: once the stream has ended and everything has completed, no
            // Transition is pending any more and every deferred future (what the integration waits for before the first
            // chunk) is ready
            let mut extra: Option<&str> = None;
            if c.level_b && c.finished && !c.known_class && c.all_futs.iter().all(|k| c.env.is_sent(*k)) {
                c.owner.with(|| {
                    sched::run_until_idle(100_000);
                    if c.env.0.pending.lock().unwrap().iter().any(|s| s.try_get_untracked() == Some(true)) {
                        extra = Some("fail transition-still-pending");
                    }
                    if c.env.0.blocking.lock().unwrap().iter().all(|k| c.env.is_sent(*k)) {
                        let sc = Owner::current_shared_context().unwrap();
                        let waker = sched::noop_waker();
                        let mut cx = Context::from_waker(&waker);
                        while let Some(mut fut) = sc.await_deferred() {
                            if fut.as_mut().poll(&mut cx).is_pending() {
                                extra = Some("fail deferred-not-ready");
                                break;
                            }
                        }
                    }
                });
            }
            match *chk {
                "check" => {
                    let plain = if c.branching { strip_branches(&doc) } else { Some(doc.clone()) };
                    let v = if !c.finished {
                        "fail not-terminated"
                    } else if let Some(e) = extra {
                        e
                    } else if !c.level_b && !nonce_attrs_ok(&c.raw, &c.prog_nonces) {
                        "fail nonce-attr-broken"
                    } else if c.nonce.is_some() && count(&c.raw, "<script") != count(&c.raw, "<script nonce=\"NONCE\">") {
                        // under a nonce-based CSP the browser does not run an inline script without the nonce
                        "fail script-without-nonce"
                    } else if plain.is_none() {
                        "fail branch-markers-unbalanced"
                    } else if c.plain_branching.as_ref().is_some_and(|r| norm(c, r) != c.raw) {
                        // no future anywhere: the stream is the synchronous render, markers included
                        "fail branch-markers-differ"
                    } else if plain.as_deref() == Some(c.reference.as_str()) {
                        "ok"
                    } else {
                        "fail doc-mismatch"
                    };
                    let shown = if c.branching { collapse_branches(&doc) } else { doc.clone() };
                    format!("doc {} ## {v}", hex(shown.as_bytes()))
                }
                "nocheck" => {
                    let shown = if c.branching { collapse_branches(&doc) } else { doc.clone() };
                    format!("doc {}", hex(shown.as_bytes()))
                }
                _ => "bad-op".into(),
            }
        }),
        _ => "bad-op".into(),
    }
}

// ------------------------------------------------------------------ generator

fn ser_ops(ops: &[Op], out: &mut Vec<String>) {
    let f = |d: &Vec<usize>| d.iter().map(|k| k.to_string()).collect::<Vec<_>>().join(".");
    for o in ops {
        match o {
            Op::Sync(s) => out.push(format!("s{}", hex(s.as_bytes()))),
            Op::Fallback(s) => out.push(format!("f{}", hex(s.as_bytes()))),
            Op::NextId => out.push("i".into()),
            Op::Finish => out.push("F".into()),
            Op::Sub(b) => {
                out.push("b[".into());
                ser_ops(b, out);
                out.push("]".into());
            }
            Op::Async(d, b) => {
                out.push(format!("a{}[", f(d)));
                ser_ops(b, out);
                out.push("]".into());
            }
            Op::Ooo { deps, replace: false, .. } => out.push(format!("O{}", f(deps))),
            Op::Ooo { deps, body, nonce, .. } => {
                match nonce {
                    Some(n) => out.push(format!("n{}:{}[", f(deps), hex(n.as_bytes()))),
                    None => out.push(format!("o{}[", f(deps))),
                }
                ser_ops(body, out);
                out.push("]".into());
            }
        }
    }
}

fn ser_views(vs: &[V], out: &mut Vec<String>) {
    for v in vs {
        let (head, kids): (String, &Vec<V>) = match v {
            V::Text(s) => {
                out.push(format!("t{}", hex(s.as_bytes())));
                continue;
            }
            V::El(t, k) => (format!("e{t}["), k),
            V::Island(true, k) => ("I[".into(), k),
            V::Island(false, k) => ("C[".into(), k),
            V::Tup(k) => ("q[".into(), k),
            V::List(k) => ("l[".into(), k),
            V::Suspend(f, k) => (format!("s{f}["), k),
            V::Suspense { fb, transition, kids } => (
                format!("{}{}[", if *transition { "T" } else { "S" }, fb.clone().unwrap_or("-".into())),
                kids,
            ),
            V::Await(f, k) => (format!("A{f}["), k),
            V::Eb(k) => ("B[".into(), k),
            V::ResSuspend(f, k) => (format!("u{f}["), k),
            V::ResRead(kind, f, k) => (format!("g{kind}{f}["), k),
            V::LocalRead(sync) => {
                out.push(if *sync { "L".into() } else { "M".into() });
                continue;
            }
            V::LocalAwait(f) => {
                out.push(format!("W{f}"));
                continue;
            }
        };
        out.push(head);
        ser_views(kids, out);
        out.push("]".into());
    }
}

struct Gen {
    r: Rng,
    futs: usize,
    toks: usize,
    budget: usize,
    /// free mode: a server resource may be created (and awaited) inside the output of a Suspend under a boundary; its
    /// loader needs an executor turn of its own, so the poll at which the boundary resolves is not the model's, the
    /// document is
    lazy_res: bool,
}

impl Gen {
    fn tok(&mut self, p: &str) -> String {
        self.toks += 1;
        format!("{p}{}", self.toks)
    }
    fn leaf(&mut self) -> V {
        let tag = *self.r.pick(&["b", "i", "em", "span", "p"]);
        let t = self.tok("x");
        match self.r.below(12) {
            // text that has to be escaped, in an ordinary element / in a <textarea> / as an attribute value
            0 => V::El(tag.into(), vec![V::Text(format!("{}{t}", self.r.pick(HOSTILE)))]),
            1 | 2 => V::El("textarea".into(), vec![V::Text(format!("{}{t}", self.r.pick(HOSTILE)))]),
            3 => {
                let v = format!("{}{t}", self.r.pick(HOSTILE));
                V::El(format!("{tag}@{}", hex(v.as_bytes())), vec![V::Text(t)])
            }
            _ => V::El(tag.into(), vec![V::Text(t)]),
        }
    }
    fn fut(&mut self) -> usize {
        self.futs += 1;
        self.futs
    }
    fn text(&mut self) -> V {
        let t = self.tok("x");
        if self.r.chance(1, 6) { V::Text(format!("{}{t}", self.r.pick(HOSTILE))) } else { V::Text(t) }
    }
    /// items whose LAST one is text: text, elements and (nested) tuples / Vecs / islands that again end in text
    fn text_items(&mut self, depth: usize) -> Vec<V> {
        let n = self.r.below(3);
        let mut out = vec![];
        for _ in 0..n {
            let v = match self.r.below(if depth > 0 { 7 } else { 3 }) {
                0 | 1 => self.text(),
                2 => {
                    let tag = *self.r.pick(&["b", "i", "em"]);
                    V::El(tag.into(), vec![self.text()])
                }
                3 | 4 => V::List(self.text_items(depth - 1)),
                5 => V::Tup(self.text_items(depth - 1)),
                _ => V::Island(self.r.chance(1, 2), self.text_items(depth - 1)),
            };
            out.push(v);
        }
        out.push(self.text());
        out
    }
    /// an element whose children are text nodes next to each other and containers (Vec, tuple, island) that END in
    /// text, each followed by a text sibling: where the `<!>` separators go is a matter of `Position` (round-5 seed 1)
    fn text_cluster(&mut self) -> V {
        let tag = *self.r.pick(&["p", "span", "div"]);
        let mut kids = vec![];
        for _ in 0..self.r.range(1, 3) {
            let items = self.text_items(2);
            kids.push(match self.r.below(4) {
                0 | 1 => V::List(items),
                2 => V::Tup(items),
                _ => V::Island(self.r.chance(1, 2), items),
            });
            kids.push(self.text());
        }
        V::El(tag.into(), kids)
    }
    /// `under`: inside a Suspense (directly awaited); `allow_known`: may produce the known-finding shapes
    fn view(&mut self, depth: usize, max_f: usize, ctx: Ctx, allow_known: bool) -> V {
        let can_async = depth > 0 && self.futs < max_f;
        if self.budget == 0 {
            return self.leaf();
        }
        self.budget -= 1;
        match self.r.below(if can_async { 16 } else { 4 }) {
            0 | 1 => if self.r.chance(1, 4) { self.text_cluster() } else { self.leaf() },
            2 => {
                let tag = *self.r.pick(&["div", "section", "p", "span"]);
                let n = self.r.range(1, 3);
                let kids = (0..n).map(|_| self.view(depth, max_f, ctx, allow_known)).collect();
                match self.r.below(8) {
                    0 => V::Island(true, kids),
                    1 => V::Island(false, kids),
                    _ => V::El(tag.into(), kids),
                }
            }
            3 => {
                let n = self.r.range(1, 3);
                let kids = (0..n).map(|_| self.view(depth, max_f, ctx, allow_known)).collect();
                if self.r.chance(1, 2) { V::Tup(kids) } else { V::List(kids) }
            }
            4 | 5 | 6 => {
                // Suspend
                if ctx == Ctx::Nested && !allow_known {
                    return self.leaf();
                }
                let k = self.fut();
                let inner = match ctx {
                    Ctx::Top => Ctx::Top,
                    _ => Ctx::Nested,
                };
                let n = self.r.range(1, 2);
                V::Suspend(k, (0..n).map(|_| self.view(depth - 1, max_f, inner, allow_known)).collect())
            }
            7 | 8 | 9 => {
                let fb = if self.r.chance(5, 6) { Some(self.tok("fb")) } else { None };
                let n = self.r.range(1, 3);
                let kids = (0..n).map(|_| self.view(depth - 1, max_f, Ctx::Direct, allow_known)).collect();
                V::Suspense { fb, transition: self.r.chance(1, 5), kids }
            }
            10 => {
                let k = self.fut();
                let n = self.r.range(1, 2);
                V::Await(k, (0..n).map(|_| self.view(depth - 1, max_f, Ctx::Nested, allow_known)).collect())
            }
            11 => {
                if allow_known {
                    let n = self.r.range(1, 3);
                    V::Eb((0..n).map(|_| self.view(depth, max_f, ctx, allow_known)).collect())
                } else {
                    self.leaf()
                }
            }
            12 | 13 | 14 => {
                // a server resource: read synchronously by the children of a boundary or awaited in a Suspend.  Only where
                // the resource is created together with the future that waits for it (at render time, or with the
                // boundary): one created later, inside the output of a Suspend, needs an executor turn of its own
                let k = self.fut();
                let n = self.r.range(1, 2);
                match ctx {
                    Ctx::Direct if self.r.chance(1, 2) => {
                        let kind = *self.r.pick(&['o', 'r', 'd']);
                        // the output of the read is only built once the value is there: no sync reads in it
                        V::ResRead(kind, k, (0..n).map(|_| self.view(depth - 1, max_f, Ctx::Nested, allow_known)).collect())
                    }
                    Ctx::Direct => {
                        V::ResSuspend(k, (0..n).map(|_| self.view(depth - 1, max_f, Ctx::Nested, allow_known)).collect())
                    }
                    Ctx::Top => V::ResSuspend(k, (0..n).map(|_| self.view(depth - 1, max_f, Ctx::Top, allow_known)).collect()),
                    Ctx::Nested if self.lazy_res && self.r.chance(1, 2) => {
                        V::ResSuspend(k, (0..n).map(|_| self.view(depth - 1, max_f, Ctx::Nested, allow_known)).collect())
                    }
                    Ctx::Nested if allow_known && self.r.chance(1, 2) => {
                        // F-C07-6: read for the first time while the boundary resolves its children (its output, if
                        // any, is synchronous: what it would wait for depends on when it is evaluated)
                        let kind = *self.r.pick(&['o', 'r', 'd']);
                        V::ResRead(kind, k, (0..n).map(|_| self.view(0, max_f, Ctx::Nested, allow_known)).collect())
                    }
                    Ctx::Nested => {
                        V::Suspend(k, (0..n).map(|_| self.view(depth - 1, max_f, Ctx::Nested, allow_known)).collect())
                    }
                }
            }
            _ => {
                // a LocalResource read by the children of a boundary (sync read / awaited first): the fallback stays
                if ctx == Ctx::Direct && self.r.chance(1, 2) {
                    V::LocalRead(self.r.chance(1, 2))
                } else {
                    self.leaf()
                }
            }
        }
    }

    /// a view-shaped builder program (what `compile` produces, but generated independently)
    fn prog(&mut self, ooo: bool, depth: usize, max_f: usize, len: usize) -> Vec<Op> {
        let mut out = vec![];
        for _ in 0..len {
            match self.r.below(if depth > 0 && self.futs < max_f { 6 } else { 2 }) {
                0 | 1 => {
                    let t = self.tok("x");
                    out.push(Op::Sync(format!("<b>{t}</b>")))
                }
                2 | 3 | 4 => {
                    let k = self.fut();
                    let n = self.r.range(0, 3);
                    let body = self.prog(ooo, depth - 1, max_f, n);
                    out.push(Op::NextId);
                    if ooo {
                        let fb = self.tok("fb");
                        out.push(Op::Fallback(format!("<u>{fb}</u>")));
                        let replace = !self.r.chance(1, 8);
                        // F-C07-9 (API only): the nonce is written into the attribute as it is
                        let nonce = match self.r.below(24) {
                            0 => Some(format!("n\"><x{}", self.tok("q"))),
                            1..=3 => Some(self.tok("nonce")),
                            _ => None,
                        };
                        out.push(Op::Ooo {
                            deps: vec![k],
                            replace,
                            body: if replace { body } else { vec![] },
                            nonce: if replace { nonce } else { None },
                        });
                    } else {
                        out.push(Op::Async(vec![k], body));
                    }
                }
                _ => {
                    let t = self.tok("x");
                    out.push(Op::Sync(format!("<i>{t}</i>")));
                    let t = self.tok("x");
                    out.push(Op::Sync(format!("<em>{t}</em>")));
                }
            }
        }
        out
    }

    /// anything the API allows (chunk-level comparison only)
    fn wild(&mut self, depth: usize, max_f: usize, len: usize) -> Vec<Op> {
        let mut out = vec![];
        for _ in 0..len {
            match self.r.below(if depth > 0 && self.futs < max_f { 10 } else { 5 }) {
                0 => {
                    let t = self.tok("x");
                    out.push(Op::Sync(format!("<b>{t}</b>")))
                }
                1 => {
                    if self.r.chance(1, 2) {
                        out.push(Op::Finish)
                    } else {
                        let t = self.tok("x");
                        out.push(Op::Sync(format!("<i>{t}</i>")))
                    }
                }
                2 => out.push(Op::NextId),
                3 => {
                    let fb = self.tok("fb");
                    out.push(Op::Fallback(format!("<u>{fb}</u>")))
                }
                4 => {
                    if depth > 0 {
                        let n = self.r.range(0, 3);
                        out.push(Op::Sub(self.wild(depth - 1, max_f, n)))
                    }
                }
                5 | 6 => {
                    let k = self.fut();
                    let n = self.r.range(0, 4);
                    out.push(Op::Async(vec![k], self.wild(depth - 1, max_f, n)))
                }
                7 | 8 => {
                    let k = self.fut();
                    let n = self.r.range(0, 4);
                    if self.r.chance(2, 3) {
                        let fb = self.tok("fb");
                        out.push(Op::Fallback(format!("<u>{fb}</u>")));
                    }
                    out.push(Op::Ooo { deps: vec![k], replace: true, body: self.wild(depth - 1, max_f, n), nonce: None })
                }
                _ => {
                    let k = self.fut();
                    out.push(Op::Ooo { deps: vec![k], replace: false, body: vec![], nonce: None })
                }
            }
        }
        out
    }
}

/// all sequences of sends (a permutation of `futs`) interleaved with `gaps` choices of polls
fn schedules(futs: &[usize], max_gap: usize, out: &mut Vec<Vec<(Vec<usize>, usize)>>) {
    fn perms(xs: &mut Vec<usize>, k: usize, out: &mut Vec<Vec<usize>>) {
        if k == xs.len() {
            out.push(xs.clone());
            return;
        }
        for i in k..xs.len() {
            xs.swap(k, i);
            perms(xs, k + 1, out);
            xs.swap(k, i);
        }
    }
    let mut ps = vec![];
    perms(&mut futs.to_vec(), 0, &mut ps);
    let n = futs.len();
    for p in ps {
        // gap[i] polls before send i
        let total = (max_gap + 1).pow(n as u32);
        for code in 0..total {
            let mut c = code;
            let mut sch = vec![];
            for k in &p {
                sch.push((vec![*k], c % (max_gap + 1)));
                c /= max_gap + 1;
            }
            out.push(sch);
        }
    }
}

fn write_case(
    f: &mut impl std::io::Write,
    name: &str,
    head: &str,
    level_b: bool,
    sched: &[(Vec<usize>, usize)],
    runs: &mut Rng,
    tail_polls: usize,
    check: bool,
) -> std::io::Result<()> {
    writeln!(f, "case {name}")?;
    writeln!(f, "{head}")?;
    let mut run_line = |f: &mut dyn std::io::Write| -> std::io::Result<()> {
        if level_b {
            let n = runs.below(4);
            let is: Vec<String> = (0..n).map(|_| runs.below(5).to_string()).collect();
            writeln!(f, "run {}", if is.is_empty() { "-".to_string() } else { is.join(",") })?;
        }
        Ok(())
    };
    for (ks, polls_before) in sched {
        for _ in 0..*polls_before {
            run_line(f)?;
            writeln!(f, "poll")?;
        }
        writeln!(f, "send {}", ks.iter().map(|k| k.to_string()).collect::<Vec<_>>().join(","))?;
    }
    for _ in 0..tail_polls {
        run_line(f)?;
        writeln!(f, "poll")?;
    }
    writeln!(f, "end {}", if check { "check" } else { "nocheck" })
}

fn async_nodes(vs: &[V]) -> usize {
    vs.iter()
        .map(|v| match v {
            V::Text(_) => 0,
            V::Suspend(_, k) => 1 + async_nodes(k),
            V::Await(_, k) => 2 + async_nodes(k),
            V::El(_, k) | V::Island(_, k) | V::Tup(k) | V::List(k) | V::Eb(k) | V::ResRead(_, _, k) => async_nodes(k),
            V::ResSuspend(_, k) => 1 + async_nodes(k),
            V::LocalRead(_) | V::LocalAwait(_) => 1,
            V::Suspense { kids, .. } => 1 + async_nodes(kids),
        })
        .sum()
}

/// the futures a stream has to wait for: nothing below a boundary that reads a LocalResource at once, only the
/// awaited future below one that reads it later
fn needed_futs(vs: &[V], out: &mut Vec<usize>) {
    fn local_now(kids: &[V]) -> bool {
        kids.iter().any(|k| match k {
            V::LocalRead(_) => true,
            V::El(_, k) | V::Island(_, k) | V::Tup(k) | V::List(k) | V::Eb(k) => local_now(k),
            _ => false,
        })
    }
    fn local_wait(kids: &[V]) -> Option<usize> {
        kids.iter().find_map(|k| match k {
            V::LocalAwait(f) => Some(*f),
            V::El(_, k) | V::Island(_, k) | V::Tup(k) | V::List(k) | V::Eb(k) => local_wait(k),
            _ => None,
        })
    }
    for v in vs {
        match v {
            V::Text(_) | V::LocalRead(_) | V::LocalAwait(_) => {}
            V::Suspend(k, kids) | V::Await(k, kids) | V::ResSuspend(k, kids) | V::ResRead(_, k, kids) => {
                out.push(*k);
                needed_futs(kids, out)
            }
            V::El(_, k) | V::Island(_, k) | V::Tup(k) | V::List(k) | V::Eb(k) => needed_futs(k, out),
            V::Suspense { kids, .. } => {
                if local_now(kids) {
                } else if let Some(f) = local_wait(kids) {
                    out.push(f)
                } else {
                    needed_futs(kids, out)
                }
            }
        }
    }
}

fn futs_of_views(vs: &[V], out: &mut Vec<usize>) {
    for v in vs {
        match v {
            V::Text(_) => {}
            V::Suspend(k, kids) | V::Await(k, kids) => {
                out.push(*k);
                futs_of_views(kids, out)
            }
            V::El(_, k) | V::Island(_, k) | V::Tup(k) | V::List(k) | V::Eb(k) => futs_of_views(k, out),
            V::ResSuspend(f, kids) | V::ResRead(_, f, kids) => {
                out.push(*f);
                futs_of_views(kids, out)
            }
            V::LocalRead(_) => {}
            V::LocalAwait(f) => out.push(*f),
            V::Suspense { kids, .. } => futs_of_views(kids, out),
        }
    }
}

fn futs_of_ops(ops: &[Op], out: &mut Vec<usize>) {
    for o in ops {
        match o {
            Op::Async(d, b) => {
                out.extend(d);
                futs_of_ops(b, out)
            }
            Op::Ooo { deps, body, .. } => {
                out.extend(deps);
                futs_of_ops(body, out)
            }
            Op::Sub(b) => futs_of_ops(b, out),
            _ => {}
        }
    }
}

const SHAPES_B: &[&str] = &[
    // two futures: a top-level Suspend and a Suspense with a Suspend child, among siblings
    "ediv[ eb[ t6131 ] s1[ ei[ t7631 ] ] eb[ t6132 ] Sfb1[ ep[ t6331 ] s2[ eem[ t7632 ] ] ] eb[ t6133 ] ]",
    // nested Suspense, sibling Suspend
    "esection[ Sfb1[ ep[ t6331 ] s1[ ei[ t7631 ] ] Sfb2[ s2[ eem[ t7632 ] ] ep[ t6332 ] ] ] s3[ eb[ t7633 ] ] ]",
    // Suspend whose output contains a Suspense and an Await
    "ediv[ s1[ ep[ t7631 ] Sfb1[ s2[ ei[ t7632 ] ] ] ] A3[ I[ eb[ t7633 ] ] ] C[ ep[ t6131 ] ] ]",
    // three top-level Suspends in a Vec and a tuple
    "l[ s1[ eb[ t7631 ] ] q[ s2[ ei[ t7632 ] ] ep[ t6131 ] ] s3[ eem[ t7633 ] ] ]",
    // depth 3 and four futures
    "ediv[ s1[ Sfb1[ s2[ eb[ t7632 ] ] Tfb2[ s3[ ei[ t7633 ] ] ] ] ep[ t7631 ] ] S-[ s4[ eem[ t7634 ] ] ] ]",
    // resource kinds under boundaries: sync reads (OnceResource, Resource), a Suspend awaiting a resource, a boundary
    // that reads a LocalResource (keeps its fallback), one where the local read wins over a server resource
    "ediv[ Sfb1[ go1[ ei[ t7631 ] ] ep[ t6331 ] ] u2[ eb[ t7632 ] ] Tfb2[ L ep[ t6332 ] ] Sfb3[ gr3[ eem[ t7633 ] ] M ] ]",
    // F-C07-6 (sync-read-late): a resource read in the `.map` output of another read …
    "ediv[ Sfb1[ go1[ ei[ t7631 ] gr2[ eem[ t7632 ] ] ] ] eb[ t6131 ] ]",
    // … in the output of a Suspend, of an <Await>
    "ediv[ Tfb1[ s1[ ei[ t7631 ] gd2[ eem[ t7632 ] ] ] ] A3[ go2[ eb[ t7633 ] ] ] ]",
    // text that needs escaping (a <textarea> with `<`, `&`, `</textarea>`, a leading line feed; ordinary text; an attribute
    // value) AFTER a sibling that is still pending and INSIDE content that resolves later (round-4 seed 3)
    "ediv[ s1[ ei[ t7631 ] ] etextarea[ t0a6966203c6220262620633e64207b203c2f74657874617265613e ] Sfb1[ s2[ etextarea[ t3c2f74657874617265613e78 ] ep@223e3c78[ t613c62 ] ] ] ]",
    // text next to text: Vecs / tuples / islands whose LAST item is text, each followed by a text sibling, next to pending
    // Suspends and inside content that resolves later (round-5 seed 1)
    "ediv[ s1[ ei[ t7631 ] ] ep[ l[ t61 t62 ] t63 q[ t64 l[ eb[ t65 ] t66 ] ] t67 I[ t68 ] t69 ] Sfb1[ s2[ ep[ l[ t6a ] t6b ] ] ] ]",
    // … under an inner boundary that is rendered later: what it waits for depends on what had loaded by then
    "ediv[ Sfb1[ s3[ ep[ t7633 ] Sfb2[ gd1[ ei[ t7631 ] go2[ eem[ t7632 ] ] ] ] ] ] ]",
];

fn gen(seed: u64, n: usize, path: &str, tier: &str) -> std::io::Result<()> {
    use std::io::Write;
    let mut f = std::io::BufWriter::new(std::fs::File::create(path)?);
    let mut runs = Rng::new(seed ^ 0x5eed);
    let thorough = tier == "thorough";
    let mut id = 0usize;
    // ---- exhaustive small scope: all completion permutations x poll interleavings
    for (si, shape) in SHAPES_B.iter().enumerate() {
        let toks: Vec<&str> = shape.split_whitespace().collect();
        let mut i = 0;
        let vs = parse_views(&toks, &mut i).expect("shape");
        let mut futs = vec![];
        futs_of_views(&vs, &mut futs);
        let max_gap = if futs.len() >= 4 { if thorough { 2 } else { 1 } } else if thorough { 3 } else { 2 };
        let mut schs = vec![];
        schedules(&futs, max_gap, &mut schs);
        // the `_branching` streams and a provided nonce: the first shapes (no late read: its `None` is an `Either` of its own)
        let modes: &[&str] = if si < 3 { &["io", "ooo", "iob", "ooob", "ooon", "ion"] } else { &["io", "ooo"] };
        for mode in modes {
            for sch in &schs {
                id += 1;
                let head = format!("view {mode} - {}", toks.join(" "));
                write_case(&mut f, &format!("xb{si}-{id}~view~{mode}~exhaustive"), &head, true, sch, &mut runs, futs.len() * 2 + 3, true)?;
            }
        }
    }
    // the same shapes on level A (their builder programs, written independently of the model)
    let shapes_a: Vec<(bool, Vec<Op>)> = {
        let s = |t: &str| Op::Sync(t.to_string());
        let o = |k: usize, body: Vec<Op>| Op::Ooo { deps: vec![k], replace: true, body, nonce: None };
        let fb = |t: &str| Op::Fallback(t.to_string());
        vec![
            (false, vec![s("<div>"), s("<b>a1</b>"), Op::NextId, Op::Async(vec![1], vec![s("<i>v1</i>")]), s("<b>a2</b>"),
                 Op::NextId, Op::Async(vec![2], vec![s("<p>c1</p>"), Op::NextId, Op::Async(vec![3], vec![s("<em>v3</em>")]), s("<p>c2</p>")]),
                 s("</div>")]),
            (true, vec![s("<div>"), Op::NextId, fb("<u>fb1</u>"), o(1, vec![s("<i>v1</i>")]), s("<b>a2</b>"), Op::NextId,
                 fb("<u>fb2</u>"), o(2, vec![s("<p>c1</p>"), Op::NextId, fb("<u>fb3</u>"), o(3, vec![s("<em>v3</em>")]), s("<p>c2</p>")]),
                 s("</div>")]),
            (true, vec![Op::NextId, fb("<u>fb1</u>"), o(1, vec![Op::NextId, fb("<u>fb2</u>"), o(2, vec![s("<i>v2</i>")]), Op::NextId,
                 fb("<u>fb3</u>"), Op::Ooo { deps: vec![3], replace: false, body: vec![], nonce: None }]), s("<b>z</b>")]),
        ]
    };
    for (si, (ooo, ops)) in shapes_a.iter().enumerate() {
        let mut futs = vec![];
        futs_of_ops(ops, &mut futs);
        let mut schs = vec![];
        schedules(&futs, if thorough { 3 } else { 2 }, &mut schs);
        let mut toks = vec![];
        ser_ops(ops, &mut toks);
        for sch in &schs {
            id += 1;
            let head = format!("prog {} - {}", if *ooo { "ooo" } else { "io" }, toks.join(" "));
            write_case(&mut f, &format!("xa{si}-{id}~builder~{}~exhaustive", if *ooo { "ooo" } else { "io" }), &head, false, sch, &mut runs, futs.len() * 2 + 3, true)?;
        }
    }
    // ---- free interleavings (stream polls while executor tasks are still runnable): views outside the known classes
    let mut r = Rng::new(seed ^ 0xf4ee);
    for c in 0..n / 4 {
        let mut g = Gen { r: Rng::new(r.next()), futs: 0, toks: 0, budget: 12, lazy_res: true };
        let mode = if g.r.chance(1, 2) { "ooo" } else { "io" };
        let max_f = g.r.range(1, 5);
        let nv = g.r.range(1, 3);
        let mut vs: Vec<V> = (0..nv).map(|_| g.view(3, max_f, Ctx::Top, true)).collect();
        if g.r.chance(1, 3) {
            // a LocalResource awaited after another future: the boundary's future resolves to None late
            // (the poll at which it does depends on futures::select!'s random order: free mode only)
            let k = g.fut();
            let fb = g.tok("fb");
            let other = g.leaf();
            let b = V::Suspense { fb: Some(fb), transition: g.r.chance(1, 4), kids: vec![V::LocalAwait(k), other] };
            let at = g.r.below(vs.len() + 1);
            vs.insert(at, b);
        }
        let mut futs = vec![];
        futs_of_views(&vs, &mut futs);
        // a late synchronous read (F-C07-6) sees whatever has loaded at that very moment: not in free mode
        if futs.is_empty() || has_late_read(Ctx::Top, &V::Tup(vs.clone())) {
            continue;
        }
        let extra = async_nodes(&vs);
        let mut toks = vec![];
        ser_views(&[V::El("div".into(), vs)], &mut toks);
        writeln!(f, "case f{c}~view-free~{mode}")?;
        writeln!(f, "viewf {mode} - {}", toks.join(" "))?;
        let mut order = futs.clone();
        for i in (1..order.len()).rev() {
            let j = g.r.below(i + 1);
            order.swap(i, j);
        }
        let mut next = 0;
        while next < order.len() {
            match g.r.below(6) {
                0 | 1 => {
                    writeln!(f, "send {}", order[next])?;
                    next += 1;
                }
                2 | 3 => writeln!(f, "run {}", g.r.below(5))?,
                4 => writeln!(f, "poll")?,
                _ => writeln!(f, "drain")?,
            }
        }
        for _ in 0..(futs.len() + extra) * 2 + 4 {
            match g.r.below(3) {
                0 => writeln!(f, "run {}", g.r.below(5))?,
                1 => writeln!(f, "poll")?,
                _ => {}
            }
            writeln!(f, "drain")?;
            writeln!(f, "poll")?;
        }
        writeln!(f, "end check")?;
    }
    // ---- random
    let mut r = Rng::new(seed);
    for c in 0..n {
        let mut g = Gen { r: Rng::new(r.next()), futs: 0, toks: 0, budget: 14, lazy_res: false };
        let ooo = g.r.chance(1, 2);
        let mode = if ooo { "ooo" } else { "io" };
        let kind = g.r.below(10);
        let max_f = g.r.range(1, 6);
        let mut extra = 0;
        let mut late_futs: Vec<usize> = vec![];
        let (head, futs, level_b, check, tag) = if kind < 5 {
            let allow_known = g.r.chance(1, 2);
            let n = g.r.range(1, 3);
            let mut vs: Vec<V> = (0..n).map(|_| g.view(3, max_f, Ctx::Top, allow_known)).collect();
            // class suspend-position (F-C05-6 seen by C07's oracle): in-order, a Suspend outside every boundary whose content
            // ends in text, followed by a text sibling: pending at render time the separator before the sibling is missing
            let pos_shape = !ooo && g.r.chance(1, 10);
            if pos_shape {
                let k = g.fut();
                let before = g.text();
                let inner = g.text_items(1);
                let after = g.text();
                vs.push(V::El("p".into(), vec![before, V::Suspend(k, inner), after]));
            }
            let mut futs = vec![];
            futs_of_views(&vs, &mut futs);
            extra = async_nodes(&vs);
            let known = has_eb(&V::Tup(vs.clone())) || has_nested_suspend(Ctx::Top, &V::Tup(vs.clone()));
            let late = has_late_read(Ctx::Top, &V::Tup(vs.clone()));
            late_reads(Ctx::Top, &V::Tup(vs.clone()), &mut late_futs);
            let top_suspend = vs.iter().any(has_top_suspend);
            // inside a <textarea> the branch markers of its text child would be escaped as text: not with `b`
            let no_b = late || { let mut t = vec![]; ser_views(&vs, &mut t); t.iter().any(|x| x.starts_with("etextarea")) };
            let tag = if futs.is_empty() { "view~plain" } else if late { "view~sync-read-late" } else if known { "view~repaired-class" } else { "view" };
            let mut toks = vec![];
            ser_views(&[V::El("div".into(), vs)], &mut toks);
            // branch markers / a nonce; not with a late read (its `None` renders as an `Either` branch of its own)
            let flags = match if pos_shape { 7 } else { g.r.below(8) } {
                0 | 1 if !no_b => "b",
                2 => "n",
                3 if !no_b => "bn",
                _ => "",
            };
            let tag = if ooo && flags.contains('n') && top_suspend && !late { "view~suspend-no-nonce" } else { tag };
            let tag = if pos_shape && !late { "view~suspend-position" } else { tag };
            (format!("view {mode}{flags} D0 {}", toks.join(" ")), futs, true, true, tag)
        } else if kind < 8 {
            let n = g.r.range(1, 4);
            let ops = g.prog(ooo, 3, max_f, n);
            let mut futs = vec![];
            futs_of_ops(&ops, &mut futs);
            let mut toks = vec![];
            ser_ops(&ops, &mut toks);
            let tag = if futs.is_empty() { "builder~plain" } else { "builder" };
            (format!("prog {mode} D0 {}", toks.join(" ")), futs, false, true, tag)
        } else {
            let n = g.r.range(1, 5);
            let ops = g.wild(3, max_f, n);
            let mut futs = vec![];
            futs_of_ops(&ops, &mut futs);
            let mut toks = vec![];
            ser_ops(&ops, &mut toks);
            (format!("prog {mode} D0 {}", toks.join(" ")), futs, false, false, "builder-wild")
        };
        // a random schedule: some futures complete before rendering, the rest in random order and groups
        let mut order = futs.clone();
        for i in (1..order.len()).rev() {
            let j = g.r.below(i + 1);
            order.swap(i, j);
        }
        // F-C07-6: the code evaluates a late read when the output that contains it is first polled, the model when the
        // boundary resolves; the random schedules complete such a resource before everything else or after the stream
        // has ended (in between, the outcome depends on which poll_next happened to poll the boundary's future: the
        // exhaustive shapes cover that)
        order.retain(|k| !late_futs.contains(k));
        let (early, lateq): (Vec<usize>, Vec<usize>) = late_futs.iter().partition(|_| g.r.chance(1, 2));
        let mut order: Vec<usize> = early.iter().copied().chain(order).collect();
        order.dedup();
        let n0 = if g.r.chance(1, 4) { g.r.below(order.len() + 1) } else { 0 };
        let n0 = if n0 > 0 { n0.max(early.len()) } else { 0 };
        let done0: Vec<String> = order[..n0].iter().map(|k| k.to_string()).collect();
        let head = head.replace(" D0 ", &format!(" {} ", if done0.is_empty() { "-".to_string() } else { done0.join(",") }));
        let mut sch = vec![];
        let mut i = n0;
        while i < order.len() {
            let take = if g.r.chance(1, 4) { g.r.range(1, 3).min(order.len() - i) } else { 1 };
            let take = if i == n0 && n0 == 0 { take.max(early.len()).min(order.len() - i) } else { take };
            sch.push((order[i..i + take].to_vec(), g.r.below(4)));
            i += take;
        }
        for k in lateq {
            if !order.contains(&k) {
                sch.push((vec![k], (futs.len() + extra) * 2 + 4));
            }
        }
        write_case(&mut f, &format!("r{c}~{tag}~{mode}"), &head, level_b, &sch, &mut runs, (futs.len() + extra) * 2 + 4, check)?;
    }
    f.flush()
}

fn main() {
    match parse_cli() {
        Cmd::Gen { seed, n, ops, tier } => gen(seed, n, &ops, &tier).unwrap(),
        Cmd::Run { ops, out } => {
            quiet_panics();
            sched::install();
            // a panic anywhere in the real code (rendering, an executor task, dropping a case) is a verdict of the
            // line that caused it, never the end of the run
            run_ops(&ops, &out, |line| match catch_unwind(AssertUnwindSafe(|| op(line))) {
                Ok(o) => o,
                Err(_) => {
                    CASE.with(|c| {
                        if let Ok(mut c) = c.try_borrow_mut() {
                            // the case is unusable; leak it rather than run more of the real code's destructors
                            std::mem::forget(c.take());
                        }
                    });
                    sched::reset();
                    "panic ## fail panic".into()
                }
            })
            .unwrap();
            drop_case();
        }
    }
}
