//! Canonical text of native-DOM subtrees.
use hx_common::hex;
use std::collections::HashMap;
use tachys::renderer::native_dom::{self as nd, Node, NodeKind};

/// node id -> canonical number (first appearance in the printed output of a case)
#[derive(Default)]
pub struct Names(HashMap<usize, usize>);

impl Names {
    fn of(&mut self, n: &Node) -> usize {
        let next = self.0.len();
        *self.0.entry(nd::node_id(n)).or_insert(next)
    }
}

/// `T<i>.<muts>:<hex>` | `C<i>.<muts>:<hex>` | `E<i>.<muts>(<tag>;<k>=<hex>&..;<kid>,..)`
pub fn show_node(n: &Node, names: &mut Names) -> String {
    let i = names.of(n);
    let m = nd::mutation_count(n);
    match n.kind() {
        NodeKind::Text => format!("T{i}.{m}:{}", hex(n.text_content().unwrap_or_default().as_bytes())),
        NodeKind::Comment => format!("C{i}.{m}:{}", hex(n.text_content().unwrap_or_default().as_bytes())),
        NodeKind::Element { tag, .. } => {
            let attrs: Vec<String> =
                nd::attributes(n).iter().map(|(k, v)| format!("{k}={}", hex(v.as_bytes()))).collect();
            let kids: Vec<String> = nd::children(n).iter().map(|k| show_node(k, names)).collect();
            format!("E{i}.{m}({tag};{};{})", attrs.join("&"), kids.join(","))
        }
        NodeKind::Fragment => format!("F{i}"),
    }
}

pub fn show_kids(parent: &Node, names: &mut Names) -> String {
    let kids: Vec<String> = nd::children(parent).iter().map(|k| show_node(k, names)).collect();
    format!("[{}]", kids.join(","))
}

fn norm_attr(k: &str, v: &str) -> (String, String) {
    if k == "class" {
        // a class attribute is a set of tokens
        let mut toks: Vec<&str> = v.split_ascii_whitespace().collect();
        toks.sort();
        toks.dedup();
        (k.into(), toks.join(" "))
    } else if k == "style" {
        // a style attribute is a map of declarations (last one wins)
        let mut decls: Vec<(String, String)> = vec![];
        for d in v.split(';') {
            let Some((n, val)) = d.split_once(':') else { continue };
            let n = n.trim();
            let n = if n.starts_with("--") { n.to_string() } else { n.to_ascii_lowercase() };
            let val = val.trim();
            if n.is_empty() || val.is_empty() {
                continue;
            }
            match decls.iter_mut().find(|(k, _)| *k == n) {
                Some((_, v)) => *v = val.to_string(),
                None => decls.push((n, val.to_string())),
            }
        }
        decls.sort();
        let text: Vec<String> = decls.iter().map(|(k, v)| format!("{k}: {v};")).collect();
        (k.into(), text.join(" "))
    } else {
        (k.into(), v.into())
    }
}

/// what the fresh-build oracle compares: structure, text, attributes as a map, no ids, no counters
pub fn norm_node(n: &Node) -> String {
    match n.kind() {
        NodeKind::Text => format!("T:{}", hex(n.text_content().unwrap_or_default().as_bytes())),
        NodeKind::Comment => format!("C:{}", hex(n.text_content().unwrap_or_default().as_bytes())),
        NodeKind::Element { tag, .. } => {
            let mut attrs: Vec<(String, String)> =
                nd::attributes(n).iter().map(|(k, v)| norm_attr(k, v)).collect();
            // an empty class / style attribute is identified with an absent one
            attrs.retain(|(k, v)| !((k == "class" || k == "style") && v.is_empty()));
            attrs.sort();
            let attrs: Vec<String> = attrs.iter().map(|(k, v)| format!("{k}={}", hex(v.as_bytes()))).collect();
            format!("E({tag};{};{})", attrs.join("&"), norm_nodes(&nd::children(n)))
        }
        NodeKind::Fragment => "F".into(),
    }
}

pub fn norm_nodes(ns: &[Node]) -> String {
    ns.iter().map(|n| norm_node(n) + ",").collect()
}
