//! Interpreter from dynamic values into concrete tachys view types.
//!
//! `Dec` is implemented *generically* for the type constructors, so every Rust type written with
//! them (see the `shapes!` list in `src/bin/c03.rs`) is a concrete, non-erased tachys view type whose
//! own `Render::{build, rebuild}` and `Mountable` impls run.  `AnyView` is decoded through the
//! registry of top-level shapes (type tokens -> `into_any()` of that concrete type).
use crate::dynv::{ATy, AVal, TextKind, TyD, ValD};
use std::{borrow::Cow, sync::Arc};
use std::sync::OnceLock;
use tachys::{
    either::{Either, EitherOf3},
    html::{
        attribute::{self as attr, Attr, Attribute, AttributeKey},
        class::{class, Class},
        element::{self as el, ElementChild, HtmlElement},
        style::{style, Style},
    },
    renderer::types::{Element, Node},
    view::{
        add_attr::AddAnyAttr,
        any_view::{AnyView, IntoAny},
        keyed::{keyed, Keyed},
        Mountable, Render, RenderHtml,
    },
};

pub trait Dec: RenderHtml + Send + Sized + 'static {
    fn ty() -> TyD;
    fn from_val(v: &ValD) -> Option<Self>;
}

// ------------------------------------------------------------------------------- type-erased case

pub trait DynCase {
    fn build_mount(&mut self, v: &ValD, parent: &Element, marker: Option<&Node>) -> bool;
    fn rebuild(&mut self, v: &ValD) -> bool;
    fn unmount(&mut self) -> bool;
}

pub struct Case<T: Dec>(Option<T::State>);

impl<T: Dec> DynCase for Case<T> {
    fn build_mount(&mut self, v: &ValD, parent: &Element, marker: Option<&Node>) -> bool {
        let Some(view) = T::from_val(v) else { return false };
        let mut st = view.build();
        st.mount(parent, marker);
        self.0 = Some(st);
        true
    }
    fn rebuild(&mut self, v: &ValD) -> bool {
        let (Some(view), Some(st)) = (T::from_val(v), self.0.as_mut()) else { return false };
        view.rebuild(st);
        true
    }
    fn unmount(&mut self) -> bool {
        match self.0.as_mut() {
            Some(st) => {
                st.unmount();
                self.0 = None;
                true
            }
            None => false,
        }
    }
}

pub struct Shape {
    pub ty: TyD,
    pub new_case: fn() -> Box<dyn DynCase>,
    pub to_any: fn(&ValD) -> Option<AnyView>,
}

pub fn shape_of<T: Dec>() -> Shape {
    fn new_case<T: Dec>() -> Box<dyn DynCase> {
        Box::new(Case::<T>(None))
    }
    fn to_any<T: Dec>(v: &ValD) -> Option<AnyView> {
        Some(T::from_val(v)?.into_any())
    }
    Shape { ty: T::ty(), new_case: new_case::<T>, to_any: to_any::<T> }
}

static REGISTRY: OnceLock<Vec<Shape>> = OnceLock::new();

/// installs the closed family of top-level shapes (also the types an `AnyView` may hold)
pub fn register(shapes: Vec<Shape>) {
    let _ = REGISTRY.set(shapes);
}

pub fn registry() -> &'static [Shape] {
    REGISTRY.get().map(|v| v.as_slice()).unwrap_or(&[])
}

pub fn find_shape(ty: &TyD) -> Option<&'static Shape> {
    registry().iter().find(|s| &s.ty == ty)
}

// ------------------------------------------------------------------------------- leaves

impl Dec for String {
    fn ty() -> TyD {
        TyD::Text
    }
    fn from_val(v: &ValD) -> Option<Self> {
        crate::dynv::text_of(v)
    }
}

/// a text value as a `&'static str`: a fresh (leaked) allocation for `Text`, a slice of the ONE
/// interned allocation of the buffer for `Slice` (so equal-start slices share their address)
fn static_text(v: &ValD) -> Option<&'static str> {
    match v {
        ValD::Text(s) => Some(Box::leak(s.clone().into_boxed_str())),
        ValD::Slice { buf, start, len } => intern(buf).get(*start..start + len),
        _ => None,
    }
}

impl Dec for &'static str {
    fn ty() -> TyD {
        TyD::TextK(TextKind::Str)
    }
    fn from_val(v: &ValD) -> Option<Self> {
        static_text(v)
    }
}

impl Dec for Cow<'static, str> {
    fn ty() -> TyD {
        TyD::TextK(TextKind::Cow)
    }
    fn from_val(v: &ValD) -> Option<Self> {
        match v {
            ValD::Text(s) => Some(Cow::Owned(s.clone())),
            ValD::Slice { .. } => Some(Cow::Borrowed(static_text(v)?)),
            _ => None,
        }
    }
}

/// `Arc<str>` values are interned by contents: two values are the same `Arc` iff they are equal
/// (`Arc<str>::rebuild` compares pointers)
impl Dec for Arc<str> {
    fn ty() -> TyD {
        TyD::TextK(TextKind::Arc)
    }
    fn from_val(v: &ValD) -> Option<Self> {
        use std::{collections::HashMap, sync::Mutex};
        static TABLE: OnceLock<Mutex<HashMap<String, Arc<str>>>> = OnceLock::new();
        let s = crate::dynv::text_of(v)?;
        let mut t = TABLE.get_or_init(|| Mutex::new(HashMap::new())).lock().unwrap();
        Some(t.entry(s.clone()).or_insert_with(|| Arc::from(s.as_str())).clone())
    }
}

impl<T: Dec, const N: usize> Dec for [T; N] {
    fn ty() -> TyD {
        TyD::Arr(N, Box::new(T::ty()))
    }
    fn from_val(v: &ValD) -> Option<Self> {
        match v {
            ValD::Tuple(vs) if vs.len() == N => {
                let items: Vec<T> = vs.iter().map(T::from_val).collect::<Option<_>>()?;
                items.try_into().ok()
            }
            _ => None,
        }
    }
}

impl Dec for () {
    fn ty() -> TyD {
        TyD::Unit
    }
    fn from_val(v: &ValD) -> Option<Self> {
        matches!(v, ValD::Unit).then_some(())
    }
}

impl Dec for AnyView {
    fn ty() -> TyD {
        TyD::Any
    }
    fn from_val(v: &ValD) -> Option<Self> {
        match v {
            ValD::Any(ty, inner) => (find_shape(ty)?.to_any)(inner),
            _ => None,
        }
    }
}

// ------------------------------------------------------------------------------- combinators

macro_rules! dec_tuple {
    ($($T:ident $i:tt),+) => {
        impl<$($T: Dec),+> Dec for ($($T,)+) {
            fn ty() -> TyD {
                TyD::Tuple(vec![$($T::ty()),+])
            }
            fn from_val(v: &ValD) -> Option<Self> {
                match v {
                    ValD::Tuple(vs) if vs.len() == [$($i),+].len() => Some(($($T::from_val(&vs[$i])?,)+)),
                    _ => None,
                }
            }
        }
    };
}
dec_tuple!(A 0);
dec_tuple!(A 0, B 1);
dec_tuple!(A 0, B 1, C 2);
dec_tuple!(A 0, B 1, C 2, D 3);

impl<T: Dec> Dec for Option<T> {
    fn ty() -> TyD {
        TyD::Opt(Box::new(T::ty()))
    }
    fn from_val(v: &ValD) -> Option<Self> {
        match v {
            ValD::Opt(None) => Some(None),
            ValD::Opt(Some(x)) => Some(Some(T::from_val(x)?)),
            _ => None,
        }
    }
}

impl<A: Dec, B: Dec> Dec for Either<A, B> {
    fn ty() -> TyD {
        TyD::Either(vec![A::ty(), B::ty()])
    }
    fn from_val(v: &ValD) -> Option<Self> {
        match v {
            ValD::Either(0, x) => Some(Either::Left(A::from_val(x)?)),
            ValD::Either(1, x) => Some(Either::Right(B::from_val(x)?)),
            _ => None,
        }
    }
}

impl<A: Dec, B: Dec, C: Dec> Dec for EitherOf3<A, B, C> {
    fn ty() -> TyD {
        TyD::Either(vec![A::ty(), B::ty(), C::ty()])
    }
    fn from_val(v: &ValD) -> Option<Self> {
        match v {
            ValD::Either(0, x) => Some(EitherOf3::A(A::from_val(x)?)),
            ValD::Either(1, x) => Some(EitherOf3::B(B::from_val(x)?)),
            ValD::Either(2, x) => Some(EitherOf3::C(C::from_val(x)?)),
            _ => None,
        }
    }
}

impl<T: Dec> Dec for Vec<T> {
    fn ty() -> TyD {
        TyD::Vec(Box::new(T::ty()))
    }
    fn from_val(v: &ValD) -> Option<Self> {
        match v {
            ValD::Vec(vs) => vs.iter().map(T::from_val).collect(),
            _ => None,
        }
    }
}

// ------------------------------------------------------------------------------- keyed

pub type KeyedItem = HtmlElement<el::Li, (), (String,)>;
pub type KeyedList = Keyed<
    u32,
    Vec<u32>,
    u32,
    fn(&u32) -> u32,
    fn(usize, u32) -> (fn(usize), KeyedItem),
    fn(usize),
    KeyedItem,
>;

fn keyed_key(k: &u32) -> u32 {
    *k
}
fn keyed_set_index(_: usize) {}
fn keyed_view(_: usize, k: u32) -> (fn(usize), KeyedItem) {
    (keyed_set_index as fn(usize), el::li().child(format!("k{k}")))
}

impl Dec for KeyedList {
    fn ty() -> TyD {
        TyD::Keyed
    }
    fn from_val(v: &ValD) -> Option<Self> {
        match v {
            ValD::Keyed(ks) => Some(keyed(
                ks.clone(),
                keyed_key as fn(&u32) -> u32,
                keyed_view as fn(usize, u32) -> (fn(usize), KeyedItem),
            )),
            _ => None,
        }
    }
}

// ------------------------------------------------------------------------------- attributes

/// attribute keys usable in the family (unit structs of tachys::html::attribute)
pub trait Key: AttributeKey + Copy {
    const K: Self;
}
macro_rules! keys {
    ($($T:ident),*) => { $(impl Key for attr::$T { const K: Self = attr::$T; })* };
}
keys!(Id, Title, Lang, Hidden, Value, Disabled);

pub trait DecAttr: Attribute + Send + Sized + 'static {
    fn aty() -> ATy;
    fn from_aval(v: &AVal) -> Option<Self>;
}

impl<K: Key> DecAttr for Attr<K, String> {
    fn aty() -> ATy {
        ATy::Str(K::KEY.to_string())
    }
    fn from_aval(v: &AVal) -> Option<Self> {
        match v {
            AVal::Str(s) => Some(Attr(K::K, s.clone())),
            _ => None,
        }
    }
}
impl<K: Key> DecAttr for Attr<K, Option<String>> {
    fn aty() -> ATy {
        ATy::OStr(K::KEY.to_string())
    }
    fn from_aval(v: &AVal) -> Option<Self> {
        match v {
            AVal::OStr(s) => Some(Attr(K::K, s.clone())),
            _ => None,
        }
    }
}
impl<K: Key> DecAttr for Attr<K, bool> {
    fn aty() -> ATy {
        ATy::Bool(K::KEY.to_string())
    }
    fn from_aval(v: &AVal) -> Option<Self> {
        match v {
            AVal::Bool(b) => Some(Attr(K::K, *b)),
            _ => None,
        }
    }
}
impl DecAttr for Class<String> {
    fn aty() -> ATy {
        ATy::Cls
    }
    fn from_aval(v: &AVal) -> Option<Self> {
        match v {
            AVal::Cls(s) => Some(class(s.clone())),
            _ => None,
        }
    }
}
impl DecAttr for Class<Option<String>> {
    fn aty() -> ATy {
        ATy::OCls
    }
    fn from_aval(v: &AVal) -> Option<Self> {
        match v {
            AVal::OCls(s) => Some(class(s.clone())),
            _ => None,
        }
    }
}
/// `(&'static str, bool)` needs a `'static` name: names come from a small interned table
fn intern(s: &str) -> &'static str {
    use std::{collections::HashSet, sync::Mutex};
    static TABLE: OnceLock<Mutex<HashSet<&'static str>>> = OnceLock::new();
    let mut t = TABLE.get_or_init(|| Mutex::new(HashSet::new())).lock().unwrap();
    if let Some(x) = t.get(s) {
        return x;
    }
    let leaked: &'static str = Box::leak(s.to_string().into_boxed_str());
    t.insert(leaked);
    leaked
}
impl DecAttr for Class<(&'static str, bool)> {
    fn aty() -> ATy {
        ATy::TCls
    }
    fn from_aval(v: &AVal) -> Option<Self> {
        match v {
            AVal::TCls(n, b) => Some(class((intern(n), *b))),
            _ => None,
        }
    }
}
impl DecAttr for Style<String> {
    fn aty() -> ATy {
        ATy::Sty
    }
    fn from_aval(v: &AVal) -> Option<Self> {
        match v {
            AVal::Sty(s) => Some(style(s.clone())),
            _ => None,
        }
    }
}
impl DecAttr for Style<(String, String)> {
    fn aty() -> ATy {
        ATy::PSty
    }
    fn from_aval(v: &AVal) -> Option<Self> {
        match v {
            AVal::PSty(n, s) => Some(style((n.clone(), s.clone()))),
            _ => None,
        }
    }
}
impl DecAttr for Style<(String, Option<String>)> {
    fn aty() -> ATy {
        ATy::OPSty
    }
    fn from_aval(v: &AVal) -> Option<Self> {
        match v {
            AVal::OPSty(n, s) => Some(style((n.clone(), s.clone()))),
            _ => None,
        }
    }
}

/// an attribute tuple, applied to an element one `add_any_attr` at a time (the way the builder
/// methods `.id(..)`, `.class(..)`, `.style(..)` do)
pub trait DecAttrs: Attribute + Send + Sized + 'static {
    fn atys() -> Vec<ATy>;
    fn apply<E>(e: HtmlElement<E, (), ()>, avs: &[AVal]) -> Option<HtmlElement<E, Self, ()>>
    where
        E: el::ElementType + Send;
}

impl DecAttrs for () {
    fn atys() -> Vec<ATy> {
        vec![]
    }
    fn apply<E>(e: HtmlElement<E, (), ()>, avs: &[AVal]) -> Option<HtmlElement<E, Self, ()>>
    where
        E: el::ElementType + Send,
    {
        avs.is_empty().then_some(e)
    }
}
impl<A: DecAttr> DecAttrs for (A,) {
    fn atys() -> Vec<ATy> {
        vec![A::aty()]
    }
    fn apply<E>(e: HtmlElement<E, (), ()>, avs: &[AVal]) -> Option<HtmlElement<E, Self, ()>>
    where
        E: el::ElementType + Send,
    {
        let [a] = avs else { return None };
        Some(e.add_any_attr(A::from_aval(a)?))
    }
}
impl<A: DecAttr, B: DecAttr> DecAttrs for (A, B) {
    fn atys() -> Vec<ATy> {
        vec![A::aty(), B::aty()]
    }
    fn apply<E>(e: HtmlElement<E, (), ()>, avs: &[AVal]) -> Option<HtmlElement<E, Self, ()>>
    where
        E: el::ElementType + Send,
    {
        let [a, b] = avs else { return None };
        Some(e.add_any_attr(A::from_aval(a)?).add_any_attr(B::from_aval(b)?))
    }
}
impl<A: DecAttr, B: DecAttr, C: DecAttr> DecAttrs for (A, B, C) {
    fn atys() -> Vec<ATy> {
        vec![A::aty(), B::aty(), C::aty()]
    }
    fn apply<E>(e: HtmlElement<E, (), ()>, avs: &[AVal]) -> Option<HtmlElement<E, Self, ()>>
    where
        E: el::ElementType + Send,
    {
        let [a, b, c] = avs else { return None };
        Some(
            e.add_any_attr(A::from_aval(a)?)
                .add_any_attr(B::from_aval(b)?)
                .add_any_attr(C::from_aval(c)?),
        )
    }
}

// ------------------------------------------------------------------------------- elements

macro_rules! dec_element {
    ($T:ident, $f:ident, $name:literal) => {
        impl<At: DecAttrs> Dec for HtmlElement<el::$T, At, ()> {
            fn ty() -> TyD {
                TyD::Elem($name.into(), At::atys(), Box::new(TyD::Unit))
            }
            fn from_val(v: &ValD) -> Option<Self> {
                match v {
                    ValD::Elem(avs, c) if **c == ValD::Unit => At::apply(el::$f(), avs),
                    _ => None,
                }
            }
        }
    };
}
macro_rules! dec_element_children {
    ($T:ident, $f:ident, $name:literal) => {
        dec_element!($T, $f, $name);
        impl<At: DecAttrs, C1: Dec> Dec for HtmlElement<el::$T, At, (C1,)> {
            fn ty() -> TyD {
                TyD::Elem($name.into(), At::atys(), Box::new(TyD::Tuple(vec![C1::ty()])))
            }
            fn from_val(v: &ValD) -> Option<Self> {
                match v {
                    ValD::Elem(avs, c) => match &**c {
                        ValD::Tuple(cs) if cs.len() == 1 => {
                            Some(At::apply(el::$f(), avs)?.child(C1::from_val(&cs[0])?))
                        }
                        _ => None,
                    },
                    _ => None,
                }
            }
        }
        impl<At: DecAttrs, C1: Dec, C2: Dec> Dec for HtmlElement<el::$T, At, (C1, C2)> {
            fn ty() -> TyD {
                TyD::Elem($name.into(), At::atys(), Box::new(TyD::Tuple(vec![C1::ty(), C2::ty()])))
            }
            fn from_val(v: &ValD) -> Option<Self> {
                match v {
                    ValD::Elem(avs, c) => match &**c {
                        ValD::Tuple(cs) if cs.len() == 2 => Some(
                            At::apply(el::$f(), avs)?
                                .child(C1::from_val(&cs[0])?)
                                .child(C2::from_val(&cs[1])?),
                        ),
                        _ => None,
                    },
                    _ => None,
                }
            }
        }
    };
}
dec_element_children!(Div, div, "div");
dec_element_children!(Span, span, "span");
dec_element_children!(P, p, "p");
dec_element_children!(Ul, ul, "ul");
dec_element_children!(Li, li, "li");
dec_element!(Input, input, "input");
dec_element!(Br, br, "br");

/// shorthand for the attribute types
pub mod at {
    use super::*;
    pub type IdS = Attr<attr::Id, String>;
    pub type TitleS = Attr<attr::Title, String>;
    pub type LangS = Attr<attr::Lang, String>;
    pub type ValueS = Attr<attr::Value, String>;
    pub type TitleO = Attr<attr::Title, Option<String>>;
    pub type LangO = Attr<attr::Lang, Option<String>>;
    pub type HiddenB = Attr<attr::Hidden, bool>;
    pub type DisabledB = Attr<attr::Disabled, bool>;
    pub type Cls = Class<String>;
    pub type OCls = Class<Option<String>>;
    pub type TCls = Class<(&'static str, bool)>;
    pub type Sty = Style<String>;
    pub type PSty = Style<(String, String)>;
    pub type OPSty = Style<(String, Option<String>)>;
}

/// silence "unused" for `Render` (needed for `.build()` in generic code)
#[allow(dead_code)]
fn _uses<T: Render>() {}
