//! Interpreter from dynamic values into concrete tachys view types.
//!
//! `Dec` is implemented *generically* for the type constructors, so every Rust type written with
//! them (see the `shapes!` list in `src/bin/c03.rs`) names a concrete, non-erased tachys view type
//! (`Dec::V`) whose own `Render::{build, rebuild}` and `Mountable` impls run.  For most types
//! `V = Self`; the markers `Cl<A>` / `Ow<A>` (an attribute item passed through `into_cloneable()` /
//! `into_cloneable_owned()`) and `Sp<A, T>` (`T.add_any_attr(A)`: attribute spreading) name the type
//! the conversion produces.  `AnyView` is decoded through the registry of top-level shapes (type
//! tokens -> `into_any()` of that concrete type).
use crate::dynv::{AKind, ATy, AVal, Conv, Form, TextKind, TyD, ValD};
use oco_ref::Oco;
use std::{borrow::Cow, marker::PhantomData, sync::Arc};
use std::sync::OnceLock;
use tachys::{
    either::{Either, EitherOf3},
    html::{
        attribute::{self as attr, Attr, Attribute, AttributeKey},
        class::{class, Class},
        element::{self as el, ElementChild, HtmlElement},
        style::{style, Style},
    },
    renderer::types::{Element, Node},
    view::{
        add_attr::AddAnyAttr,
        any_view::{AnyView, IntoAny},
        keyed::{keyed, Keyed},
        Mountable, Render, RenderHtml,
    },
};

pub trait Dec: 'static {
    /// the tachys view type
    type V: RenderHtml + Send + 'static;
    fn ty() -> TyD;
    fn from_val(v: &ValD) -> Option<Self::V>;
}

// ------------------------------------------------------------------------------- type-erased case

pub trait DynCase {
    fn build_mount(&mut self, v: &ValD, parent: &Element, marker: Option<&Node>) -> bool;
    fn rebuild(&mut self, v: &ValD) -> bool;
    fn unmount(&mut self) -> bool;
}

pub struct Case<T: Dec>(Option<<T::V as Render>::State>);

impl<T: Dec> DynCase for Case<T> {
    fn build_mount(&mut self, v: &ValD, parent: &Element, marker: Option<&Node>) -> bool {
        let Some(view) = T::from_val(v) else { return false };
        let mut st = view.build();
        st.mount(parent, marker);
        self.0 = Some(st);
        true
    }
    fn rebuild(&mut self, v: &ValD) -> bool {
        let (Some(view), Some(st)) = (T::from_val(v), self.0.as_mut()) else { return false };
        view.rebuild(st);
        true
    }
    fn unmount(&mut self) -> bool {
        match self.0.as_mut() {
            Some(st) => {
                st.unmount();
                self.0 = None;
                true
            }
            None => false,
        }
    }
}

pub struct Shape {
    pub ty: TyD,
    pub new_case: fn() -> Box<dyn DynCase>,
    pub to_any: fn(&ValD) -> Option<AnyView>,
}

pub fn shape_of<T: Dec>() -> Shape {
    fn new_case<T: Dec>() -> Box<dyn DynCase> {
        Box::new(Case::<T>(None))
    }
    fn to_any<T: Dec>(v: &ValD) -> Option<AnyView> {
        Some(T::from_val(v)?.into_any())
    }
    Shape { ty: T::ty(), new_case: new_case::<T>, to_any: to_any::<T> }
}

static REGISTRY: OnceLock<Vec<Shape>> = OnceLock::new();

/// installs the closed family of top-level shapes (also the types an `AnyView` may hold)
pub fn register(shapes: Vec<Shape>) {
    let _ = REGISTRY.set(shapes);
}

pub fn registry() -> &'static [Shape] {
    REGISTRY.get().map(|v| v.as_slice()).unwrap_or(&[])
}

pub fn find_shape(ty: &TyD) -> Option<&'static Shape> {
    registry().iter().find(|s| &s.ty == ty)
}

// ------------------------------------------------------------------------------- leaves

impl Dec for String {
    type V = Self;
    fn ty() -> TyD {
        TyD::Text
    }
    fn from_val(v: &ValD) -> Option<Self::V> {
        crate::dynv::text_of(v)
    }
}

/// a text value as a `&'static str`: a fresh (leaked) allocation for `Text`, a slice of the ONE
/// interned allocation of the buffer for `Slice` (so equal-start slices share their address)
fn static_text(v: &ValD) -> Option<&'static str> {
    match v {
        ValD::Text(s) => Some(Box::leak(s.clone().into_boxed_str())),
        ValD::Slice { buf, start, len } => intern(buf).get(*start..start + len),
        _ => None,
    }
}

impl Dec for &'static str {
    type V = Self;
    fn ty() -> TyD {
        TyD::TextK(TextKind::Str)
    }
    fn from_val(v: &ValD) -> Option<Self::V> {
        static_text(v)
    }
}

impl Dec for Cow<'static, str> {
    type V = Self;
    fn ty() -> TyD {
        TyD::TextK(TextKind::Cow)
    }
    fn from_val(v: &ValD) -> Option<Self::V> {
        match v {
            ValD::Text(s) => Some(Cow::Owned(s.clone())),
            ValD::Slice { .. } => Some(Cow::Borrowed(static_text(v)?)),
            _ => None,
        }
    }
}

/// `Arc<str>` values are interned by contents: two values are the same `Arc` iff they are equal
/// (`Arc<str>::rebuild` compares pointers)
impl Dec for Arc<str> {
    type V = Self;
    fn ty() -> TyD {
        TyD::TextK(TextKind::Arc)
    }
    fn from_val(v: &ValD) -> Option<Self::V> {
        use std::{collections::HashMap, sync::Mutex};
        static TABLE: OnceLock<Mutex<HashMap<String, Arc<str>>>> = OnceLock::new();
        let s = crate::dynv::text_of(v)?;
        let mut t = TABLE.get_or_init(|| Mutex::new(HashMap::new())).lock().unwrap();
        Some(t.entry(s.clone()).or_insert_with(|| Arc::from(s.as_str())).clone())
    }
}

impl<T: Dec, const N: usize> Dec for [T; N] {
    type V = [T::V; N];
    fn ty() -> TyD {
        TyD::Arr(N, Box::new(T::ty()))
    }
    fn from_val(v: &ValD) -> Option<Self::V> {
        match v {
            ValD::Tuple(vs) if vs.len() == N => {
                let items: Vec<T::V> = vs.iter().map(T::from_val).collect::<Option<_>>()?;
                items.try_into().ok()
            }
            _ => None,
        }
    }
}

impl Dec for () {
    type V = Self;
    fn ty() -> TyD {
        TyD::Unit
    }
    fn from_val(v: &ValD) -> Option<Self::V> {
        matches!(v, ValD::Unit).then_some(())
    }
}

impl Dec for AnyView {
    type V = Self;
    fn ty() -> TyD {
        TyD::Any
    }
    fn from_val(v: &ValD) -> Option<Self::V> {
        match v {
            ValD::Any(ty, inner) => (find_shape(ty)?.to_any)(inner),
            _ => None,
        }
    }
}

// ------------------------------------------------------------------------------- combinators

macro_rules! dec_tuple {
    ($($T:ident $i:tt),+) => {
        impl<$($T: Dec),+> Dec for ($($T,)+) {
            type V = ($($T::V,)+);
            fn ty() -> TyD {
                TyD::Tuple(vec![$($T::ty()),+])
            }
            fn from_val(v: &ValD) -> Option<Self::V> {
                match v {
                    ValD::Tuple(vs) if vs.len() == [$($i),+].len() => Some(($($T::from_val(&vs[$i])?,)+)),
                    _ => None,
                }
            }
        }
    };
}
dec_tuple!(A 0);
dec_tuple!(A 0, B 1);
dec_tuple!(A 0, B 1, C 2);
dec_tuple!(A 0, B 1, C 2, D 3);

impl<T: Dec> Dec for Option<T> {
    type V = Option<T::V>;
    fn ty() -> TyD {
        TyD::Opt(Box::new(T::ty()))
    }
    fn from_val(v: &ValD) -> Option<Self::V> {
        match v {
            ValD::Opt(None) => Some(None),
            ValD::Opt(Some(x)) => Some(Some(T::from_val(x)?)),
            _ => None,
        }
    }
}

impl<A: Dec, B: Dec> Dec for Either<A, B> {
    type V = Either<A::V, B::V>;
    fn ty() -> TyD {
        TyD::Either(vec![A::ty(), B::ty()])
    }
    fn from_val(v: &ValD) -> Option<Self::V> {
        match v {
            ValD::Either(0, x) => Some(Either::Left(A::from_val(x)?)),
            ValD::Either(1, x) => Some(Either::Right(B::from_val(x)?)),
            _ => None,
        }
    }
}

impl<A: Dec, B: Dec, C: Dec> Dec for EitherOf3<A, B, C> {
    type V = EitherOf3<A::V, B::V, C::V>;
    fn ty() -> TyD {
        TyD::Either(vec![A::ty(), B::ty(), C::ty()])
    }
    fn from_val(v: &ValD) -> Option<Self::V> {
        match v {
            ValD::Either(0, x) => Some(EitherOf3::A(A::from_val(x)?)),
            ValD::Either(1, x) => Some(EitherOf3::B(B::from_val(x)?)),
            ValD::Either(2, x) => Some(EitherOf3::C(C::from_val(x)?)),
            _ => None,
        }
    }
}

impl<T: Dec> Dec for Vec<T> {
    type V = Vec<T::V>;
    fn ty() -> TyD {
        TyD::Vec(Box::new(T::ty()))
    }
    fn from_val(v: &ValD) -> Option<Self::V> {
        match v {
            ValD::Vec(vs) => vs.iter().map(T::from_val).collect(),
            _ => None,
        }
    }
}

impl<T: Dec> Dec for tachys::view::iterators::StaticVec<T>
where
    tachys::view::iterators::StaticVec<T::V>: RenderHtml + Send,
{
    type V = tachys::view::iterators::StaticVec<T::V>;
    fn ty() -> TyD {
        TyD::SVec(Box::new(T::ty()))
    }
    fn from_val(v: &ValD) -> Option<Self::V> {
        match v {
            ValD::Vec(vs) => Some(vs.iter().map(T::from_val).collect::<Option<Vec<_>>>()?.into()),
            _ => None,
        }
    }
}

// ------------------------------------------------------------------------------- keyed

pub type KeyedItem = HtmlElement<el::Li, (), (String,)>;
pub type KeyedList = Keyed<
    u32,
    Vec<u32>,
    u32,
    fn(&u32) -> u32,
    fn(usize, u32) -> (fn(usize), KeyedItem),
    fn(usize),
    KeyedItem,
>;

fn keyed_key(k: &u32) -> u32 {
    *k
}
fn keyed_set_index(_: usize) {}
fn keyed_view(_: usize, k: u32) -> (fn(usize), KeyedItem) {
    (keyed_set_index as fn(usize), el::li().child(format!("k{k}")))
}

impl Dec for KeyedList {
    type V = Self;
    fn ty() -> TyD {
        TyD::Keyed
    }
    fn from_val(v: &ValD) -> Option<Self::V> {
        match v {
            ValD::Keyed(ks) => Some(keyed(
                ks.clone(),
                keyed_key as fn(&u32) -> u32,
                keyed_view as fn(usize, u32) -> (fn(usize), KeyedItem),
            )),
            _ => None,
        }
    }
}

// ------------------------------------------------------------------------------- attributes

/// attribute keys usable in the family (unit structs of tachys::html::attribute)
pub trait Key: AttributeKey + Copy {
    const K: Self;
}
macro_rules! keys {
    ($($T:ident),*) => { $(impl Key for attr::$T { const K: Self = attr::$T; })* };
}
keys!(Id, Title, Lang, Hidden, Value, Disabled, Dir);

/// a Rust string type an attribute value (or a style property name) can be given as
pub trait StrForm: Clone + Send + 'static {
    const F: Form;
    fn mk(s: &str) -> Self;
}
impl StrForm for String {
    const F: Form = Form::String;
    fn mk(s: &str) -> Self {
        s.to_string()
    }
}
impl StrForm for &'static str {
    const F: Form = Form::Str;
    fn mk(s: &str) -> Self {
        intern(s)
    }
}
impl StrForm for Cow<'static, str> {
    const F: Form = Form::Cow;
    /// borrowed and owned values alternate (by the length of the contents)
    fn mk(s: &str) -> Self {
        if s.len() % 2 == 0 {
            Cow::Borrowed(intern(s))
        } else {
            Cow::Owned(s.to_string())
        }
    }
}
impl StrForm for Arc<str> {
    const F: Form = Form::Arc;
    fn mk(s: &str) -> Self {
        Arc::from(s)
    }
}
impl StrForm for Oco<'static, str> {
    const F: Form = Form::Oco;
    /// borrowed, counted and owned values alternate
    fn mk(s: &str) -> Self {
        match s.len() % 3 {
            0 => Oco::Borrowed(intern(s)),
            1 => Oco::Counted(Arc::from(s)),
            _ => Oco::Owned(s.to_string()),
        }
    }
}

/// names come from a small interned table (`&'static str`)
fn intern(s: &str) -> &'static str {
    use std::{collections::HashSet, sync::Mutex};
    static TABLE: OnceLock<Mutex<HashSet<&'static str>>> = OnceLock::new();
    let mut t = TABLE.get_or_init(|| Mutex::new(HashSet::new())).lock().unwrap();
    if let Some(x) = t.get(s) {
        return x;
    }
    let leaked: &'static str = Box::leak(s.to_string().into_boxed_str());
    t.insert(leaked);
    leaked
}

/// names one attribute item: `Out` is the tachys attribute type
pub trait DecAttr: 'static {
    type Out: Attribute + Send + 'static;
    fn aty() -> ATy;
    fn from_aval(v: &AVal) -> Option<Self::Out>;
}

fn aty_of(kind: AKind, form: Form, kform: Form) -> ATy {
    ATy { kind, form, conv: Conv::None, kform }
}

impl<K: Key, V: StrForm + attr::AttributeValue> DecAttr for Attr<K, V>
where
    Attr<K, V>: Attribute + Send,
{
    type Out = Self;
    fn aty() -> ATy {
        aty_of(AKind::Str(K::KEY.to_string()), V::F, Form::String)
    }
    fn from_aval(v: &AVal) -> Option<Self> {
        match v {
            AVal::Str(s) => Some(Attr(K::K, V::mk(s))),
            _ => None,
        }
    }
}
impl<K: Key, V: StrForm + attr::AttributeValue> DecAttr for Attr<K, Option<V>>
where
    Attr<K, Option<V>>: Attribute + Send,
{
    type Out = Self;
    fn aty() -> ATy {
        aty_of(AKind::OStr(K::KEY.to_string()), V::F, Form::String)
    }
    fn from_aval(v: &AVal) -> Option<Self> {
        match v {
            AVal::OStr(s) => Some(Attr(K::K, s.as_deref().map(V::mk))),
            _ => None,
        }
    }
}
impl<K: Key> DecAttr for Attr<K, bool> {
    type Out = Self;
    fn aty() -> ATy {
        ATy::plain(AKind::Bool(K::KEY.to_string()))
    }
    fn from_aval(v: &AVal) -> Option<Self> {
        match v {
            AVal::Bool(b) => Some(Attr(K::K, *b)),
            _ => None,
        }
    }
}
impl<V: StrForm + tachys::html::class::IntoClass> DecAttr for Class<V>
where
    Class<V>: Attribute + Send,
    V: tachys::html::class::IntoClass,
{
    type Out = Self;
    fn aty() -> ATy {
        aty_of(AKind::Cls, V::F, Form::String)
    }
    fn from_aval(v: &AVal) -> Option<Self> {
        match v {
            AVal::Cls(s) => Some(class(V::mk(s))),
            _ => None,
        }
    }
}
impl<V: StrForm + tachys::html::class::IntoClass> DecAttr for Class<Option<V>>
where
    Class<Option<V>>: Attribute + Send,
    V: tachys::html::class::IntoClass,
{
    type Out = Self;
    fn aty() -> ATy {
        aty_of(AKind::OCls, V::F, Form::String)
    }
    fn from_aval(v: &AVal) -> Option<Self> {
        match v {
            AVal::OCls(s) => Some(class(s.as_deref().map(V::mk))),
            _ => None,
        }
    }
}
/// `(&'static str, bool)` needs a `'static` name
impl DecAttr for Class<(&'static str, bool)> {
    type Out = Self;
    fn aty() -> ATy {
        ATy::plain(AKind::TCls)
    }
    fn from_aval(v: &AVal) -> Option<Self> {
        match v {
            AVal::TCls(n, b) => Some(class((intern(n), *b))),
            _ => None,
        }
    }
}
impl<V: StrForm + tachys::html::style::IntoStyle> DecAttr for Style<V>
where
    Style<V>: Attribute + Send,
    V: tachys::html::style::IntoStyle,
{
    type Out = Self;
    fn aty() -> ATy {
        aty_of(AKind::Sty, V::F, Form::String)
    }
    fn from_aval(v: &AVal) -> Option<Self> {
        match v {
            AVal::Sty(s) => Some(style(V::mk(s))),
            _ => None,
        }
    }
}
impl<V: StrForm + tachys::html::style::IntoStyle> DecAttr for Style<Option<V>>
where
    Style<Option<V>>: Attribute + Send,
    V: tachys::html::style::IntoStyle,
{
    type Out = Self;
    fn aty() -> ATy {
        aty_of(AKind::OSty, V::F, Form::String)
    }
    fn from_aval(v: &AVal) -> Option<Self> {
        match v {
            AVal::OSty(s) => Some(style(s.as_deref().map(V::mk))),
            _ => None,
        }
    }
}
impl<N: StrForm + AsRef<str>, V: StrForm + tachys::html::style::IntoStyleValue> DecAttr for Style<(N, V)>
where
    Style<(N, V)>: Attribute + Send,
    V: tachys::html::style::IntoStyleValue,
{
    type Out = Self;
    fn aty() -> ATy {
        aty_of(AKind::PSty, V::F, N::F)
    }
    fn from_aval(v: &AVal) -> Option<Self> {
        match v {
            AVal::PSty(n, s) => Some(style((N::mk(n), V::mk(s)))),
            _ => None,
        }
    }
}
impl<N: StrForm + AsRef<str>, V: StrForm> DecAttr for Style<(N, Option<V>)>
where
    Style<(N, Option<V>)>: Attribute + Send,
    Option<V>: tachys::html::style::IntoStyleValue,
    (N, Option<V>): tachys::html::style::IntoStyle,
{
    type Out = Self;
    fn aty() -> ATy {
        aty_of(AKind::OPSty, V::F, N::F)
    }
    fn from_aval(v: &AVal) -> Option<Self> {
        match v {
            AVal::OPSty(n, s) => Some(style((N::mk(n), s.as_deref().map(V::mk)))),
            _ => None,
        }
    }
}

/// the item `A` passed through `Attribute::into_cloneable()` (what `add_any_attr` on tuples / `Vec`
/// does to a spread attribute)
pub struct Cl<A>(PhantomData<A>);
/// the item `A` passed through `Attribute::into_cloneable_owned()` (what `into_any()` /
/// `HtmlElement::into_owned()` does to every attribute of the element)
pub struct Ow<A>(PhantomData<A>);

impl<A: DecAttr> DecAttr for Cl<A>
where
    <A::Out as Attribute>::Cloneable: Send + 'static,
{
    type Out = <A::Out as Attribute>::Cloneable;
    fn aty() -> ATy {
        ATy { conv: Conv::Cloneable, ..A::aty() }
    }
    fn from_aval(v: &AVal) -> Option<Self::Out> {
        Some(A::from_aval(v)?.into_cloneable())
    }
}
impl<A: DecAttr> DecAttr for Ow<A>
where
    <A::Out as Attribute>::CloneableOwned: Send + 'static,
{
    type Out = <A::Out as Attribute>::CloneableOwned;
    fn aty() -> ATy {
        ATy { conv: Conv::Owned, ..A::aty() }
    }
    fn from_aval(v: &AVal) -> Option<Self::Out> {
        Some(A::from_aval(v)?.into_cloneable_owned())
    }
}

/// `T.add_any_attr(A)`: the attribute is spread over the top-level elements of `T` (tuples and
/// `Vec` hand a clone of `into_cloneable()` to every member, `AnyView` becomes `AnyViewWithAttrs`)
pub struct Sp<A, T>(PhantomData<(A, T)>);

impl<A: DecAttr, T: Dec> Dec for Sp<A, T>
where
    <T::V as AddAnyAttr>::Output<A::Out>: RenderHtml + Send + 'static,
{
    type V = <T::V as AddAnyAttr>::Output<A::Out>;
    fn ty() -> TyD {
        TyD::Spread(A::aty(), Box::new(T::ty()))
    }
    fn from_val(v: &ValD) -> Option<Self::V> {
        match v {
            ValD::Spread(a, inner) => Some(T::from_val(inner)?.add_any_attr(A::from_aval(a)?)),
            _ => None,
        }
    }
}

/// an attribute tuple, applied to an element one `add_any_attr` at a time (the way the builder
/// methods `.id(..)`, `.class(..)`, `.style(..)` do)
pub trait DecAttrs: 'static {
    type Out: Attribute + Send + 'static;
    fn atys() -> Vec<ATy>;
    fn apply<E>(e: HtmlElement<E, (), ()>, avs: &[AVal]) -> Option<HtmlElement<E, Self::Out, ()>>
    where
        E: el::ElementType + Send;
}

impl DecAttrs for () {
    type Out = ();
    fn atys() -> Vec<ATy> {
        vec![]
    }
    fn apply<E>(e: HtmlElement<E, (), ()>, avs: &[AVal]) -> Option<HtmlElement<E, (), ()>>
    where
        E: el::ElementType + Send,
    {
        avs.is_empty().then_some(e)
    }
}
impl<A: DecAttr> DecAttrs for (A,) {
    type Out = (A::Out,);
    fn atys() -> Vec<ATy> {
        vec![A::aty()]
    }
    fn apply<E>(e: HtmlElement<E, (), ()>, avs: &[AVal]) -> Option<HtmlElement<E, Self::Out, ()>>
    where
        E: el::ElementType + Send,
    {
        let [a] = avs else { return None };
        Some(e.add_any_attr(A::from_aval(a)?))
    }
}
impl<A: DecAttr, B: DecAttr> DecAttrs for (A, B) {
    type Out = (A::Out, B::Out);
    fn atys() -> Vec<ATy> {
        vec![A::aty(), B::aty()]
    }
    fn apply<E>(e: HtmlElement<E, (), ()>, avs: &[AVal]) -> Option<HtmlElement<E, Self::Out, ()>>
    where
        E: el::ElementType + Send,
    {
        let [a, b] = avs else { return None };
        Some(e.add_any_attr(A::from_aval(a)?).add_any_attr(B::from_aval(b)?))
    }
}
impl<A: DecAttr, B: DecAttr, C: DecAttr> DecAttrs for (A, B, C) {
    type Out = (A::Out, B::Out, C::Out);
    fn atys() -> Vec<ATy> {
        vec![A::aty(), B::aty(), C::aty()]
    }
    fn apply<E>(e: HtmlElement<E, (), ()>, avs: &[AVal]) -> Option<HtmlElement<E, Self::Out, ()>>
    where
        E: el::ElementType + Send,
    {
        let [a, b, c] = avs else { return None };
        Some(
            e.add_any_attr(A::from_aval(a)?)
                .add_any_attr(B::from_aval(b)?)
                .add_any_attr(C::from_aval(c)?),
        )
    }
}
impl<A: DecAttr, B: DecAttr, C: DecAttr, D: DecAttr> DecAttrs for (A, B, C, D) {
    type Out = (A::Out, B::Out, C::Out, D::Out);
    fn atys() -> Vec<ATy> {
        vec![A::aty(), B::aty(), C::aty(), D::aty()]
    }
    fn apply<E>(e: HtmlElement<E, (), ()>, avs: &[AVal]) -> Option<HtmlElement<E, Self::Out, ()>>
    where
        E: el::ElementType + Send,
    {
        let [a, b, c, d] = avs else { return None };
        Some(
            e.add_any_attr(A::from_aval(a)?)
                .add_any_attr(B::from_aval(b)?)
                .add_any_attr(C::from_aval(c)?)
                .add_any_attr(D::from_aval(d)?),
        )
    }
}

// ------------------------------------------------------------------------------- elements

macro_rules! dec_element {
    ($T:ident, $f:ident, $name:literal) => {
        impl<At: DecAttrs> Dec for HtmlElement<el::$T, At, ()> {
            type V = HtmlElement<el::$T, At::Out, ()>;
            fn ty() -> TyD {
                TyD::Elem($name.into(), At::atys(), Box::new(TyD::Unit))
            }
            fn from_val(v: &ValD) -> Option<Self::V> {
                match v {
                    ValD::Elem(avs, c) if **c == ValD::Unit => At::apply(el::$f(), avs),
                    _ => None,
                }
            }
        }
    };
}
macro_rules! dec_element_children {
    ($T:ident, $f:ident, $name:literal) => {
        dec_element!($T, $f, $name);
        impl<At: DecAttrs, C1: Dec> Dec for HtmlElement<el::$T, At, (C1,)> {
            type V = HtmlElement<el::$T, At::Out, (C1::V,)>;
            fn ty() -> TyD {
                TyD::Elem($name.into(), At::atys(), Box::new(TyD::Tuple(vec![C1::ty()])))
            }
            fn from_val(v: &ValD) -> Option<Self::V> {
                match v {
                    ValD::Elem(avs, c) => match &**c {
                        ValD::Tuple(cs) if cs.len() == 1 => {
                            Some(At::apply(el::$f(), avs)?.child(C1::from_val(&cs[0])?))
                        }
                        _ => None,
                    },
                    _ => None,
                }
            }
        }
        impl<At: DecAttrs, C1: Dec, C2: Dec> Dec for HtmlElement<el::$T, At, (C1, C2)> {
            type V = HtmlElement<el::$T, At::Out, (C1::V, C2::V)>;
            fn ty() -> TyD {
                TyD::Elem($name.into(), At::atys(), Box::new(TyD::Tuple(vec![C1::ty(), C2::ty()])))
            }
            fn from_val(v: &ValD) -> Option<Self::V> {
                match v {
                    ValD::Elem(avs, c) => match &**c {
                        ValD::Tuple(cs) if cs.len() == 2 => Some(
                            At::apply(el::$f(), avs)?
                                .child(C1::from_val(&cs[0])?)
                                .child(C2::from_val(&cs[1])?),
                        ),
                        _ => None,
                    },
                    _ => None,
                }
            }
        }
    };
}
dec_element_children!(Div, div, "div");
dec_element_children!(Span, span, "span");
dec_element_children!(P, p, "p");
dec_element_children!(Ul, ul, "ul");
dec_element_children!(Li, li, "li");
// raw-text elements (`ESCAPE_CHILDREN = false`): built and rebuilt on the client like any other
dec_element_children!(Textarea, textarea, "textarea");
dec_element_children!(Style, style, "style");
dec_element_children!(Script, script, "script");
dec_element_children!(Noscript, noscript, "noscript");
dec_element!(Input, input, "input");
dec_element!(Br, br, "br");

/// shorthand for the attribute types
pub mod at {
    use super::*;
    pub type IdS = Attr<attr::Id, String>;
    pub type TitleS = Attr<attr::Title, String>;
    pub type LangS = Attr<attr::Lang, String>;
    pub type ValueS = Attr<attr::Value, String>;
    pub type TitleO = Attr<attr::Title, Option<String>>;
    pub type LangO = Attr<attr::Lang, Option<String>>;
    pub type HiddenB = Attr<attr::Hidden, bool>;
    pub type DisabledB = Attr<attr::Disabled, bool>;
    pub type Cls = Class<String>;
    pub type OCls = Class<Option<String>>;
    pub type TCls = Class<(&'static str, bool)>;
    pub type Sty = Style<String>;
    pub type PSty = Style<(String, String)>;
    pub type OPSty = Style<(String, Option<String>)>;
    pub type OSty = Style<Option<String>>;
    /// the other string forms: r = `&'static str`, w = `Cow<'static, str>`, a = `Arc<str>`, o = `Oco<'static, str>`
    pub type FR = &'static str;
    pub type FW = Cow<'static, str>;
    pub type FA = Arc<str>;
    pub type FO = Oco<'static, str>;
}

/// silence "unused" for `Render` (needed for `.build()` in generic code)
#[allow(dead_code)]
fn _uses<T: Render>() {}
