//! Shared by the DOM-view harnesses (C03; meant for C04/C05 too).
//!
//! * [`dynv`]   — dynamic (untyped) description of a view *type* (`TyD`) and of a *value* of such a
//!                type (`ValD`), their prefix token encoding (the one `lean/Driver/C03.lean` parses),
//!                a seeded generator of values / similar values, and a structural diff that names the
//!                transitions a rebuild exercises (tags).
//! * [`interp`] — `Dec`: the interpreter from `ValD` into a closed family of *concrete* tachys view
//!                types (`String`, `()`, tuples, `Option`, `Either`, `EitherOf3`, `Vec`, `AnyView`,
//!                `HtmlElement<Div|Span|P|Ul|Li|Input|Br, (attrs…), (children…)>`, `Keyed`), and the
//!                type-erased `DynCase` (`build`+`mount`, `rebuild`, `unmount`) used for top-level dispatch.
//! * [`show`]   — canonical serialisation of native-DOM nodes (ids renumbered by first appearance)
//!                and the normal form used by the fresh-build oracle.
pub mod dynv;
pub mod interp;
pub mod show;
