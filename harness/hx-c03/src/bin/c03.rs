//! C03 correspondence harness: the REAL tachys `Render::{build, rebuild}` and
//! `Mountable::{mount, unmount, insert_before_this}` of concrete view types, rendering into the native
//! DOM (`--cfg leptos_verif`).
//!
//! Ops (types/values in the prefix encoding of `hx_c03::dynv`):
//!   case <n>
//!   init <pre> <post>   -> children of the mount parent   (sibling kinds: letters t/c/e, `-` = none)
//!   build <ty> <val>    -> children ## verdict   (build, then mount before the first `post` sibling)
//!   rebuild <val>       -> children ## verdict   (value of the type given to `build`)
//!   unmount             -> children ## verdict   (exactly `pre ++ post` must remain)
//! children = `[node,..]`, node = `T<i>.<muts>:<hex>` | `C<i>.<muts>:<hex>` |
//! `E<i>.<muts>(<tag>;<attr>=<hex>&..;<node>,..)`, ids renumbered by first appearance in the case.
//! Verdict of build/rebuild (the property's oracle on the real code): the region between `pre` and
//! `post` equals a fresh build + mount of the same value in a second parent (attributes as a map,
//! class as a token set, style as a declaration map), `pre`/`post` are the same nodes as before, and
//! `take_errors()` is empty.
use hx_c03::{
    dynv::{transition_tags, Gen, Toks, TyD, ValD},
    interp::{at::*, find_shape, register, registry, shape_of, Cl, DynCase, KeyedList, Ow, Sp},
    show::{norm_nodes, show_kids, Names},
};
use hx_common::*;
use std::{
    collections::BTreeSet,
    panic::{catch_unwind, AssertUnwindSafe},
};
use tachys::{
    either::{Either, EitherOf3},
    html::{
        attribute::{self as attr, Attr},
        class::Class,
        element::{self as el, HtmlElement},
        style::Style,
    },
    renderer::native_dom::{self as nd, Element, Node},
    view::{any_view::AnyView, iterators::StaticVec},
};

type S = String;
type Str = &'static str;
type Cw = std::borrow::Cow<'static, str>;
type Ar = std::sync::Arc<str>;
type Div<A, C> = HtmlElement<el::Div, A, C>;
type Span<A, C> = HtmlElement<el::Span, A, C>;
type P<A, C> = HtmlElement<el::P, A, C>;
type Ul<A, C> = HtmlElement<el::Ul, A, C>;
type Li<A, C> = HtmlElement<el::Li, A, C>;
type Input<A> = HtmlElement<el::Input, A, ()>;
type Textarea<A, C> = HtmlElement<el::Textarea, A, C>;
type StyleEl<A, C> = HtmlElement<el::Style, A, C>;
type Script<A, C> = HtmlElement<el::Script, A, C>;
type Noscript<A, C> = HtmlElement<el::Noscript, A, C>;
type Br = HtmlElement<el::Br, (), ()>;

macro_rules! shapes {
    ($($t:ty),* $(,)?) => { vec![$(shape_of::<$t>()),*] };
}

fn install_shapes() {
    register(shapes![
        // leaves, tuples
        S, (), (S,), (S, S), (S, (), S), (S, S, S, S),
        // Option / Either / EitherOf3
        Option<S>, Option<(S, S)>, Option<Option<S>>, Either<S, ()>, Either<S, Span<(), (S,)>>,
        Either<(S, S), Vec<S>>, EitherOf3<S, (S, S), Vec<S>>, EitherOf3<(), Div<(), (S,)>, Option<S>>,
        // Vec
        Vec<S>, Vec<Option<S>>, Vec<(S, S)>, Vec<Vec<S>>, Vec<Li<(), (S,)>>, Vec<Either<S, Vec<S>>>,
        (S, Vec<S>, S), (Vec<S>, Vec<S>),
        // AnyView
        AnyView, (AnyView, S), (S, AnyView), Vec<AnyView>, Option<AnyView>, Either<AnyView, S>,
        Div<(), (AnyView,)>, Div<(), (Div<(), (Div<(), (AnyView,)>,)>,)>,
        // elements with static string attributes
        Div<(), ()>, Div<(), (S,)>, Div<(IdS,), (S,)>, Div<(IdS, TitleS), (S, S)>,
        Div<(IdS, TitleS, LangS), (Span<(TitleS,), (S,)>,)>, P<(), (S, S)>,
        Ul<(), (Vec<Li<(), (S,)>>,)>, Ul<(IdS,), (Vec<Li<(TitleS,), (S,)>>, S)>,
        Div<(), (Option<P<(), (S,)>>, Either<S, Span<(), (S,)>>)>,
        (S, Div<(IdS,), (S,)>, S), Option<Div<(IdS,), (S,)>>, Either<Div<(IdS,), (S,)>, P<(), (S,)>>,
        // void elements
        Input<(ValueS,)>, Input<(ValueS, DisabledB)>, Br, (S, Br, S),
        // Option / bool attribute values, class, style
        P<(TitleO,), (S,)>, Span<(HiddenB, LangO), (S,)>, Div<(TitleO, IdS), ()>,
        Div<(Cls,), ()>, Div<(OCls,), (S,)>, Div<(TCls,), (S,)>, Div<(TCls, TCls), ()>,
        Div<(Sty,), ()>, Div<(PSty,), ()>, Div<(OPSty,), ()>, Div<(PSty, PSty), ()>,
        Div<(IdS, Cls, Sty), (S,)>,
        // several sources for one attribute (they interfere)
        Div<(Cls, TCls), ()>, Div<(OCls, TCls), ()>, Div<(Sty, PSty), ()>, Div<(TitleO, LangO), ()>,
        // text children of the other string types (values: fresh allocations or slices of one buffer)
        Str, Cw, Ar, (S, Str, S), (Str, Cw), Vec<Str>, Option<Str>, Option<Cw>, Either<Str, ()>, Either<Cw, Str>,
        P<(), (Span<(), (S,)>, Str)>, P<(), (Str, S)>, Div<(IdS,), (Cw,)>, Div<(), (Ar,)>, (Ar, S), Vec<Ar>,
        (AnyView, Str), Vec<Cw>,
        // arrays; `[T; 0]` renders no node: as first / middle / last tuple member, inside the old
        // branch of every switching wrapper
        [S; 0], [S; 2], [Option<S>; 2], (S, [S; 2], S), (S, [S; 0]), ([S; 0], S), (S, [S; 0], S), ([S; 0], [S; 0], S),
        ([S; 0], Span<(), (S,)>), Div<(), ([S; 0], S)>, Vec<[S; 0]>, Vec<([S; 0], S)>,
        Either<([S; 0], Span<(), (S,)>), P<(), (S,)>>, Either<(S, [S; 0]), ([S; 0], S)>,
        EitherOf3<([S; 0], S), ([S; 0], [S; 0], S), Vec<S>>, Option<([S; 0], S)>, Option<(S, [S; 0])>,
        Either<[S; 2], ([S; 0], [S; 2])>,
        // node-less OLD branches (the new branch is never mounted: F-C03-6)
        Either<[S; 0], S>, Option<[S; 0]>, Either<([S; 0], [S; 0]), Span<(), (S,)>>, EitherOf3<[S; 0], S, ()>,
        // a whole-value style that can be absent
        Div<(OSty,), ()>, Div<(Cls, OSty), ()>, Div<(OSty, IdS), (S,)>, Div<(OSty, TCls), ()>,
        // the other Rust string types of attribute values (&'static str, Cow, Arc<str>, Oco)
        Div<(Attr<attr::Title, FR>,), ()>, Div<(Attr<attr::Title, FA>,), ()>, Div<(Attr<attr::Title, FO>,), ()>,
        Div<(Attr<attr::Title, Option<FR>>,), ()>, Div<(Attr<attr::Title, Option<FA>>,), ()>,
        Div<(Attr<attr::Title, Option<FO>>, IdS), ()>,
        Div<(Class<FR>,), ()>, Div<(Class<FW>,), ()>, Div<(Class<FA>,), ()>, Div<(Class<FO>,), ()>,
        Div<(Class<Option<FR>>,), ()>, Div<(Class<Option<FW>>,), ()>, Div<(Class<Option<FA>>,), ()>,
        Div<(Class<Option<FO>>,), ()>, Div<(Class<Option<FA>>, Style<Option<FA>>), ()>,
        Div<(Style<FR>,), ()>, Div<(Style<FA>,), ()>, Div<(Style<FO>,), ()>,
        Div<(Style<Option<FR>>,), ()>, Div<(Style<Option<FA>>,), ()>, Div<(Style<Option<FO>>,), ()>,
        Div<(Cls, Style<Option<FA>>), ()>, Div<(Class<FR>, Style<Option<FR>>, IdS), (S,)>,
        Div<(Style<(FR, FR)>,), ()>, Div<(Style<(S, FA)>,), ()>, Div<(Style<(FA, S)>,), ()>, Div<(Style<(FR, FO)>,), ()>,
        Div<(Style<(S, Option<FR>)>,), ()>, Div<(Style<(FR, Option<FA>)>,), ()>, Div<(Style<(FA, Option<FO>)>,), ()>,
        Div<(Style<(FR, FR)>, Style<(S, Option<FA>)>), ()>,
        // every item through into_cloneable() / into_cloneable_owned() (what spreading and
        // into_any() / into_owned() do to the attributes of an element)
        Div<(Cl<IdS>,), ()>, Div<(Ow<IdS>,), ()>, Div<(Cl<TitleO>,), ()>, Div<(Ow<TitleO>,), ()>,
        Div<(Cl<HiddenB>, Ow<LangO>), (S,)>, Div<(Ow<Attr<attr::Title, Option<FR>>>,), ()>,
        Div<(Cl<Cls>,), ()>, Div<(Ow<Cls>,), ()>, Div<(Cl<OCls>,), ()>, Div<(Ow<OCls>,), ()>,
        Div<(Cl<TCls>,), ()>, Div<(Ow<TCls>, Ow<TCls>), ()>, Div<(Ow<Class<FR>>,), ()>, Div<(Ow<Class<Option<FR>>>,), ()>,
        Div<(Cl<Class<FW>>,), ()>, Div<(Ow<Class<Option<FW>>>,), ()>,
        Div<(Cl<Sty>,), ()>, Div<(Ow<Sty>,), ()>, Div<(Cl<OSty>,), ()>, Div<(Ow<OSty>,), ()>,
        Div<(Ow<Style<FR>>,), ()>, Div<(Ow<Style<Option<FR>>>,), ()>, Div<(Cl<Style<Option<FR>>>,), ()>,
        Div<(Cl<PSty>,), ()>, Div<(Ow<PSty>,), ()>, Div<(Cl<OPSty>,), ()>, Div<(Ow<OPSty>,), ()>,
        Div<(Ow<Style<(FR, Option<FR>)>>,), ()>,
        Div<(Ow<Cls>, Ow<OSty>), ()>, Div<(Ow<OCls>, Ow<OSty>, Ow<IdS>), (S,)>, Div<(Cl<OCls>, Cl<OSty>), ()>,
        Option<Div<(Ow<OCls>, Ow<OSty>), ()>>,
        // attribute spreading: `view.add_any_attr(attr)` over tuples / Vec / Option / Either (each
        // member gets a clone of `into_cloneable()`; text members ignore it), nested, and over one element
        Sp<Cls, (Div<(), ()>, Span<(), (S,)>)>, Sp<OCls, (Div<(IdS,), ()>, S)>, Sp<TCls, (Div<(), ()>, Div<(TCls,), ()>)>,
        Sp<OSty, Vec<Div<(), ()>>>, Sp<OSty, (Div<(Cls,), ()>, P<(), (S,)>)>, Sp<Sty, Vec<Li<(), (S,)>>>,
        Sp<PSty, Either<Div<(), ()>, P<(), (S,)>>>, Sp<OPSty, Option<Div<(IdS,), ()>>>, Sp<TitleO, Vec<Li<(), (S,)>>>,
        Sp<IdS, (S, Span<(), (S,)>, S)>, Sp<HiddenB, [Div<(), ()>; 2]>,
        Sp<OCls, Sp<OSty, (Div<(), ()>, Div<(), ()>)>>, Sp<OSty, Div<(Cls,), ()>>, Sp<Class<Option<FR>>, Vec<Div<(), ()>>>,
        Sp<Style<Option<FR>>, (Div<(Cls,), ()>, Div<(), ()>)>, Sp<Cls, Div<(), (Div<(), ()>,)>>,
        // ... and over an AnyView (`AnyViewWithAttrs`: the attributes are erased, `AnyAttribute`)
        Sp<Cls, AnyView>, Sp<OCls, AnyView>, Sp<TCls, AnyView>, Sp<OSty, AnyView>, Sp<PSty, AnyView>, Sp<Attr<attr::Dir, Option<S>>, AnyView>,
        Sp<OCls, Sp<OSty, AnyView>>, (S, Sp<OCls, AnyView>, S), Vec<Sp<OSty, AnyView>>,
        // shapes of the corpus cases (corpus/C03/{toggle-names,style-names,attr-forms,spread}.ops)
        Div<(TCls,), ()>, Div<(PSty, OPSty), ()>, Div<(OCls, OSty), ()>, Div<(Ow<TCls>, Cl<TCls>), ()>,
        Div<(Class<FR>, Style<Option<FR>>), ()>, Div<(Class<FO>, Style<Option<FO>>), ()>, Div<(Class<FA>, Style<Option<FA>>), ()>,
        Div<(Cl<Cls>, Cl<OSty>), ()>, Div<(Ow<Class<FR>>, Ow<Style<Option<FR>>>), ()>,
        Div<(Cl<Class<FR>>, Cl<Style<Option<FR>>>), ()>, Div<(Ow<Class<FA>>, Ow<Style<Option<FA>>>), ()>,
        Div<(OCls, IdS), ()>, Div<(Class<Option<FR>>, IdS), ()>, Div<(Class<Option<FW>>, IdS), ()>, Div<(Class<Option<FA>>, IdS), ()>,
        Div<(Class<Option<FO>>, IdS), ()>, Div<(Ow<OCls>, IdS), ()>, Div<(Cl<Class<Option<FW>>>, IdS), ()>,
        Div<(Ow<Class<Option<FR>>>, IdS), ()>,
        Div<(TitleO, Cls), ()>, Div<(Attr<attr::Title, Option<FR>>, Cls), ()>, Div<(Attr<attr::Title, Option<FA>>, Cls), ()>,
        Div<(Attr<attr::Title, Option<FO>>, Cls), ()>, Div<(Ow<TitleO>, Cls), ()>, Div<(Cl<Attr<attr::Title, Option<FR>>>, Cls), ()>,
        Div<(Style<(FR, FR)>, Style<(FR, Option<FR>)>), ()>, Div<(Style<(S, FA)>, Style<(S, Option<FA>)>), ()>,
        Div<(Style<(FA, S)>, Style<(FA, Option<S>)>), ()>, Div<(Style<(S, FO)>, Style<(S, Option<FO>)>), ()>,
        Div<(Ow<PSty>, Ow<OPSty>), ()>, Div<(Ow<Style<(FR, FR)>>, Ow<Style<(FR, Option<FR>)>>), ()>, Div<(Cl<PSty>, Cl<OPSty>), ()>,
        Sp<OPSty, Either<Div<(), ()>, P<(), (S,)>>>,
        // ... and of hooks/fix-c03-8.corpus.ops
        P<(), (S,)>, Vec<Div<(), ()>>, (Div<(), ()>, Div<(), ()>), Span<(), (S,)>,
        // raw-text elements (script / style / textarea / noscript) with content that changes
        Textarea<(), (S,)>, Textarea<(IdS,), (S, S)>, Textarea<(), (Str,)>, Textarea<(), (Option<S>,)>, Textarea<(ValueS,), (Cw,)>,
        StyleEl<(), (S,)>, StyleEl<(IdS,), (Str, S)>, StyleEl<(), (Vec<S>,)>, Script<(), (S,)>, Script<(IdS,), (S, S)>,
        Script<(), (Either<S, ()>,)>, Noscript<(), (S,)>, Noscript<(), (P<(), (S,)>,)>, Noscript<(IdS,), (S, Span<(TitleO,), (S,)>)>,
        Noscript<(), (Vec<Li<(), (S,)>>,)>, Noscript<(), (AnyView,)>, (S, Textarea<(), (S,)>, S), Vec<Textarea<(), (S,)>>,
        Option<StyleEl<(), (S,)>>, Either<Script<(), (S,)>, Noscript<(), (S,)>>, Div<(), (Textarea<(), (S,)>, Script<(), (S,)>)>,
        // StaticVec (no marker node): at top level and as the one child of a top-level element
        StaticVec<S>, StaticVec<Div<(IdS,), (S,)>>, StaticVec<Option<S>>, StaticVec<AnyView>, StaticVec<Vec<S>>, StaticVec<(S, S)>,
        Div<(), (StaticVec<S>,)>, Div<(IdS, TCls), (StaticVec<Span<(), (S,)>>,)>, Ul<(), (StaticVec<Li<(TitleO,), (S,)>>,)>,
        Div<(Cls,), (StaticVec<AnyView>,)>, P<(), (StaticVec<Either<S, Span<(), (S,)>>>,)>,
        // keyed
        KeyedList, (S, KeyedList, S), Ul<(IdS,), (KeyedList,)>, Option<KeyedList>,
    ]);
}

// ------------------------------------------------------------------------------------------ run

struct Live {
    root: Element,
    root2: Element,
    pre: Vec<Node>,
    post: Vec<Node>,
    ty: Option<TyD>,
    case: Option<Box<dyn DynCase>>,
    names: Names,
    dead: bool,
}

fn mk_siblings(root: &Element, kinds: &str) -> Option<Vec<Node>> {
    let mut out = vec![];
    if kinds == "-" {
        return Some(out);
    }
    for c in kinds.chars() {
        let n: Node = match c {
            't' => (*nd::create_text_node("x")).clone(),
            'c' => (*nd::create_comment("m")).clone(),
            'e' => {
                let e = nd::create_element("span");
                let y = nd::create_text_node("y");
                nd::append_child(&e, &y);
                (*e).clone()
            }
            _ => return None,
        };
        nd::append_child(root, &n);
        out.push(n);
    }
    Some(out)
}

impl Live {
    fn region(&self) -> Option<Vec<Node>> {
        let kids = nd::children(&self.root);
        let (a, b) = (self.pre.len(), self.post.len());
        if kids.len() < a + b || kids[..a] != self.pre[..] || kids[kids.len() - b..] != self.post[..] {
            return None;
        }
        Some(kids[a..kids.len() - b].to_vec())
    }

    /// the oracle: region == fresh build + mount of `v` in the second parent
    fn verdict(&mut self, v: &ValD) -> String {
        let ty = self.ty.clone().unwrap();
        let Some(shape) = find_shape(&ty) else { return "fail no-shape".into() };
        let mut fresh = (shape.new_case)();
        if !fresh.build_mount(v, &self.root2, None) {
            return "fail fresh-build".into();
        }
        let want = norm_nodes(&nd::children(&self.root2));
        fresh.unmount();
        let errs = nd::take_errors();
        match self.region() {
            None => "fail siblings-disturbed".into(),
            Some(r) => {
                if norm_nodes(&r) != want {
                    "fail not-fresh".into()
                } else if !errs.is_empty() {
                    "fail dom-error".into()
                } else {
                    "ok".into()
                }
            }
        }
    }

    fn emit(&mut self, v: Option<&ValD>) -> String {
        let o = show_kids(&self.root, &mut self.names);
        match v {
            Some(v) => format!("{o} ## {}", self.verdict(v)),
            None => o,
        }
    }
}

fn op(live: &mut Option<Live>, w: &[&str]) -> String {
    match w {
        ["init", pre, post] => {
            nd::reset();
            let root = nd::create_root("main");
            let Some(pre) = mk_siblings(&root, pre) else { return "bad-op".into() };
            let Some(post) = mk_siblings(&root, post) else { return "bad-op".into() };
            let root2 = nd::create_root("aside");
            let mut l = Live { root, root2, pre, post, ty: None, case: None, names: Names::default(), dead: false };
            let o = l.emit(None);
            *live = Some(l);
            o
        }
        ["build", rest @ ..] => {
            let Some(l) = live.as_mut() else { return "bad-op".into() };
            if l.case.is_some() {
                return "bad-op".into();
            }
            let mut t = Toks::new(rest.to_vec());
            let Some(ty) = TyD::parse(&mut t) else { return "bad-op".into() };
            let Some(v) = ValD::parse(&ty, &mut t) else { return "bad-op".into() };
            let Some(shape) = find_shape(&ty) else { return "bad-op".into() };
            if !t.done() {
                return "bad-op".into();
            }
            let mut case = (shape.new_case)();
            let marker = l.post.first().cloned();
            if !case.build_mount(&v, &l.root, marker.as_ref()) {
                return "bad-op".into();
            }
            l.ty = Some(ty);
            l.case = Some(case);
            l.emit(Some(&v))
        }
        ["rebuild", rest @ ..] => {
            let Some(l) = live.as_mut() else { return "bad-op".into() };
            let (Some(ty), Some(case)) = (l.ty.clone(), l.case.as_mut()) else { return "bad-op".into() };
            let mut t = Toks::new(rest.to_vec());
            let Some(v) = ValD::parse(&ty, &mut t) else { return "bad-op".into() };
            if !t.done() || !case.rebuild(&v) {
                return "bad-op".into();
            }
            l.emit(Some(&v))
        }
        ["unmount"] => {
            let Some(l) = live.as_mut() else { return "bad-op".into() };
            let Some(mut case) = l.case.take() else { return "bad-op".into() };
            case.unmount();
            let o = show_kids(&l.root, &mut l.names);
            let kids = nd::children(&l.root);
            let want: Vec<Node> = l.pre.iter().chain(l.post.iter()).cloned().collect();
            let ok = kids == want && nd::take_errors().is_empty();
            format!("{o} ## {}", if ok { "ok" } else { "fail unmount-residue" })
        }
        _ => "bad-op".into(),
    }
}

/// transition tags of every case of an ops file (pre-pass), in case order
fn case_tags(text: &str) -> Vec<BTreeSet<String>> {
    let mut out: Vec<BTreeSet<String>> = vec![];
    let mut ty: Option<TyD> = None;
    let mut prev: Option<ValD> = None;
    for line in text.lines() {
        let w: Vec<&str> = line.split_whitespace().collect();
        match w.as_slice() {
            ["case", ..] => {
                out.push(BTreeSet::new());
                ty = None;
                prev = None;
            }
            ["build", rest @ ..] => {
                let mut t = Toks::new(rest.to_vec());
                ty = TyD::parse(&mut t);
                prev = ty.as_ref().and_then(|ty| ValD::parse(ty, &mut t));
                if let (Some(tags), Some(ty)) = (out.last_mut(), ty.as_ref()) {
                    ty.type_tags(tags);
                }
            }
            ["rebuild", rest @ ..] => {
                let mut t = Toks::new(rest.to_vec());
                let v = ty.as_ref().and_then(|ty| ValD::parse(ty, &mut t));
                if let (Some(tags), Some(a), Some(b)) = (out.last_mut(), prev.as_ref(), v.as_ref()) {
                    transition_tags(a, b, tags);
                }
                if v.is_some() {
                    prev = v;
                }
            }
            ["unmount"] => {
                if let Some(tags) = out.last_mut() {
                    tags.insert("unmount".into());
                }
            }
            _ => {}
        }
    }
    out
}

// ------------------------------------------------------------------------------------------ gen

const SIBS: &[&str] = &["-", "-", "t", "c", "e", "te", "ct", "ec", "tt"];

fn gen(seed: u64, n: usize, path: &str, tier: &str) -> std::io::Result<()> {
    use std::io::Write;
    let mut rng = Rng::new(seed);
    let mut f = std::io::BufWriter::new(std::fs::File::create(path)?);
    let lean_keyed = std::env::var("C03_KEYED").map(|v| v != "0").unwrap_or(LEAN_HAS_KEYED);
    let tops: Vec<TyD> =
        registry().iter().map(|s| s.ty.clone()).filter(|t| lean_keyed || !t.has_keyed()).collect();
    let mut any_tys: Vec<TyD> = tops.iter().filter(|t| !t.has_arc() && !t.has_oco() && !t.has_spread_any() && !t.has_svec()).cloned().collect();
    any_tys.sort_by_key(|t| t.depth());
    let max_rebuilds = if tier == "thorough" { 6 } else { 4 };
    let spread_any_ok = std::env::var("C03_SPREAD_ANY").map(|v| v != "0").unwrap_or(SPREAD_ANY_REPAIRED);
    for i in 0..n {
        let ty = rng.pick(&tops).clone();
        // the first len(tops) cases walk through every shape once
        let ty = if i < tops.len() { tops[i].clone() } else { ty };
        let tame = rng.chance(3, 4);
        writeln!(f, "case g{i}")?;
        // a top-level StaticVec re-mounts itself at the END of its parent on every rebuild
        // (`StaticVec::rebuild`, no marker node): it is generated as the LAST child only
        let post = if matches!(ty, TyD::SVec(_)) { "-" } else { *rng.pick(SIBS) };
        writeln!(f, "init {} {}", rng.pick(SIBS), post)?;
        let mut g = Gen {
            rng: &mut rng,
            any_tys: &any_tys,
            tame_attrs: tame,
            spread_any_ok: spread_any_ok,
            under_spread: false,
        };
        let mut cur = g.val(&ty, None, 4);
        writeln!(f, "build {} {}", ty.show(), cur.show())?;
        let k = 1 + g.rng.below(max_rebuilds);
        for _ in 0..k {
            let next = g.val(&ty, Some(&cur), 4);
            writeln!(f, "rebuild {}", next.show())?;
            cur = next;
        }
        if rng.chance(3, 4) {
            writeln!(f, "unmount")?;
        }
    }
    f.flush()
}

/// F-C03-8 (`AnyViewWithAttrs::rebuild` keeps the attribute states of the elements the `AnyView`
/// showed BEFORE the rebuild: a content of another type, or several top-level elements, lose /
/// mis-pair the spread attributes) is repaired in /repo (hooks/fix-c03-8.patch).  While `false`
/// the generator keeps the type of an `AnyView` that receives spread attributes and gives it at
/// most one top-level element; `C03_SPREAD_ANY=1` overrides.
const SPREAD_ANY_REPAIRED: bool = true;

/// whether lean/Driver/C03.lean understands the `k` (keyed) type
const LEAN_HAS_KEYED: bool = false;

fn main() {
    install_shapes();
    match parse_cli() {
        Cmd::Gen { seed, n, ops, tier } => gen(seed, n, &ops, &tier).expect("write ops"),
        Cmd::Run { ops, out } => {
            quiet_panics();
            let text = std::fs::read_to_string(&ops).expect("read ops");
            let tags = case_tags(&text);
            let mut case_ix = 0usize;
            let mut live: Option<Live> = None;
            run_ops(&ops, &out, |line| {
                let w: Vec<&str> = line.split_whitespace().collect();
                if let ["case", name] = w.as_slice() {
                    live = None;
                    let t = tags.get(case_ix).cloned().unwrap_or_default();
                    case_ix += 1;
                    let t: Vec<String> = t.into_iter().collect();
                    return if t.is_empty() {
                        format!("case {name}")
                    } else {
                        format!("case {name} tags={}", t.join(","))
                    };
                }
                if live.as_ref().map(|l| l.dead).unwrap_or(false) {
                    return "dead ## fail panic".into();
                }
                match catch_unwind(AssertUnwindSafe(|| op(&mut live, &w))) {
                    Ok(o) => o,
                    Err(_) => {
                        if let Some(l) = live.as_mut() {
                            l.dead = true;
                        }
                        "panic ## fail panic".into()
                    }
                }
            })
            .expect("run ops");
        }
    }
}
